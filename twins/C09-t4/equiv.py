# -*- coding: UTF-8 -*-
"""Equivalence transcript for property C09 (tag selection with inheritance).

Part A: in-process model probes (effective_tags, should_run_with_tags,
        should_run, outline row scenarios) on parsed features.
Part B: full `python -m behave` runs (subprocess, PYTHONPATH=worktree) with
        hook/step call logging, for a set of tag expressions.
Output is a canonical transcript on stdout (no timings, no absolute paths).
"""
from __future__ import print_function
import sys
sys.path.insert(0, "/tmp/wtT/C09")

import json
import os
import re
import shutil
import subprocess
import tempfile

WORKTREE = "/tmp/wtT/C09"
PYTHON = "/venv/bin/python"

FEATURE_ALPHA = u'''@feat_a @shared
Feature: Alpha

  Background:
    Given a background step

  @own1
  Scenario: A1 own tag
    Given a passing step
    When another passing step

  Scenario: A2 no own tag
    Given a passing step

  @fails
  Scenario: A3 failing
    Given a failing step
    Then a passing step

  @outl @param_<kind>
  Scenario Outline: A4 outline <kind>
    Given a step with "<kind>"

    @ex_one
    Examples: First
      | kind |
      | red  |
      | blue |

    @ex_two @own1
    Examples: Second
      | kind  |
      | green |

  @rule_r1
  Rule: R1 tagged rule

    @in_r1
    Scenario: R1S1 in rule
      Given a passing step

    Scenario: R1S2 untagged in rule
      Given a passing step

    @outl2
    Scenario Outline: R1O outline in rule <n>
      Given a step with "<n>"

      @ex_r
      Examples:
        | n |
        | 1 |
        | 2 |

  Rule: R2 untagged rule

    @only_r2
    Scenario: R2S1
      Given a passing step

    Scenario: R2S2 empty
'''

FEATURE_BETA = u'''@feat_b
Feature: Beta

  @own1
  Scenario: B1
    Given a passing step

  @b_only
  Scenario: B2
    Given a passing step
    And a failing step
'''

FEATURE_GAMMA = u'''Feature: Gamma untagged

  Scenario: G1
    Given a passing step

  @wip
  Scenario: G2
    Given a passing step
'''

FEATURE_EMPTY = u'''@feat_e @own1
Feature: Empty feature
'''

FEATURE_OUTLINE_BG = u'''@feat_o
Feature: Outline with parametrized background

  Background:
    Given a step with "<colour>"

  @o1 @c_<colour> @unknown_<nope>
  Scenario Outline: O1 <colour>
    Given a step with "<colour>"
      """
      text <colour>
      """
    And a table step
      | h_<colour> | x |
      | <colour>   | 1 |

    @e1
    Examples: E1
      | colour |
      | pink   |

    Examples: E2 untagged
      | colour |
      | grey   |
'''

FEATURES = [
    ("alpha.feature", FEATURE_ALPHA),
    ("beta.feature", FEATURE_BETA),
    ("gamma.feature", FEATURE_GAMMA),
    ("empty.feature", FEATURE_EMPTY),
    ("outline_bg.feature", FEATURE_OUTLINE_BG),
]

STEPS_PY = u'''
from __future__ import print_function
from behave import given, when, then, step

def log(context, text):
    print("CALL step: %s" % text)

@step(u'a background step')
def step_bg(context):
    log(context, "a background step")

@step(u'a passing step')
def step_pass(context):
    log(context, "a passing step")

@step(u'another passing step')
def step_pass2(context):
    log(context, "another passing step")

@step(u'a failing step')
def step_fail(context):
    log(context, "a failing step")
    assert False, "XFAIL"

@step(u'a step with "{value}"')
def step_with(context, value):
    log(context, "a step with %s text=%r" % (value, context.text))

@step(u'a table step')
def step_table(context):
    log(context, "a table step %r %r" % (list(context.table.headings),
                                         [list(r.cells) for r in context.table]))
'''

ENVIRONMENT_PY = u'''
from __future__ import print_function

def before_all(context):
    print("HOOK before_all")

def after_all(context):
    print("HOOK after_all")

def before_feature(context, feature):
    print("HOOK before_feature %s tags=%s" % (feature.name, sorted(context.tags)))

def after_feature(context, feature):
    print("HOOK after_feature %s status=%s" % (feature.name, feature.status.name))

def before_rule(context, rule):
    print("HOOK before_rule %s tags=%s" % (rule.name, sorted(context.tags)))

def after_rule(context, rule):
    print("HOOK after_rule %s status=%s" % (rule.name, rule.status.name))

def before_scenario(context, scenario):
    print("HOOK before_scenario %s tags=%s" % (scenario.name, sorted(context.tags)))
    if "hook_skip" in context.config.userdata and scenario.name.startswith("A2"):
        scenario.skip("by hook")

def after_scenario(context, scenario):
    print("HOOK after_scenario %s status=%s" % (scenario.name, scenario.status.name))

def before_tag(context, tag):
    print("HOOK before_tag %s" % tag)

def after_tag(context, tag):
    print("HOOK after_tag %s" % tag)

def before_step(context, step):
    print("HOOK before_step %s" % step.name)

def after_step(context, step):
    print("HOOK after_step %s status=%s" % (step.name, step.status.name))
'''

FORMATTER_PY = u'''
from __future__ import print_function
from behave.formatter.base import Formatter
from behave.model import Rule, ScenarioOutline

class TraceFormatter(Formatter):
    name = "trace"
    description = "Trace formatter calls and dump final status tree"

    def __init__(self, stream_opener, config):
        super(TraceFormatter, self).__init__(stream_opener, config)
        self.stream = self.open()
        self.current_feature = None

    def emit(self, text):
        self.stream.write(u"FMT %s\\n" % text)

    def uri(self, uri):
        self.emit("uri %s" % uri)

    def feature(self, feature):
        self.current_feature = feature
        self.emit("feature %s" % feature.name)

    def rule(self, rule):
        self.emit("rule %s" % rule.name)

    def background(self, background):
        self.emit("background %s" % background.name)

    def scenario(self, scenario):
        self.emit("scenario %s" % scenario.name)

    def step(self, step):
        self.emit("step %s" % step.name)

    def match(self, match):
        self.emit("match %s" % match.__class__.__name__)

    def result(self, step):
        self.emit("result %s %s" % (step.name, step.status.name))

    def dump(self, item, indent):
        self.emit("TREE %s%s %s status=%s should_skip=%r skip_reason=%r" % (
            indent, item.__class__.__name__, item.name, item.status.name,
            item.should_skip, item.skip_reason))
        if isinstance(item, Rule):
            for sub in item.run_items:
                self.dump(sub, indent + "  ")
        elif isinstance(item, ScenarioOutline):
            for sub in item.scenarios:
                self.dump(sub, indent + "  ")
        else:
            for step in item.all_steps:
                self.emit("TREE %s  Step %s status=%s" % (
                    indent, step.name, step.status.name))

    def eof(self):
        feature = self.current_feature
        if feature is not None:
            self.emit("TREE Feature %s status=%s should_skip=%r skip_reason=%r" % (
                feature.name, feature.status.name, feature.should_skip,
                feature.skip_reason))
            for item in feature.run_items:
                self.dump(item, "  ")
        self.emit("eof")
        self.current_feature = None
'''

TAG_EXPRESSIONS = [
    u"@own1",
    u"own1",
    u"not @own1",
    u"@shared",
    u"@feat_a and not @rule_r1",
    u"@rule_r1",
    u"@in_r1 or @only_r2",
    u"@ex_one",
    u"@ex_two",
    u"@ex_r",
    u"@outl",
    u"@outl2 and @rule_r1 and @feat_a and @ex_r",
    u"@param_red",
    u"@param_<kind>",
    u"@c_pink",
    u"@unknown_<nope>",
    u"@e1 or @feat_e",
    u"@o1 and not @e1",
    u"@nowhere",
    u"not @nowhere",
    u"@feat_b and @b_only",
    u"@fails or @b_only",
    u"@wip",
    u"not (@feat_a or @feat_b or @feat_o or @feat_e)",
    u"@own*",
]


# -----------------------------------------------------------------------------
# PART A: IN-PROCESS MODEL PROBES
# -----------------------------------------------------------------------------
def part_a():
    from behave.parser import parse_feature
    from behave.tag_expression import make_tag_expression
    from behave.model import ScenarioOutline, Scenario, Rule
    from behave.model_core import Status

    class FakeConfig(object):
        def __init__(self, tag_expression, name=None):
            self.tag_expression = tag_expression
            self.name = name
            self.name_re = None
            if name:
                self.name_re = re.compile("|".join(name), flags=re.UNICODE)

    def walk(feature):
        """Yield (depth, element) for all taggable elements incl. row scenarios."""
        yield 0, feature
        for item in feature.run_items:
            for x in walk_item(item, 1):
                yield x

    def walk_item(item, depth):
        yield depth, item
        if isinstance(item, Rule):
            for sub in item.run_items:
                for x in walk_item(sub, depth + 1):
                    yield x
        elif isinstance(item, ScenarioOutline):
            for row_scenario in item.scenarios:
                yield depth + 1, row_scenario

    def label(elem):
        return "%s:%s" % (elem.__class__.__name__, elem.name)

    print("=" * 70)
    print("PART A: model probes")
    for filename, text in FEATURES:
        feature = parse_feature(text, filename=filename)
        print("-" * 70)
        print("FEATURE-FILE %s" % filename)
        elements = list(walk(feature))
        for depth, elem in elements:
            etags = elem.effective_tags
            print("%s%s tags=%r effective=%r type=%s parent=%s" % (
                "  " * depth, label(elem), list(elem.tags), sorted(etags),
                type(etags).__name__,
                label(elem.parent) if elem.parent is not None else None))
            # -- effective_tags must be a fresh set each time (no aliasing).
            etags.add("__MUTATED__")
            assert "__MUTATED__" not in elem.effective_tags
            assert "__MUTATED__" not in elem.tags
            if isinstance(elem, ScenarioOutline):
                for row_scenario in elem.scenarios:
                    print("%s  ROW %s line=%s row.id=%s parent_is_outline=%s "
                          "feature_is_feature=%s keyword=%s" % (
                        "  " * depth, row_scenario.name, row_scenario.line,
                        row_scenario._row.id, row_scenario.parent is elem,
                        row_scenario.feature is feature, row_scenario.keyword))
                    print("%s    tags=%r type=%s descr=%r" % (
                        "  " * depth, list(row_scenario.tags),
                        type(row_scenario.tags).__name__,
                        row_scenario.description))
                    print("%s    background_is_outlines=%s" % (
                        "  " * depth,
                        row_scenario.background is elem.background))
                    for kind, steps in (("bg", row_scenario.background_steps),
                                        ("st", row_scenario.steps)):
                        for s in steps:
                            table = None
                            if s.table is not None:
                                table = (list(s.table.headings),
                                         [list(r.cells) for r in s.table])
                            print("%s    %s %s %s text=%r table=%r status=%s" % (
                                "  " * depth, kind, s.keyword, s.name,
                                s.text, table, s.status.name))
                    # -- row steps must be copies, not the outline's steps
                    for s, o in zip(row_scenario.steps, elem.steps):
                        assert s is not o
                # -- example tags must not be mutated/aliased by builder
                for example in elem.examples:
                    print("%s  EXAMPLES %s tags=%r" % (
                        "  " * depth, example.name, list(example.tags)))

        for expr_text in TAG_EXPRESSIONS:
            tag_expression = make_tag_expression(expr_text)
            config = FakeConfig(tag_expression)
            row = []
            for depth, elem in elements:
                with_tags = elem.should_run_with_tags(tag_expression)
                should_run = elem.should_run(config)
                should_run_noconfig = elem.should_run()
                row.append("%s=%r/%r/%r" % (label(elem), with_tags,
                                            should_run, should_run_noconfig))
            print("EXPR %-45s %s" % (expr_text, " ".join(row)))

        # -- name select combined with tags; return-value types matter.
        for names in (["A1"], ["R1"], ["nomatch"], ["outline"], ["O1 pink"]):
            config = FakeConfig(make_tag_expression(u"not @nowhere"), names)
            row = []
            for depth, elem in elements:
                if isinstance(elem, Scenario):
                    answer = elem.should_run(config)
                    row.append("%s=%s:%s" % (label(elem), type(answer).__name__,
                                             bool(answer)))
            print("NAME %-12r %s" % (names, " ".join(row)))
            config = FakeConfig(make_tag_expression(u"@nowhere"), names)
            row = []
            for depth, elem in elements:
                if isinstance(elem, Scenario):
                    answer = elem.should_run(config)
                    row.append("%s=%s:%s" % (label(elem), type(answer).__name__,
                                             bool(answer)))
            print("NAME+NOTAG %-12r %s" % (names, " ".join(row)))

        # -- explicit skip / mark_skipped, then should_run, then reset.
        for depth, elem in elements:
            if isinstance(elem, Scenario) and not isinstance(elem, ScenarioOutline):
                elem.skip()
                config = FakeConfig(make_tag_expression(u"not @nowhere"))
                print("SKIPPED %s should_skip=%r reason=%r should_run=%r/%r status=%s" % (
                    label(elem), elem.should_skip, elem.skip_reason,
                    elem.should_run(config), elem.should_run(),
                    elem.status.name))
                break
        feature.reset()
        config = FakeConfig(make_tag_expression(u"not @nowhere"))
        print("AFTER-RESET %s" % " ".join(
            "%s=%r" % (label(e), e.should_run(config)) for _, e in elements))
        feature.skip()
        print("FEATURE-SKIP %s" % " ".join(
            "%s=%r,%s" % (label(e), e.should_run(config), e.status.name)
            for _, e in elements))

    # -- boundary: statements built by hand (tags=None-ish / tuple / parent chain)
    print("-" * 70)
    print("HAND-BUILT")
    from behave.model import Feature
    f = Feature("x.feature", 1, u"Feature", u"F", tags=[u"t1", u"t1", u"t2"])
    r = Rule("x.feature", 2, u"Rule", u"R", tags=(u"t3",), parent=f)
    s = Scenario("x.feature", 3, u"Scenario", u"S", tags=[u"t4", u"t1"], parent=r)
    o = ScenarioOutline("x.feature", 5, u"Scenario Outline", u"O",
                        tags=[u"t5", u"p_<x>", u"<y>", u"a<b", u"a>b<"])
    o.parent = f
    s0 = Scenario("x.feature", 9, u"Scenario", u"S0", tags=[], parent=None)
    for elem in (f, r, s, o, s0):
        print("%s effective=%r" % (label(elem), sorted(elem.effective_tags)))
    for expr_text in (u"@t1", u"@t3", u"@t4", u"@t5", u"@p_<x>", u"not @t1"):
        te = make_tag_expression(expr_text)
        print("EXPR %s %s" % (expr_text, " ".join(
            "%s=%r" % (label(e), e.should_run_with_tags(te))
            for e in (f, r, s, o, s0))))


# -----------------------------------------------------------------------------
# PART B: FULL RUNS VIA python -m behave
# -----------------------------------------------------------------------------
def normalize(text, workdir):
    text = text.replace(workdir, "<WORKDIR>")
    text = re.sub(r"Took \d+m\d+\.\d+s", "Took <T>", text)
    text = re.sub(r"Took \d+min \d+\.\d+s", "Took <T>", text)
    text = re.sub(r"\d+\.\d+s\b", "<T>s", text)
    return text


def summarize_json(path):
    lines = []
    if not os.path.exists(path):
        return ["JSON: <missing>"]
    with open(path) as f:
        raw = f.read()
    try:
        data = json.loads(raw)
    except ValueError as e:
        return ["JSON: <invalid %s>" % e.__class__.__name__]

    def emit_element(elem, indent):
        lines.append("%s%s %s status=%s tags=%r" % (
            indent, elem.get("type"), elem.get("name"), elem.get("status"),
            elem.get("tags")))
        for step in elem.get("steps", []):
            result = step.get("result")
            status = result.get("status") if result else None
            lines.append("%s  step %s %s result=%s match=%s" % (
                indent, step.get("keyword"), step.get("name"), status,
                "yes" if "match" in step else "no"))
        for sub in elem.get("elements", []):
            emit_element(sub, indent + "  ")

    for feature in data:
        lines.append("JSON feature %s status=%s tags=%r" % (
            feature.get("name"), feature.get("status"), feature.get("tags")))
        for elem in feature.get("elements", []):
            emit_element(elem, "  ")
    return lines


def part_b():
    print("=" * 70)
    print("PART B: behave runs")
    workdir = tempfile.mkdtemp(prefix="c09_equiv_")
    try:
        os.makedirs(os.path.join(workdir, "features", "steps"))
        for filename, text in FEATURES:
            with open(os.path.join(workdir, "features", filename), "wb") as f:
                f.write(text.encode("utf-8"))
        with open(os.path.join(workdir, "features", "steps", "steps.py"), "wb") as f:
            f.write(STEPS_PY.encode("utf-8"))
        with open(os.path.join(workdir, "features", "environment.py"), "wb") as f:
            f.write(ENVIRONMENT_PY.encode("utf-8"))

        env = dict(os.environ)
        with open(os.path.join(workdir, "trace_formatter.py"), "wb") as f:
            f.write(FORMATTER_PY.encode("utf-8"))
        env["PYTHONPATH"] = WORKTREE + os.pathsep + workdir
        env["PYTHONDONTWRITEBYTECODE"] = "1"
        env["PYTHONHASHSEED"] = "0"
        env.pop("BEHAVE_ARGS", None)

        runs = []
        for expr in [None] + TAG_EXPRESSIONS:
            args = []
            if expr is not None:
                args = ["--tags=%s" % expr]
            runs.append(args)
        # -- multiple --tags options (AND), no-skipped, dry-run, name select,
        #    hook-based skip, stop.
        runs.append(["--tags=@feat_a", "--tags=@own1"])
        runs.append(["--tags=@own1", "--no-skipped"])
        runs.append(["--tags=@own1", "--dry-run"])
        runs.append(["--tags=@ex_one or @in_r1", "--dry-run", "--no-skipped"])
        runs.append(["--tags=@feat_a", "--name=R1"])
        runs.append(["--tags=@outl", "--name=blue"])
        runs.append(["--tags=not @fails", "-D", "hook_skip=yes"])
        runs.append(["--tags=@fails or @own1", "--stop"])
        runs.append(["--tags=@own1", "features/alpha.feature:14"])
        runs.append(["--wip"])

        for args in runs:
            json_path = os.path.join(workdir, "out.json")
            if os.path.exists(json_path):
                os.remove(json_path)
            cmd = [PYTHON, "-m", "behave", "--no-color", "--no-capture",
                   "--no-timings",
                   "-f", "json", "-o", "out.json",
                   "-f", "trace_formatter:TraceFormatter", "-o", "trace.txt",
                   "-f", "plain"] + args
            proc = subprocess.Popen(cmd, cwd=workdir, env=env,
                                    stdout=subprocess.PIPE,
                                    stderr=subprocess.STDOUT)
            output = proc.communicate()[0].decode("utf-8", "replace")
            print("-" * 70)
            print("RUN args=%r" % (args,))
            print("EXIT %s" % proc.returncode)
            print(normalize(output, workdir).rstrip())
            for line in summarize_json(json_path):
                print(line)
            trace_path = os.path.join(workdir, "trace.txt")
            if os.path.exists(trace_path):
                with open(trace_path) as f:
                    print(normalize(f.read(), workdir).rstrip())
                os.remove(trace_path)
            else:
                print("TRACE: <missing>")
    finally:
        shutil.rmtree(workdir, ignore_errors=True)


if __name__ == "__main__":
    part_a()
    sys.stdout.flush()
    part_b()
