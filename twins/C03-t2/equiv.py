# -*- coding: utf-8 -*-
"""Equivalence transcript for property C03 (status roll-up).

Prints a canonical transcript of:
  A. the Status predicate table (all enum members),
  B. OuterStatus / ScenarioStatus mappings for all enum members,
  C. Scenario.status for many step-status combinations (+ hook_failed, background),
  D. Feature/Rule status for many scenario-status combinations,
  E. ScenarioOutline status (built / not built / no examples / skip / reset),
  F. caching behaviour of .status (recompute until final, clear_status, reset),
  G. end-to-end `python -m behave` runs (hooks log statuses; autoretry re-runs).
"""
from __future__ import print_function
import sys
sys.path.insert(0, "/tmp/wtT/C03")

import itertools
import os
import re
import shutil
import subprocess
import tempfile
import textwrap

import behave
from behave.model_core import Status, OuterStatus, ScenarioStatus
from behave.parser import parse_feature

assert behave.__file__.startswith("/tmp/wtT/C03/"), behave.__file__

PYTHON = sys.executable


def show(*args):
    print(*args)
    sys.stdout.flush()


def call(func, *args, **kwargs):
    try:
        result = func(*args, **kwargs)
        if isinstance(result, Status):
            return "Status.%s" % result.name
        return repr(result)
    except Exception as e:  # noqa
        return "RAISED %s: %s" % (e.__class__.__name__, e)


# ---------------------------------------------------------------------------
# A. Status predicates
# ---------------------------------------------------------------------------
def section_a():
    show("== A. Status predicates")
    predicates = ["is_error", "is_failure", "is_passed", "is_untested",
                  "has_failed", "is_final", "is_pending", "is_undefined"]
    for status in Status:
        flags = ["%s=%s" % (name, call(getattr(status, name)))
                 for name in predicates]
        show("%-20s value=%-3d norm=%-10s %s v0=%s" % (
            status.name, status.value, status.normalized_name,
            " ".join(flags), call(status.to_status_v0)))
        # -- RESULT TYPE must be a real bool.
        for name in predicates:
            assert type(getattr(status, name)()) is bool
    for status in Status:
        show("eq-str %-20s %s %s %s hash=%s" % (
            status.name, status == status.name, status == "passed",
            status != "failed", hash(status) == hash(status.value)))
    show("in-set", sorted(s.name for s in set(Status) if s.is_error()))
    show("from_name", call(Status.from_name, "passed"),
         call(Status.from_name, "nope"))


# ---------------------------------------------------------------------------
# B. OuterStatus / ScenarioStatus
# ---------------------------------------------------------------------------
class Holder(object):
    def __init__(self, status):
        self.status = status


def section_b():
    show("== B. OuterStatus / ScenarioStatus")
    for status in Status:
        show("%-20s outer=%s outer_elem=%s from_step_status=%s/%s from_step=%s" % (
            status.name,
            call(OuterStatus.from_inner_status, status),
            call(OuterStatus.from_inner_model_element, Holder(status)),
            call(ScenarioStatus.from_step_status, status),
            call(ScenarioStatus.from_step_status, status, dry_run=True),
            call(ScenarioStatus.from_step, Holder(status))))
    show("outer(str)", call(OuterStatus.from_inner_status, "passed"))
    show("scenario(str)", call(ScenarioStatus.from_step_status, "passed"))


# ---------------------------------------------------------------------------
# C. Scenario.compute_status
# ---------------------------------------------------------------------------
FEATURE_PLAIN = u"""
Feature: F
  Scenario: S
    Given step 1
    When step 2
    Then step 3
"""

FEATURE_BACKGROUND = u"""
Feature: F
  Background: B
    Given background step 1
    And background step 2
  Scenario: S
    Given step 1
    When step 2
"""

FEATURE_EMPTY_SCENARIO = u"""
Feature: F
  Scenario: S
"""

STEP_STATUSES = [
    Status.untested, Status.skipped, Status.passed, Status.failed,
    Status.error, Status.hook_error, Status.undefined, Status.pending,
    Status.pending_warn, Status.untested_pending, Status.untested_undefined,
    Status.executing, Status.cleanup_error, Status.xfailed, Status.xpassed,
    Status.unknown,
]


def names(statuses):
    return ",".join(s.name for s in statuses)


def section_c():
    show("== C. Scenario.compute_status")
    # -- ALL combos of 3 step statuses (16**3 = 4096 lines is too much: use
    #    full pairs + selected triples).
    for combo in itertools.product(STEP_STATUSES, repeat=2):
        feature = parse_feature(FEATURE_PLAIN)
        scenario = feature.scenarios[0]
        steps = list(scenario.steps)
        steps[0].status, steps[1].status = combo
        steps[2].status = Status.passed
        show("steps=%-40s compute=%s status=%s" % (
            names(combo) + ",passed", call(scenario.compute_status),
            call(lambda: scenario.status)))
    core = [Status.untested, Status.skipped, Status.passed, Status.failed,
            Status.error, Status.undefined, Status.pending_warn,
            Status.untested_undefined]
    for combo in itertools.product(core, repeat=3):
        feature = parse_feature(FEATURE_PLAIN)
        scenario = feature.scenarios[0]
        for step, status in zip(scenario.steps, combo):
            step.status = status
        line = "steps3=%-45s status=%s" % (names(combo),
                                           call(lambda: scenario.status))
        scenario.hook_failed = True
        scenario.clear_status()
        line += " hook_failed=%s" % call(lambda: scenario.status)
        show(line)
    # -- WITH BACKGROUND: background steps come first.
    for combo in itertools.product(core, repeat=2):
        for position in (0, 1):
            feature = parse_feature(FEATURE_BACKGROUND)
            scenario = feature.scenarios[0]
            all_steps = list(scenario.all_steps)
            assert len(all_steps) == 4
            for step in all_steps:
                step.status = Status.passed
            all_steps[position].status = combo[0]       # background step
            all_steps[2 + position].status = combo[1]   # scenario step
            show("bg[%d]=%-20s step[%d]=%-20s status=%s feature=%s" % (
                position, combo[0].name, position, combo[1].name,
                call(lambda: scenario.status),
                call(lambda: feature.status)))
    feature = parse_feature(FEATURE_EMPTY_SCENARIO)
    scenario = feature.scenarios[0]
    show("empty scenario:", call(lambda: scenario.status),
         call(scenario.compute_status), call(lambda: feature.status))
    scenario.hook_failed = True
    show("empty scenario hook_failed:", call(lambda: scenario.status))
    # -- STRING STATUS in a step (misuse): must behave the same.
    feature = parse_feature(FEATURE_PLAIN)
    scenario = feature.scenarios[0]
    list(scenario.steps)[0].status = "passed"
    show("string step status:", call(lambda: scenario.status))
    # -- skip()/mark_skipped()
    feature = parse_feature(FEATURE_PLAIN)
    scenario = feature.scenarios[0]
    show("mark_skipped:", call(scenario.mark_skipped),
         call(lambda: scenario.status),
         names(step.status for step in scenario.steps))
    feature = parse_feature(FEATURE_PLAIN)
    scenario = feature.scenarios[0]
    list(scenario.steps)[0].status = Status.passed
    show("skip after 1 passed:", call(scenario.skip, None),
         call(lambda: scenario.status),
         names(step.status for step in scenario.steps))
    show("mark_skipped after executed:", call(scenario.mark_skipped))


# ---------------------------------------------------------------------------
# D. Feature / Rule status (ScenarioContainer.compute_status)
# ---------------------------------------------------------------------------
FEATURE_3S = u"""
Feature: F
  Scenario: S1
    Given step 1
  Scenario: S2
    Given step 1
  Scenario: S3
    Given step 1
"""

FEATURE_RULES = u"""
Feature: F
  Scenario: S0
    Given step 1
  Rule: R1
    Scenario: R1S1
      Given step 1
    Scenario: R1S2
      Given step 1
  Rule: R2
    Scenario: R2S1
      Given step 1
"""

FEATURE_EMPTY = u"""
Feature: F
"""

FEATURE_EMPTY_RULE = u"""
Feature: F
  Rule: R1
"""

SCENARIO_STATUSES = [
    Status.untested, Status.skipped, Status.passed, Status.failed,
    Status.error, Status.hook_error, Status.undefined, Status.pending,
    Status.pending_warn, Status.xfailed, Status.xpassed,
    Status.untested_undefined, Status.untested_pending, Status.executing,
]


def section_d():
    show("== D. Feature/Rule status")
    for combo in itertools.product(SCENARIO_STATUSES, repeat=3):
        feature = parse_feature(FEATURE_3S)
        for scenario, status in zip(feature.scenarios, combo):
            scenario.set_status(status)
        line = "scenarios=%-45s compute=%s status=%s" % (
            names(combo), call(feature.compute_status),
            call(lambda: feature.status))
        line += " cached=%s" % feature._cached_status.name
        show(line)
    core = [Status.untested, Status.skipped, Status.passed, Status.failed,
            Status.error]
    for combo in itertools.product(core, repeat=3):
        feature = parse_feature(FEATURE_3S)
        for scenario, status in zip(feature.scenarios, combo):
            scenario.set_status(status)
        feature.hook_failed = True
        show("hook_failed scenarios=%-30s status=%s" % (
            names(combo), call(lambda: feature.status)))
    # -- VIA STEPS (scenario status is computed, not set).
    for combo in itertools.product(core, repeat=3):
        feature = parse_feature(FEATURE_3S)
        for scenario, status in zip(feature.scenarios, combo):
            list(scenario.steps)[0].status = status
        show("via-steps=%-30s feature=%s scenarios=%s" % (
            names(combo), call(lambda: feature.status),
            names(s.status for s in feature.scenarios)))
    # -- RULES
    for combo in itertools.product(core, repeat=4):
        feature = parse_feature(FEATURE_RULES)
        scenarios = list(feature.walk_scenarios())
        assert len(scenarios) == 4
        for scenario, status in zip(scenarios, combo):
            list(scenario.steps)[0].status = status
        show("rules: %-38s feature=%s rules=%s run_items=%s" % (
            names(combo), call(lambda: feature.status),
            names(rule.status for rule in feature.rules),
            names(item.status for item in feature.run_items)))
    feature = parse_feature(FEATURE_RULES)
    feature.rules[0].hook_failed = True
    show("rule hook_failed:", call(lambda: feature.rules[0].status),
         call(lambda: feature.status))
    feature = parse_feature(FEATURE_EMPTY)
    show("empty feature:", call(lambda: feature.status),
         call(feature.compute_status))
    feature = parse_feature(FEATURE_EMPTY_RULE)
    show("empty rule:", call(lambda: feature.rules[0].status),
         call(lambda: feature.status))
    feature = parse_feature(FEATURE_3S)
    show("feature.mark_skipped:", call(feature.mark_skipped),
         call(lambda: feature.status),
         names(s.status for s in feature.scenarios))
    # -- HELPER must not leak into/replace public API.
    feature = parse_feature(FEATURE_3S)
    show("compute_status is bound method:",
         callable(feature.compute_status),
         feature.compute_status.__name__)


# ---------------------------------------------------------------------------
# E. ScenarioOutline
# ---------------------------------------------------------------------------
FEATURE_OUTLINE = u"""
Feature: F
  Scenario Outline: SO <name>
    Given step <name>

    Examples: E1
      | name |
      | a    |
      | b    |

    Examples: E2
      | name |
      | c    |
"""

FEATURE_OUTLINE_NO_ROWS = u"""
Feature: F
  Scenario Outline: SO <name>
    Given step <name>

    Examples: E1
      | name |
"""

FEATURE_OUTLINE_NO_EXAMPLES = u"""
Feature: F
  Scenario Outline: SO <name>
    Given step <name>
"""


def section_e():
    show("== E. ScenarioOutline")
    for combo in itertools.product(SCENARIO_STATUSES, repeat=3):
        feature = parse_feature(FEATURE_OUTLINE)
        outline = feature.scenarios[0]
        scenarios = outline.scenarios
        assert len(scenarios) == 3
        for scenario, status in zip(scenarios, combo):
            scenario.set_status(status)
        show("outline=%-45s compute=%s status=%s feature=%s" % (
            names(combo), call(outline.compute_status),
            call(lambda: outline.status), call(lambda: feature.status)))
    core = [Status.untested, Status.skipped, Status.passed, Status.failed,
            Status.error, Status.pending_warn, Status.untested_undefined]
    for combo in itertools.product(core, repeat=3):
        feature = parse_feature(FEATURE_OUTLINE)
        outline = feature.scenarios[0]
        for scenario, status in zip(outline.scenarios, combo):
            list(scenario.steps)[0].status = status
        line = "outline via-steps=%-45s status=%s feature=%s" % (
            names(combo), call(lambda: outline.status),
            call(lambda: feature.status))
        outline.hook_failed = True
        outline.clear_status()
        line += " hook_failed=%s" % call(lambda: outline.status)
        show(line)
    for label, text in [("3 rows", FEATURE_OUTLINE),
                        ("no rows", FEATURE_OUTLINE_NO_ROWS),
                        ("no examples", FEATURE_OUTLINE_NO_EXAMPLES)]:
        feature = parse_feature(text)
        outline = feature.scenarios[0]
        show("not built (%s): scenarios=%d compute=%s status=%s feature=%s" % (
            label, len(outline._scenarios), call(outline.compute_status),
            call(lambda: outline.status), call(lambda: feature.status)))
        show("  still not built:", len(outline._scenarios))
        built = outline.scenarios
        show("  built (%s): n=%d compute=%s status=%s feature=%s" % (
            label, len(built), call(outline.compute_status),
            call(lambda: outline.status), call(lambda: feature.status)))
        show("  mark_skipped:", call(outline.mark_skipped),
             call(lambda: outline.status), call(lambda: feature.status),
             names(s.status for s in outline._scenarios))
        outline.reset()
        show("  after reset:", call(lambda: outline.status),
             outline._cached_status.name,
             names(s.status for s in outline._scenarios))


# ---------------------------------------------------------------------------
# F. Caching
# ---------------------------------------------------------------------------
def section_f():
    show("== F. status caching")
    feature = parse_feature(FEATURE_3S)
    s1, s2, s3 = feature.scenarios
    log = []

    def snapshot(label):
        log.append("%-28s feature=%s cached=%s | %s | cached=%s" % (
            label, safe_name(lambda: feature.status),
            feature._cached_status.name,
            ",".join(safe_name(lambda: s.status) for s in feature.scenarios),
            names(s._cached_status for s in feature.scenarios)))

    def safe_name(func):
        try:
            return func().name
        except Exception as e:  # noqa
            return "RAISED(%s: %s)" % (e.__class__.__name__, e)

    snapshot("initial")
    list(s1.steps)[0].status = Status.passed
    snapshot("s1 passed")
    list(s2.steps)[0].status = Status.executing
    snapshot("s2 executing")
    list(s2.steps)[0].status = Status.passed
    snapshot("s2 passed")
    list(s3.steps)[0].status = Status.failed
    snapshot("s3 failed")
    list(s3.steps)[0].status = Status.passed
    snapshot("s3 passed (stale cache)")
    s3.clear_status()
    snapshot("s3 cleared")
    feature.clear_status()
    snapshot("feature cleared")
    list(s1.steps)[0].status = Status.error
    s1.clear_status()
    feature.clear_status()
    snapshot("s1 error")
    feature.reset()
    snapshot("feature reset")
    feature.hook_failed = True
    snapshot("hook_failed")
    feature.reset()
    snapshot("reset again")
    feature.set_status("skipped")
    snapshot("set_status(str)")
    for line in log:
        show(line)


# ---------------------------------------------------------------------------
# G. End-to-end runs
# ---------------------------------------------------------------------------
ENVIRONMENT = u'''
from __future__ import print_function
from behave.contrib.scenario_autoretry import patch_scenario_with_autoretry

def log(*args):
    print("HOOK:", *args)

def before_all(context):
    context.flaky_count = {}

def before_feature(context, feature):
    log("before_feature", feature.name, feature.status.name)
    if "fail_before_feature" in feature.tags:
        raise RuntimeError("OOPS before_feature")
    for scenario in feature.walk_scenarios(with_outlines=True):
        if "autoretry" in scenario.effective_tags:
            patch_scenario_with_autoretry(scenario, max_attempts=3)

def before_rule(context, rule):
    log("before_rule", rule.name, rule.status.name)
    if "fail_before_rule" in rule.tags:
        raise RuntimeError("OOPS before_rule")

def before_scenario(context, scenario):
    log("before_scenario", scenario.name, scenario.status.name)
    if "fail_before_scenario" in scenario.tags:
        raise RuntimeError("OOPS before_scenario")
    if "skip_in_hook" in scenario.tags:
        scenario.skip("by hook")

def after_scenario(context, scenario):
    log("after_scenario", scenario.name, scenario.status.name,
        [step.status.name for step in scenario.all_steps])
    if "fail_after_scenario" in scenario.tags:
        raise RuntimeError("OOPS after_scenario")

def after_rule(context, rule):
    log("after_rule", rule.name, rule.status.name)

def after_feature(context, feature):
    log("after_feature", feature.name, feature.status.name)
    if "fail_after_feature" in feature.tags:
        raise RuntimeError("OOPS after_feature")

def after_all(context):
    for feature in context._runner.features:
        log("FINAL feature", feature.name, feature.status.name)
        for item in feature.run_items:
            log("FINAL   item", item.name, item.status.name)
            for sub in item:
                status = getattr(sub, "status", None)
                log("FINAL     sub", getattr(sub, "name", "?"),
                    getattr(status, "name", status))
'''

STEPS = u'''
from behave import given, when, then, step
from behave.api.pending_step import StepNotImplementedError

@step(u'a step passes')
def step_passes(context):
    pass

@step(u'a step fails')
def step_fails(context):
    assert False, "XFAIL"

@step(u'a step raises an error')
def step_error(context):
    raise RuntimeError("OOPS")

@step(u'a step is pending')
def step_pending(context):
    raise StepNotImplementedError("pending step")

@step(u'a flaky step "{name}" passes on attempt {n:d}')
def step_flaky(context, name, n):
    count = context.flaky_count.get(name, 0) + 1
    context.flaky_count[name] = count
    assert count >= n, "flaky attempt %d" % count

@step(u'a step with outcome "{outcome}"')
def step_outcome(context, outcome):
    if outcome == "fails":
        assert False, "XFAIL"
    elif outcome == "error":
        raise RuntimeError("OOPS")
    elif outcome == "skip":
        context.scenario.skip("by step")
'''

STEPS_FALLBACK = u'''
from behave import step

@step(u'a step passes')
def step_passes(context):
    pass

@step(u'a step fails')
def step_fails(context):
    assert False, "XFAIL"

@step(u'a step raises an error')
def step_error(context):
    raise RuntimeError("OOPS")

@step(u'a step is pending')
def step_pending(context):
    raise NotImplementedError("pending step")

@step(u'a flaky step "{name}" passes on attempt {n:d}')
def step_flaky(context, name, n):
    count = context.flaky_count.get(name, 0) + 1
    context.flaky_count[name] = count
    assert count >= n, "flaky attempt %d" % count

@step(u'a step with outcome "{outcome}"')
def step_outcome(context, outcome):
    if outcome == "fails":
        assert False, "XFAIL"
    elif outcome == "error":
        raise RuntimeError("OOPS")
    elif outcome == "skip":
        context.scenario.skip("by step")
'''

FEATURES = {
    "a_passing.feature": u"""
Feature: A all passing
  Scenario: A1
    Given a step passes
    Then a step passes
  Scenario: A2
    Given a step passes
""",
    "b_mixed.feature": u"""
Feature: B mixed
  Background:
    Given a step passes
  Scenario: B1 passes
    Given a step passes
  Scenario: B2 fails
    Given a step fails
    Then a step passes
  Scenario: B3 error
    Given a step raises an error
    Then a step passes
  Scenario: B4 undefined
    Given a step that does not exist
    Then a step passes
  Scenario: B5 pending
    Given a step is pending
  @wip_excluded
  Scenario: B6 excluded by tag
    Given a step passes
  @skip_in_hook
  Scenario: B7 skipped in hook
    Given a step passes
  Scenario: B8 skipped in step
    Given a step with outcome "skip"
    Then a step fails
""",
    "c_skipped.feature": u"""
@wip_excluded
Feature: C all skipped
  Scenario: C1
    Given a step passes
  Scenario: C2
    Given a step fails
""",
    "d_hooks.feature": u"""
Feature: D hook errors
  @fail_before_scenario
  Scenario: D1
    Given a step passes
  @fail_after_scenario
  Scenario: D2
    Given a step passes
  Scenario: D3
    Given a step passes
""",
    "e_feature_hook.feature": u"""
@fail_before_feature
Feature: E before_feature fails
  Scenario: E1
    Given a step passes
""",
    "f_after_feature_hook.feature": u"""
@fail_after_feature
Feature: F after_feature fails
  Scenario: F1
    Given a step passes
""",
    "g_outline.feature": u"""
Feature: G outlines
  Scenario Outline: G1 <outcome>
    Given a step with outcome "<outcome>"

    Examples: E1
      | outcome |
      | passes  |
      | passes  |

    @wip_excluded
    Examples: E2
      | outcome |
      | fails   |

  Scenario Outline: G2 <outcome>
    Given a step with outcome "<outcome>"

    Examples:
      | outcome |
      | passes  |
      | fails   |
      | error   |
      | skip    |

  @wip_excluded
  Scenario Outline: G3 <outcome>
    Given a step with outcome "<outcome>"

    Examples:
      | outcome |
      | passes  |

  Scenario Outline: G4 <outcome>
    Given a step with outcome "<outcome>"

    Examples:
      | outcome |
      | skip    |
      | skip    |
""",
    "h_rules.feature": u"""
Feature: H rules
  Scenario: H0
    Given a step passes

  Rule: HR1 passing
    Scenario: HR1S1
      Given a step passes

  @wip_excluded
  Rule: HR2 skipped
    Scenario: HR2S1
      Given a step passes

  Rule: HR3 failing
    Background:
      Given a step passes
    Scenario: HR3S1
      Given a step passes
    Scenario: HR3S2
      Given a step fails
    Scenario: HR3S3
      Given a step passes

  @fail_before_rule
  Rule: HR4 hook error
    Scenario: HR4S1
      Given a step passes

  Rule: HR5 empty
""",
    "i_retry.feature": u"""
Feature: I autoretry
  @autoretry
  Scenario: I1 passes on attempt 2
    Given a flaky step "I1" passes on attempt 2
    Then a step passes
  @autoretry
  Scenario: I2 never passes
    Given a flaky step "I2" passes on attempt 9
    Then a step passes
  @autoretry
  Scenario Outline: I3 <name>
    Given a flaky step "<name>" passes on attempt <n>

    Examples:
      | name | n |
      | I3a  | 1 |
      | I3b  | 3 |
""",
    "j_empty.feature": u"""
Feature: J empty feature
""",
}


def normalize(output, workdir):
    lines = []
    for line in output.splitlines():
        line = line.replace(workdir, "<WORKDIR>")
        line = line.replace("/tmp/wtT/C03", "<WORKTREE>")
        line = re.sub(r"Took \d+m?in?\s*[\d.]+s", "Took <T>", line)
        line = re.sub(r"Took [\dmin .s]+$", "Took <T>", line)
        line = re.sub(r"\b\d+\.\d{3,}s\b", "<T>s", line)
        line = re.sub(r", line \d+, in", ", line N, in", line)
        line = re.sub(r"0x[0-9a-fA-F]+", "0xXXX", line)
        lines.append(line.rstrip())
    return "\n".join(lines)


def run_behave(workdir, args):
    env = dict(os.environ)
    env["PYTHONPATH"] = "/tmp/wtT/C03"
    env["PYTHONDONTWRITEBYTECODE"] = "1"
    env["PYTHONHASHSEED"] = "0"
    env.pop("BEHAVE_ARGS", None)
    cmd = [PYTHON, "-m", "behave", "--no-color", "--no-timings"] + args
    proc = subprocess.Popen(cmd, cwd=workdir, env=env,
                            stdout=subprocess.PIPE, stderr=subprocess.STDOUT)
    output, _ = proc.communicate()
    output = output.decode("utf-8", "replace")
    show("$ behave %s" % " ".join(args))
    show(normalize(output, workdir))
    show("exit-code: %s" % proc.returncode)


def section_g():
    show("== G. end-to-end runs")
    workdir = tempfile.mkdtemp(prefix="c03equiv_")
    try:
        os.makedirs(os.path.join(workdir, "features", "steps"))
        try:
            import behave.api.pending_step  # noqa
            steps_text = STEPS
        except ImportError:
            steps_text = STEPS_FALLBACK
        with open(os.path.join(workdir, "features", "environment.py"), "w") as f:
            f.write(ENVIRONMENT)
        with open(os.path.join(workdir, "features", "steps", "steps.py"), "w") as f:
            f.write(steps_text)
        for name, text in sorted(FEATURES.items()):
            with open(os.path.join(workdir, "features", name), "w") as f:
                f.write(textwrap.dedent(text))
        with open(os.path.join(workdir, "behave.ini"), "w") as f:
            f.write("[behave]\ndefault_tags = not @wip_excluded\n")
        common = ["-f", "plain", "--no-capture", "--no-skipped"]
        run_behave(workdir, common + ["features/"])
        run_behave(workdir, ["-f", "plain", "--no-capture", "--show-skipped",
                             "features/b_mixed.feature",
                             "features/g_outline.feature"])
        run_behave(workdir, common + ["--dry-run", "features/b_mixed.feature",
                                      "features/g_outline.feature",
                                      "features/h_rules.feature"])
        run_behave(workdir, common + ["--stop", "features/b_mixed.feature",
                                      "features/g_outline.feature"])
        run_behave(workdir, common + ["--tags=wip_excluded",
                                      "features/c_skipped.feature",
                                      "features/g_outline.feature",
                                      "features/h_rules.feature"])
        run_behave(workdir, ["-f", "progress3", "--no-capture",
                             "features/h_rules.feature",
                             "features/i_retry.feature"])
        run_behave(workdir, ["-f", "null", "--junit",
                             "--junit-directory", "reports",
                             "features/b_mixed.feature",
                             "features/d_hooks.feature",
                             "features/g_outline.feature"])
        reports = os.path.join(workdir, "reports")
        for name in sorted(os.listdir(reports)):
            with open(os.path.join(reports, name)) as f:
                text = f.read()
            for line in text.splitlines():
                match = re.search(r"<(testsuite|testcase) [^>]*>", line)
                if match:
                    tag = match.group(0)
                    tag = re.sub(r' (time|timestamp|hostname)="[^"]*"', "", tag)
                    show("junit %s: %s" % (name, tag))
    finally:
        shutil.rmtree(workdir, ignore_errors=True)


if __name__ == "__main__":
    section_a()
    section_b()
    section_c()
    section_d()
    section_e()
    section_f()
    section_g()
