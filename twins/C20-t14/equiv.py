# -*- coding: UTF-8 -*-
"""
Equivalence transcript for property C20 (configuration precedence, userdata).
Prints a canonical transcript of everything observed. Self-contained.
USAGE: /venv/bin/python equiv.py > transcript_xxx.txt
"""
from __future__ import print_function
import sys
sys.path.insert(0, "/tmp/wtW/C20")

import enum
import io
import itertools
import os
import shutil
import contextlib

HERE = os.path.dirname(os.path.abspath(__file__))
WORK = os.path.join(HERE, "work")
HOME = os.path.join(WORK, "home")
os.environ["HOME"] = HOME
os.environ.pop("BEHAVE_COLOR", None)
os.environ.pop("BEHAVE_STAGE", None)
os.environ.pop("APPDATA", None)

import behave
assert behave.__file__.startswith("/tmp/wtW/C20/"), behave.__file__
from behave import configuration as cfgmod
from behave.configuration import Configuration
from behave import userdata as udmod
from behave.userdata import UserData, UserDataNamespace, parse_user_define, \
    parse_bool, unqote


def out(*parts, **kw):
    print(*parts, **kw)


def canon(value):
    """Canonical, address-free text for a value."""
    if isinstance(value, dict):
        items = ", ".join("%s: %s" % (canon(k), canon(v))
                          for k, v in value.items())     # keeps ORDER
        return "%s{%s}" % (type(value).__name__, items)
    if isinstance(value, (list, tuple)):
        inner = ", ".join(canon(v) for v in value)
        return "%s(%s)" % (type(value).__name__, inner)
    if isinstance(value, (set, frozenset)):
        return "%s(%s)" % (type(value).__name__,
                           ", ".join(sorted(canon(v) for v in value)))
    if hasattr(value, "pattern") and hasattr(value, "search"):
        return "re(%r)" % value.pattern
    clsname = type(value).__name__
    if clsname == "StreamOpener":
        stream = value.stream
        if stream is sys.stdout:
            stream = "<stdout>"
        elif stream is not None:
            stream = "<stream>"
        return "StreamOpener(name=%r, stream=%s)" % (value.name, stream)
    if clsname.endswith("Reporter") or "Reporter" in clsname:
        return "<%s>" % clsname
    if isinstance(value, (str, bytes, int, float, bool, type(None))):
        return repr(value)
    if isinstance(value, enum.Enum):
        return "%s.%s" % (clsname, value.name)
    text = repr(value)
    if " at 0x" in text:
        text = "<%s object>" % clsname
    return text


def dump_config(config):
    data = vars(config)
    for name in sorted(data):
        out("    %s = %s" % (name, canon(data[name])))


@contextlib.contextmanager
def captured():
    old_out, old_err = sys.stdout, sys.stderr
    sys.stdout = io.StringIO()
    sys.stderr = io.StringIO()
    box = {}
    try:
        yield box
    finally:
        box["out"] = sys.stdout.getvalue()
        box["err"] = sys.stderr.getvalue()
        sys.stdout, sys.stderr = old_out, old_err


def show_captured(box):
    for key in ("out", "err"):
        text = box.get(key, "")
        if text:
            for line in text.splitlines():
                out("    [%s] %s" % (key, line.replace(WORK, "<WORK>")))


def outcome(func, *args, **kwargs):
    try:
        return "-> %s" % canon(func(*args, **kwargs))
    except SystemExit as e:
        return "!! SystemExit(%s)" % (e.code,)
    except BaseException as e:      # pylint: disable=broad-except
        return "!! %s: %s" % (type(e).__name__, str(e).replace(WORK, "<WORK>"))


def reset_workdir(files):
    os.chdir(HERE)
    if os.path.isdir(WORK):
        shutil.rmtree(WORK)
    os.makedirs(HOME)
    for relpath, text in files.items():
        path = os.path.join(WORK, relpath)
        dirname = os.path.dirname(path)
        if not os.path.isdir(dirname):
            os.makedirs(dirname)
        with open(path, "w") as f:
            f.write(text)


def run_config(title, files, args, cwd="proj", **kwargs):
    out("== %s" % title)
    out("   args=%r cwd=%s kwargs=%s" % (args, cwd, canon(kwargs)))
    reset_workdir(files)
    workdir = os.path.join(WORK, cwd)
    if not os.path.isdir(workdir):
        os.makedirs(workdir)
    os.chdir(workdir)
    config = None
    with captured() as box:
        try:
            config = Configuration(args, **kwargs)
            result = "OK"
        except SystemExit as e:
            result = "SystemExit(%s)" % (e.code,)
        except BaseException as e:  # pylint: disable=broad-except
            result = "%s: %s" % (type(e).__name__, str(e).replace(WORK, "<WORK>"))
    os.chdir(HERE)
    out("   result: %s" % result)
    show_captured(box)
    if config is not None:
        text_lines = []
        old = sys.stdout
        sys.stdout = io.StringIO()
        try:
            dump_config(config)
        finally:
            text_lines = sys.stdout.getvalue()
            sys.stdout = old
        out(text_lines.replace(WORK, "<WORK>"), end="")
    out("   class-defaults.userdata=%s" % canon(Configuration.defaults["userdata"]))
    return config


# -----------------------------------------------------------------------------
# PART 1: parse_user_define / unqote / parse_bool
# -----------------------------------------------------------------------------
def part_userdefine():
    out("#### PART 1: parse_user_define / unqote / parse_bool")
    names = ["foo", " foo ", "", "a.b", '"foo"', "'foo'", "f=o"]
    seps = ["=", " = ", "", "==", " =", "= "]
    values = ["bar", "", " bar ", '"bar"', "'bar'", '"bar', "bar'", "'\"bar\"'",
              "a=b", '"a=b"', '"', "'", '""', "''", "\"'", " \"x y\" ", "=", "'='"]
    texts = []
    for name, sep, value in itertools.product(names, seps, values):
        texts.append(name + sep + value)
    for text in list(texts):
        texts.append('"%s"' % text)
        texts.append("'%s'" % text)
        texts.append("  %s\t" % text)
        texts.append("'%s\"" % text)
    texts.extend(["", " ", "=", "==", '"', "'", '""', "''", '"="', "'='", '"=',
                  "='", "\"'", "'\"'", "\t=\t", "x", '"x"', "'x'", " 'x' ",
                  u"caf\xe9=\xfc", u"\xe9", "a='b'=c", "'a'='b'"])
    seen = set()
    for text in texts:
        if text in seen:
            continue
        seen.add(text)
        out("define %r %s" % (text, outcome(parse_user_define, text)))
    for text in sorted(seen):
        out("unqote %r %s" % (text, outcome(unqote, text)))
    for bad in (None, 42, b"a=b", b'"x"', ["a=b"]):
        out("define(bad) %r %s" % (bad, outcome(parse_user_define, bad)))
        out("unqote(bad) %r %s" % (bad, outcome(unqote, bad)))
    for text in ["true", "True", " YES ", "on", "1", "false", "No", "OFF", "0",
                 "", "2", "maybe", " tr ue", "y", "n"]:
        out("parse_bool %r %s" % (text, outcome(parse_bool, text)))


# -----------------------------------------------------------------------------
# PART 2: UserData getters
# -----------------------------------------------------------------------------
def part_getters():
    out("#### PART 2: UserData getters")
    raw_values = ["42", " 42 ", "-1", "4.5", "1e3", "", "abc", "true", "Yes", "off",
                  "0", "1", "2", 42, 4.5, True, False, None, [], "0x10", "nan"]
    data = UserData()
    for index, value in enumerate(raw_values):
        data["p%d" % index] = value
        data["ns.p%d" % index] = value
    ns = UserDataNamespace("ns", data)
    for index, value in enumerate(raw_values):
        name = "p%d" % index
        for holder_name, holder in (("data", data), ("ns", ns)):
            out("%s[%s]=%r getint %s" % (holder_name, name, value, outcome(holder.getint, name)))
            out("%s[%s]=%r getfloat %s" % (holder_name, name, value, outcome(holder.getfloat, name)))
            out("%s[%s]=%r getbool %s" % (holder_name, name, value, outcome(holder.getbool, name)))
            out("%s[%s]=%r getas(str) %s" % (holder_name, name, value, outcome(holder.getas, str, name)))
            out("%s[%s]=%r getas(int,valuetype=(int,float)) %s" % (
                holder_name, name, value,
                outcome(holder.getas, int, name, valuetype=(int, float))))
    for holder_name, holder in (("data", data), ("ns", ns)):
        out("%s missing getint %s" % (holder_name, outcome(holder.getint, "missing")))
        out("%s missing getint d=7 %s" % (holder_name, outcome(holder.getint, "missing", 7)))
        out("%s missing getfloat %s" % (holder_name, outcome(holder.getfloat, "missing")))
        out("%s missing getfloat d=None %s" % (holder_name, outcome(holder.getfloat, "missing", None)))
        out("%s missing getbool %s" % (holder_name, outcome(holder.getbool, "missing")))
        out("%s missing getbool d='x' %s" % (holder_name, outcome(holder.getbool, "missing", "x")))
        out("%s missing getas %s" % (holder_name, outcome(holder.getas, int, "missing")))
        out("%s missing get %s" % (holder_name, outcome(holder.get, "missing", "D")))
    out("ns.keys %s" % canon(list(ns.keys())[:5]))
    out("ns.len %s" % len(ns))
    out("make(None) %s" % canon(UserData.make(None)))
    out("make(dict) %s" % canon(UserData.make({"a": 1})))
    same = UserData(a=1)
    out("make(UserData) same=%s" % (UserData.make(same) is same))


# -----------------------------------------------------------------------------
# PART 3: config files x command line
# -----------------------------------------------------------------------------
INI_FULL = """\
[behave]
color = never
dry_run = true
exclude_re = excl_.*
include_re = incl_.*
junit = yes
junit_directory = ini_reports
jobs = 3
default_format = plain
format = plain
    json
    progress
outfiles = plain.out
steps_catalog = false
scenario_outline_annotation_schema = {name} :: {row.id}
show_skipped = false
show_snippets = no
show_multiline = off
name = alpha
    beta
stdout_capture = false
stderr_capture = false
log_capture = false
logging_level = DEBUG
logging_format = %(asctime)s|%(message)s
logging_datefmt = %H:%M
logging_filter = foo,-bar
logging_clear_handlers = true
summary = false
paths = features
    ../other/features
    /abs/features
tag_expression_protocol = strict
quiet = false
runner = my.runner:Runner
show_source = false
stage = ini_stage
stop = true
default_tags = @dflt
tags = @ini_one
    not @ini_two
show_timings = false
verbose = false
wip = false
lang = de

[behave.userdata]
foo = ini_foo
bar = ini_bar
number = 42
flag = yes

[behave.formatters]
myfmt = behave.formatter.plain:PlainFormatter

[behave.runners]
fast = behave.runner:Runner
"""

TOML_FULL = """\
[tool.behave]
color = "always"
dry_run = true
jobs = 4
junit = true
junit_directory = "toml_reports"
default_format = "progress"
format = ["json", "plain"]
outfiles = ["a.json", "b.txt", "c.extra"]
show_skipped = false
show_snippets = false
show_multiline = false
name = ["gamma"]
stdout_capture = false
logging_level = "WARNING"
logging_format = "%(name)s"
summary = false
paths = ["feat", "/abs/toml"]
tag_expression_protocol = "v2"
runner = "toml.runner:Runner"
stage = "toml_stage"
tags = ["@toml_one"]
show_timings = false

[tool.behave.userdata]
foo = "toml_foo"
number = 7
ratio = 0.5
flag = true

[tool.behave.formatters]
tfmt = "behave.formatter.json:JSONFormatter"

[tool.behave.runners]
slow = "behave.runner:Runner"
"""

CMDLINES = [
    [],
    ["--color", "always"],
    ["--no-color"],
    ["--color=off", "--no-junit", "--jobs", "9"],
    ["--junit", "--junit-directory", "cmd_reports"],
    ["--no-dry-run-typo"],
    ["-d"],
    ["--show-skipped", "--snippets", "--multiline", "--capture",
     "--capture-stderr", "--logcapture", "--summary", "--show-source",
     "--show-timings"],
    ["--no-skipped", "--no-snippets", "--no-multiline", "--no-capture",
     "--no-capture-stderr", "--no-logcapture", "--no-summary", "--no-source",
     "--no-timings"],
    ["--no-capture", "--capture"],
    ["--capture", "--no-capture"],
    ["-f", "progress", "-o", "cmd.out"],
    ["-f", "plain", "-f", "json", "-o", "one.out"],
    ["-o", "only.out"],
    ["-f", "json", "-o", "-"],
    ["-n", "cmdname", "-n", "other"],
    ["-t", "@cmd", "--tags", "not @x"],
    ["-t", "@cmd and {config.tags}"],
    ["--logging-level", "error", "--logging-format", "%(message)s",
     "--logging-datefmt", "%S", "--logging-filter", "baz",
     "--logging-clear-handlers"],
    ["--logging-level", "bogus"],
    ["-r", "cmd.runner:Runner", "--stage", "cmd_stage", "--stop"],
    ["-e", "cmd_excl", "-i", "cmd_incl"],
    ["-D", "foo=cmd_foo", "-D", "newflag", "-D", " spaced = 'v v' ",
     "-D", '"q1=x=y"', "-D", "number=99"],
    ["-D", "foo="],
    ["-w"],
    ["-w", "-t", "@cmd"],
    ["--steps-catalog"],
    ["--steps-catalog", "-f", "plain"],
    ["-q"],
    ["-v"],
    ["--lang", "fr"],
    ["cmd/features", "./x/../y.feature:3"],
    ["-j", "-2"],
    ["-j", "abc"],
    ["-f", "unknown_format"],
    ["-f", "myfmt"],
    ["-f", "behave.formatter.plain:NoSuchFormatter", "-f", "nomod.x:Y"],
    ["--tags-help"],
    ["--version"],
]

FILE_SETS = [
    ("no-config", {}),
    ("ini-full", {"proj/behave.ini": INI_FULL}),
    ("toml-full", {"proj/pyproject.toml": TOML_FULL}),
    ("ini+toml", {"proj/behave.ini": INI_FULL, "proj/pyproject.toml": TOML_FULL}),
]


def part_matrix():
    out("#### PART 3: config files x command lines")
    for (set_name, files), args in itertools.product(FILE_SETS, CMDLINES):
        run_config("%s %s" % (set_name, " ".join(args)), files, list(args))


# -----------------------------------------------------------------------------
# PART 4: subsets of ini options, file kinds, depth, format/outfiles coupling
# -----------------------------------------------------------------------------
def ini_of(pairs, extra=""):
    lines = ["[behave]"]
    for key, value in pairs:
        lines.append("%s = %s" % (key, value))
    return "\n".join(lines) + "\n" + extra


def part_subsets():
    out("#### PART 4: subsets / coupling / file kinds / depth")
    # -- format/outfiles coupling: all sizes 0..3 x 0..4
    formats = ["plain", "json", "progress"]
    outfiles = ["o1.txt", "sub/o2.txt", "/abs/o3.txt", "../o4.txt"]
    for nf in range(0, 4):
        for no in range(0, 5):
            pairs = []
            if nf:
                pairs.append(("format", "\n    ".join(formats[:nf])))
            if no:
                pairs.append(("outfiles", "\n    ".join(outfiles[:no])))
            pairs.append(("paths", "feat\n    ./a/../b\n    /abs/p"))
            run_config("coupling ini nf=%d no=%d" % (nf, no),
                       {"proj/behave.ini": ini_of(pairs)}, [])
            toml = "[tool.behave]\n"
            if nf:
                toml += "format = %s\n" % str(formats[:nf]).replace("'", '"')
            if no:
                toml += "outfiles = %s\n" % str(outfiles[:no]).replace("'", '"')
            run_config("coupling toml nf=%d no=%d" % (nf, no),
                       {"proj/pyproject.toml": toml}, ["-o", "cmd.txt"] if no == 2 else [])
    # -- direct calls of format_outfiles_coupling (mutation + aliasing)
    for nf in range(0, 4):
        for no in range(0, 5):
            for with_outfiles_key in (True, False):
                data = {}
                if nf or with_outfiles_key:
                    data["format"] = formats[:nf]
                shared = outfiles[:no]
                if with_outfiles_key:
                    data["outfiles"] = shared
                if no % 2:
                    data["paths"] = ["x", "/y", "../z", ""]
                with captured() as box:
                    res = outcome(cfgmod.format_outfiles_coupling, data, "/base/dir")
                out("foc nf=%d no=%d key=%s %s data=%s shared=%s" % (
                    nf, no, with_outfiles_key, res, canon(data), canon(shared)))
                show_captured(box)
    out("foc nonstr %s" % outcome(
        cfgmod.format_outfiles_coupling, {"format": [1, None, u"\xe9"]}, ""))
    data = {"format": [1, None, u"x"], "paths": ("a", "b")}
    cfgmod.format_outfiles_coupling(data, "rel")
    out("foc nonstr data=%s" % canon(data))

    # -- single option subsets in file vs command line
    singles = [
        ("color", "on", ["--color", "never"]),
        ("dry_run", "true", ["--dry-run"]),
        ("junit", "true", ["--no-junit"]),
        ("show_skipped", "false", ["--show-skipped"]),
        ("summary", "no", ["--summary"]),
        ("jobs", "5", ["-j", "6"]),
        ("jobs", "-5", []),
        ("jobs", "x", []),
        ("stage", "s1", ["--stage", "s2"]),
        ("logging_level", "CRITICAL", ["--logging-level", "INFO"]),
        ("logging_level", "nonsense", []),
        ("tag_expression_protocol", "V1", []),
        ("tag_expression_protocol", "Auto_Detect", []),
        ("tag_expression_protocol", "bad", []),
        ("stdout_capture", "maybe", []),
        ("format", "plain", ["-f", "json"]),
        ("tags", "@a\n    @b", ["-t", "@c"]),
        ("default_tags", "@d1", []),
        ("name", "n1\n    n2", ["-n", "n3"]),
        ("logging_format", "%(levelname)s %(x)s", []),
        ("scenario_outline_annotation_schema", "{name} X", []),
        ("unknown_option", "zzz", []),
        ("tags_help", "true", []),
        ("userdata_defines", "a=b", []),
        ("lang", "ru", ["--lang", "en"]),
    ]
    for key, value, args in singles:
        for use_file, use_args in ((True, False), (True, True)):
            if use_args and not args:
                continue
            run_config("single %s=%r file=%s args=%s" % (key, value, use_file, use_args),
                       {"proj/behave.ini": ini_of([(key, value)])},
                       list(args) if use_args else [])
    # -- pairs of booleans in file
    bools = ["dry_run", "junit", "show_skipped", "stop", "wip", "quiet", "steps_catalog"]
    for a, b in itertools.combinations(bools, 2):
        run_config("pair %s+%s" % (a, b),
                   {"proj/behave.ini": ini_of([(a, "true"), (b, "false")])},
                   ["--no-junit"] if "junit" in (a, b) else [])

    # -- file kinds and priorities
    ud = "[behave.userdata]\nwho = %s\n"
    kinds = {
        "proj/behave.ini": ini_of([("stage", "behave_ini"), ("jobs", "2")], ud % "behave_ini"),
        "proj/.behaverc": ini_of([("stage", "behaverc"), ("lang", "rc")], ud % "behaverc"),
        "proj/setup.cfg": ini_of([("stage", "setup_cfg"), ("stop", "true")], ud % "setup_cfg"),
        "proj/tox.ini": ini_of([("stage", "tox_ini"), ("wip", "false")], ud % "tox_ini"),
        "proj/pyproject.toml": '[tool.behave]\nstage = "toml"\nlogging_filter = "t"\n'
                               '[tool.behave.userdata]\nwho = "toml"\n',
        "home/behave.ini": ini_of([("stage", "home_ini"), ("junit_directory", "home_reports"),
                                   ("paths", "homefeat"), ("outfiles", "home.out"),
                                   ("format", "plain")], ud % "home"),
        "home/pyproject.toml": '[tool.behave]\nstage = "home_toml"\ncolor = "on"\n',
    }
    names = sorted(kinds)
    for size in (1, 2):
        for combo in itertools.combinations(names, size):
            files = dict((n, kinds[n]) for n in combo)
            run_config("kinds %s" % "+".join(combo), files, [])
    run_config("kinds all", dict(kinds), ["-D", "who=cmd"])
    run_config("kinds all verbose", dict(kinds), ["-v"])
    run_config("kinds all verbose-kw", dict(kinds), [], verbose=True)
    run_config("kinds load_config=False", dict(kinds), [], load_config=False)
    # -- depth: config in parent dir is NOT used; cwd deeper
    run_config("depth parent-only", {"proj/behave.ini": kinds["proj/behave.ini"]},
               [], cwd="proj/sub/deeper")
    run_config("depth own", {"proj/sub/deeper/behave.ini": ini_of(
        [("paths", "f1\n    ../../f2"), ("outfiles", "o.txt"), ("format", "plain")])},
        [], cwd="proj/sub/deeper")
    # -- toml special cases
    run_config("toml no tool", {"proj/pyproject.toml": "[project]\nname = 'x'\n"}, [])
    run_config("toml tool no behave", {"proj/pyproject.toml": "[tool.other]\nx = 1\n"}, [])
    run_config("toml format str", {"proj/pyproject.toml": '[tool.behave]\nformat = "plain"\n'}, [])
    run_config("toml empty behave", {"proj/pyproject.toml": "[tool.behave]\n"}, [])
    run_config("toml userdata only", {"proj/pyproject.toml":
               "[tool.behave.userdata]\na = 1\nb = true\nc = 1.5\nd = 'x'\n"}, ["-D", "a=2"])
    # -- ini special cases
    run_config("ini only userdata", {"proj/behave.ini": "[behave.userdata]\na = 1\n"}, [])
    run_config("ini only default", {"proj/behave.ini": "[DEFAULT]\nzz = 1\n[behave.userdata]\na = %(zz)s\n"}, [])
    run_config("ini no behave section", {"proj/behave.ini": "[other]\nstage = x\n"}, [])
    run_config("ini empty", {"proj/behave.ini": ""}, ["--stage", "cmd"])
    run_config("ini case keys", {"proj/behave.ini": "[behave]\nStage = X\nstage = y\n"
                                 "[behave.userdata]\nCamelCase = 1\n"}, [])
    run_config("ini interpolation", {"proj/behave.ini":
               "[behave]\nstage = st\nlang = %(stage)s_x\nlogging_format = %(stage)s\n"}, [])
    run_config("ini append blank", {"proj/behave.ini":
               "[behave]\nformat =\npaths =\n"}, [])
    # -- read_configuration directly
    reset_workdir({"proj/x.ini": INI_FULL, "proj/x.cfg": INI_FULL, "proj/.behaverc": INI_FULL,
                   "proj/x.toml": TOML_FULL, "proj/x.yaml": "a: 1"})
    for fname in ("x.ini", "x.cfg", ".behaverc", "x.toml", "x.yaml", "missing.ini", "noext"):
        path = os.path.join(WORK, "proj", fname)
        for verbose in (False, True):
            with captured() as box:
                res = outcome(cfgmod.read_configuration, path, verbose)
            out("read_configuration %s verbose=%s %s" % (fname, verbose, res.replace(WORK, "<WORK>")))
            show_captured(box)
    # -- config_filenames laziness and order
    reset_workdir(dict(kinds))
    os.chdir(os.path.join(WORK, "proj"))
    gen = cfgmod.config_filenames()
    out("config_filenames type=%s" % type(gen).__name__)
    first = next(gen)
    out("config_filenames first=%s" % first.replace(HOME, "<HOME>"))
    os.remove(os.path.join(WORK, "proj", "tox.ini"))
    out("config_filenames rest=%s" % canon([p.replace(HOME, "<HOME>") for p in gen]))
    os.chdir(HERE)
    # -- kwargs override defaults, and are overridden by file and cmdline
    run_config("kwargs only", {}, [], stage="kw_stage", jobs=8, userdata={"k": "kw"},
               custom_param="custom")
    run_config("kwargs+file", {"proj/behave.ini": ini_of([("stage", "file_stage")],
               "[behave.userdata]\nk = file\n")}, [], stage="kw_stage", userdata={"k": "kw", "z": 1})
    run_config("kwargs+file+cmd", {"proj/behave.ini": ini_of([("stage", "file_stage")])},
               ["--stage", "cmd_stage", "-D", "k=cmd"], stage="kw_stage", userdata={"k": "kw"})
    run_config("kwargs userdata None", {}, [], userdata=None)
    run_config("kwargs userdata UserData", {}, ["-D", "x=1"], userdata=UserData(x="0", y="2"))
    run_config("args as string", {}, "-D 'a b=c d' --stage s -f plain -o out.txt feat/x.feature")
    run_config("args as tuple", {}, ("--stop", "-Dq"))
    out("make_defaults %s" % canon(sorted(Configuration.make_defaults(jobs=2, extra=None).items(), key=str)))
    # -- setup_userdata / update_userdata
    config = Configuration([], load_config=False)
    config.userdata = dict(p1="Alice", p2="Bob")
    config.userdata_defines = [("p2", "Charly"), ("p3", "true")]
    config.setup_userdata()
    out("setup_userdata %s %s" % (type(config.userdata).__name__, canon(config.userdata)))
    config.update_userdata({"p1": "A", "p2": "B", "p4": "D"})
    out("update_userdata %s defines=%s" % (canon(config.userdata), canon(config.userdata_defines)))
    config.userdata_defines = None
    kept = config.userdata
    config.setup_userdata()
    out("setup_userdata again same=%s" % (config.userdata is kept))
    config.update_userdata([("p2", "Z")])
    out("update_userdata nodefs %s" % canon(config.userdata))


def main():
    part_userdefine()
    part_getters()
    part_matrix()
    part_subsets()
    os.chdir(HERE)
    if os.path.isdir(WORK):
        shutil.rmtree(WORK)
    out("#### DONE")


if __name__ == "__main__":
    main()
