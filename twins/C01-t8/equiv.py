# -*- coding: UTF-8 -*-
"""
Self-contained equivalence driver: sends real parsed features through the
real behave ModelRunner and prints a canonical transcript of everything that
is observable (verdict, statuses, formatter/reporter/hook call logs, stdout).
"""
from __future__ import absolute_import, print_function, unicode_literals
import sys
sys.path.insert(0, "/tmp/wtU/C01")

import io
import itertools
import re
import contextlib

import behave
assert behave.__file__.startswith("/tmp/wtU/C01/"), behave.__file__
from behave.configuration import Configuration
from behave.exception import StepNotImplementedError, PendingStepError
from behave.model_core import Status
from behave.parser import parse_feature
from behave.runner import ModelRunner, Context
from behave.step_registry import StepRegistry


# ---------------------------------------------------------------------------
# TRANSCRIPT SUPPORT
# ---------------------------------------------------------------------------
_LINE_NO = re.compile(r"line \d+")
_TOOK = re.compile(r"Took \d+min \d+\.\d+s|Took \d+m\d+\.\d+s|Took \d+\.\d+s")
_ADDR = re.compile(r"0x[0-9a-fA-F]+")
_DURATION = re.compile(r"\d+\.\d+s\b")


def normalize(text):
    text = _LINE_NO.sub("line N", text)
    text = _TOOK.sub("Took T", text)
    text = _ADDR.sub("0xADDR", text)
    text = _DURATION.sub("D.DDDs", text)
    return text


OUT = []


def emit(text=""):
    OUT.append(normalize(text))


# ---------------------------------------------------------------------------
# RECORDING FORMATTER / REPORTER
# ---------------------------------------------------------------------------
class RecFormatter(object):
    """Duck-typed formatter: records each call (with element status)."""
    def __init__(self, log, name="F1", with_rule=True):
        self.log = log
        self.name = name
        if with_rule:
            self.rule = self._rule
            self.rule_finished = self._rule_finished

    def _rec(self, text):
        self.log.append("%s.%s" % (self.name, text))

    def uri(self, uri):
        self._rec("uri(%s)" % uri)

    def feature(self, feature):
        self._rec("feature(%s)" % feature.name)

    def _rule(self, rule):
        self._rec("rule(%s)" % rule.name)

    def _rule_finished(self):
        self._rec("rule_finished()")

    def background(self, background):
        self._rec("background(%s)" % background.name)

    def scenario(self, scenario):
        self._rec("scenario(%s)" % scenario.name)

    def step(self, step):
        self._rec("step(%s)" % step.name)

    def match(self, match):
        location = getattr(match, "location", None)
        func = getattr(match, "func", None)
        self._rec("match(%s func=%s)" % (match.__class__.__name__,
                                         getattr(func, "__name__", None)))

    def result(self, step):
        self._rec("result(%s -> %s)" % (step.name, step.status.name))

    def eof(self):
        self._rec("eof()")

    def close(self):
        self._rec("close()")


class RecReporter(object):
    def __init__(self, log):
        self.log = log

    def feature(self, feature):
        self.log.append("R.feature(%s -> %s)" % (feature.name,
                                                 feature.status.name))

    def end(self):
        self.log.append("R.end()")


# ---------------------------------------------------------------------------
# STEP DEFINITIONS
# ---------------------------------------------------------------------------
def make_step_registry(log):
    registry = StepRegistry()

    def step_passes(context):
        log.append("STEP passes")

    def step_passes_named(context, name):
        log.append("STEP passes %s" % name)

    def step_fails(context):
        log.append("STEP fails")
        assert False, "XFAIL-STEP"

    def step_fails_nomsg(context):
        log.append("STEP fails-nomsg")
        raise AssertionError()

    def step_raises(context):
        log.append("STEP raises")
        raise RuntimeError("OOPS-STEP")

    def step_pending(context):
        log.append("STEP pending")
        raise StepNotImplementedError("NOT-YET")

    def step_pending2(context):
        log.append("STEP pending2")
        raise PendingStepError()

    def step_skips(context):
        log.append("STEP skips scenario")
        context.scenario.skip("SKIP-REASON")

    def step_interrupts(context):
        log.append("STEP interrupts")
        raise KeyboardInterrupt()

    def step_bad_cleanup(context):
        log.append("STEP adds bad cleanup")

        def bad_cleanup():
            log.append("CLEANUP bad")
            raise RuntimeError("OOPS-CLEANUP")
        context.add_cleanup(bad_cleanup)

    def step_good_cleanup(context):
        log.append("STEP adds good cleanup")
        context.add_cleanup(lambda: log.append("CLEANUP good"))

    def step_prints(context):
        print("PRINTED-BY-STEP")
        log.append("STEP prints")

    def step_substeps_fail(context):
        log.append("STEP substeps")
        context.execute_steps("Given a step passes\nWhen a step fails")

    def step_substeps_undefined(context):
        log.append("STEP substeps-undefined")
        context.execute_steps("Given a step is unknown to everybody")

    def step_aborts(context):
        log.append("STEP aborts")
        context.abort()

    add = registry.add_step_definition
    add("step", "a step passes", step_passes)
    add("step", 'a step passes with "{name}"', step_passes_named)
    add("step", "a step fails", step_fails)
    add("step", "a step fails without message", step_fails_nomsg)
    add("step", "a step raises", step_raises)
    add("step", "a step is pending", step_pending)
    add("step", "a step is pending without message", step_pending2)
    add("step", "a step skips the scenario", step_skips)
    add("step", "a step interrupts", step_interrupts)
    add("step", "a step adds a bad cleanup", step_bad_cleanup)
    add("step", "a step adds a good cleanup", step_good_cleanup)
    add("step", "a step prints", step_prints)
    add("step", "a step runs failing substeps", step_substeps_fail)
    add("step", "a step runs undefined substeps", step_substeps_undefined)
    add("step", "a step aborts the run", step_aborts)
    return registry


# ---------------------------------------------------------------------------
# HOOKS
# ---------------------------------------------------------------------------
HOOK_NAMES = [
    "before_all", "after_all", "before_feature", "after_feature",
    "before_rule", "after_rule", "before_scenario", "after_scenario",
    "before_step", "after_step", "before_tag", "after_tag",
]


def make_hooks(log, bad_hook=None, bad_kind="error", extra=None):
    """Build a hooks dict that logs every hook call.
    bad_hook: name of the single hook that raises (on its first call only,
              unless it ends with '*').
    """
    hooks = {}
    state = {"raised": False}

    def make_hook(name):
        def hook(context, *args):
            arg = ""
            if args:
                arg = getattr(args[0], "name", args[0])
            status = ""
            if args and hasattr(args[0], "status"):
                status = " status=%s" % args[0].status.name
            log.append("HOOK %s(%s)%s" % (name, arg, status))
            if extra:
                extra(name, context, args, log)
            if bad_hook and bad_hook.rstrip("*") == name:
                always = bad_hook.endswith("*")
                if always or not state["raised"]:
                    state["raised"] = True
                    if bad_kind == "error":
                        raise RuntimeError("OOPS-HOOK %s" % name)
                    elif bad_kind == "assert":
                        assert False, "XFAIL-HOOK %s" % name
                    elif bad_kind == "interrupt":
                        raise KeyboardInterrupt()
                    elif bad_kind == "cleanup":
                        def bad_cleanup():
                            log.append("CLEANUP bad (from %s)" % name)
                            raise RuntimeError("OOPS-CLEANUP %s" % name)
                        context.add_cleanup(bad_cleanup)
        hook.__name__ = str(name)
        return hook

    for name in HOOK_NAMES:
        hooks[name] = make_hook(name)
    return hooks


# ---------------------------------------------------------------------------
# FEATURE TEXTS
# ---------------------------------------------------------------------------
OUTCOME_STEPS = {
    "pass": "a step passes",
    "fail": "a step fails",
    "fail0": "a step fails without message",
    "raise": "a step raises",
    "pending": "a step is pending",
    "pending0": "a step is pending without message",
    "undefined": "a step is not defined anywhere",
    "skip": "a step skips the scenario",
    "interrupt": "a step interrupts",
    "badcleanup": "a step adds a bad cleanup",
    "goodcleanup": "a step adds a good cleanup",
    "prints": "a step prints",
    "subfail": "a step runs failing substeps",
    "subundef": "a step runs undefined substeps",
    "abort": "a step aborts the run",
}


def scenario_text(name, outcomes, tags="", indent="  "):
    lines = []
    if tags:
        lines.append("%s%s" % (indent, tags))
    lines.append("%sScenario: %s" % (indent, name))
    keywords = ["Given", "When", "Then", "And", "But"]
    for index, outcome in enumerate(outcomes):
        keyword = keywords[min(index, len(keywords) - 1)]
        lines.append("%s  %s %s" % (indent, keyword, OUTCOME_STEPS[outcome]))
    return "\n".join(lines) + "\n"


def simple_feature(name, scenarios, tags="", background=None):
    """scenarios: list of (name, outcomes, tags)"""
    text = ""
    if tags:
        text += tags + "\n"
    text += "Feature: %s\n" % name
    if background:
        text += "  Background: B\n"
        for outcome in background:
            text += "    Given %s\n" % OUTCOME_STEPS[outcome]
    for sname, outcomes, stags in scenarios:
        text += "\n" + scenario_text(sname, outcomes, stags)
    return text


FEATURE_COMPLEX = '''
@f1
Feature: Complex
  Background: FB
    Given a step passes

  @s1 @smoke
  Scenario: C1 passes
    When a step passes
    Then a step adds a good cleanup

  @s2
  Scenario Outline: C2 outline <name>
    Given a step passes with "<name>"
    When <action>

    @ex1
    Examples: E1
      | name  | action        |
      | alice | a step passes |
      | bob   | %(bob)s |

    @ex2 @smoke
    Examples: E2
      | name  | action        |
      | carol | %(carol)s |
      | dave  | a step passes |

  @r1
  Rule: R1
    Background: RB
      Given a step prints

    @s3 @smoke
    Scenario: C3 in rule
      When %(c3)s
      Then a step passes

    @s4 @wip
    Scenario: C4 in rule wip
      When %(c4)s
      Then a step passes

  Rule: R2 empty

  @r3
  Rule: R3
    Scenario Outline: C5 outline in rule <n>
      Given a step passes with "<n>"
      Then %(c5)s
      Examples:
        | n |
        | 1 |
        | 2 |

    Scenario: C6 last
      Given %(c6)s
'''


def complex_feature(**kwargs):
    params = dict(bob="a step passes", carol="a step passes",
                  c3="a step passes", c4="a step passes",
                  c5="a step passes", c6="a step passes")
    for key, outcome in kwargs.items():
        params[key] = OUTCOME_STEPS[outcome]
    return FEATURE_COMPLEX % params


FEATURE_EMPTY = "Feature: Empty\n"
FEATURE_NOSTEPS = "Feature: NoSteps\n  Scenario: N1\n  Scenario: N2\n"
FEATURE_OUTLINE_NOEXAMPLES = '''
Feature: OutlineNoExamples
  Scenario Outline: O <x>
    Given a step passes with "<x>"
'''


# ---------------------------------------------------------------------------
# RUN ONE CASE
# ---------------------------------------------------------------------------
class StdoutTee(object):
    pass


@contextlib.contextmanager
def captured_stdout():
    old_stdout, old_stderr = sys.stdout, sys.stderr
    stream = io.StringIO()

    class Writer(object):
        encoding = "UTF-8"

        def write(self, text):
            if isinstance(text, bytes):
                text = text.decode("UTF-8")
            stream.write(text)

        def flush(self):
            pass

        def isatty(self):
            return False
    sys.stdout = Writer()
    sys.stderr = sys.stdout
    try:
        yield stream
    finally:
        sys.stdout, sys.stderr = old_stdout, old_stderr


def describe_model(features):
    lines = []

    def describe_scenario(scenario, indent):
        lines.append("%sscenario %r: %s hook_failed=%s should_skip=%s" % (
            indent, scenario.name, scenario.status.name, scenario.hook_failed,
            scenario.should_skip))
        if scenario.error_message:
            lines.append("%s  error_message: %r" % (indent,
                                                    scenario.error_message))
        for step in scenario.all_steps:
            lines.append("%s  step %r: %s hook_failed=%s" % (
                indent, step.name, step.status.name, step.hook_failed))
            if step.error_message:
                lines.append("%s    error_message: %r" % (
                    indent, step.error_message))
            if step.exception is not None:
                lines.append("%s    exception: %s: %s" % (
                    indent, step.exception.__class__.__name__, step.exception))

    def describe_container(container, indent):
        lines.append("%s%s %r: %s hook_failed=%s should_skip=%s" % (
            indent, container.type, container.name, container.status.name,
            container.hook_failed, container.should_skip))
        if container.error_message:
            lines.append("%s  error_message: %r" % (indent,
                                                    container.error_message))
        for run_item in container.run_items:
            item_type = run_item.__class__.__name__
            if item_type == "Rule":
                describe_container(run_item, indent + "  ")
            elif item_type == "ScenarioOutline":
                lines.append("%s  outline %r: %s" % (indent, run_item.name,
                                                     run_item.status.name))
                for scenario in run_item._scenarios:
                    describe_scenario(scenario, indent + "    ")
            else:
                describe_scenario(run_item, indent + "  ")

    for feature in features:
        describe_container(feature, "  ")
    return lines


def run_case(title, feature_texts, args=(), bad_hook=None, bad_kind="error",
             hooks=True, num_formatters=1, hook_extra=None, run_twice=False,
             mutate_config=None, mutate_runner=None, use_run=False):
    emit("=" * 78)
    emit("CASE: %s" % title)
    emit("  args=%s bad_hook=%s/%s hooks=%s formatters=%d" % (
        list(args), bad_hook, bad_kind, hooks, num_formatters))
    log = []
    outcome = None
    with captured_stdout() as stream:
        try:
            config = Configuration(command_args=list(args), load_config=False)
            config.base_dir = "/tmp/wtU/C01/_twins"
            config.reporters.append(RecReporter(log))
            if mutate_config:
                mutate_config(config)
            features = [
                parse_feature(text, filename="features/f%d.feature" % index)
                for index, text in enumerate(feature_texts, 1)]
            registry = make_step_registry(log)
            runner = ModelRunner(config, features=features,
                                 step_registry=registry)
            runner.formatters = [
                RecFormatter(log, name="F%d" % (index + 1),
                             with_rule=(index % 2 == 0))
                for index in range(num_formatters)]
            if hooks:
                runner.hooks = make_hooks(log, bad_hook, bad_kind,
                                          extra=hook_extra)
            if mutate_runner:
                mutate_runner(runner, log)
            rounds = 2 if run_twice else 1
            for round_no in range(rounds):
                try:
                    if use_run:
                        result = runner.run()
                    else:
                        result = runner.run_model()
                    outcome = "result=%r" % (result,)
                except BaseException as e:  # pylint: disable=broad-except
                    outcome = "raised %s: %s" % (e.__class__.__name__, e)
                log.append("ROUND %d: %s" % (round_no, outcome))
        except BaseException as e:  # pylint: disable=broad-except
            outcome = "setup raised %s: %s" % (e.__class__.__name__, e)
            runner = None
            features = []
    emit("  OUTCOME: %s" % outcome)
    if runner is not None:
        emit("  aborted=%r hook_failures=%r undefined_steps=%r" % (
            runner.aborted, runner.hook_failures,
            [step.name for step in runner.undefined_steps]))
        context = runner.context
        root = context._root if context is not None else {}
        emit("  context.failed=%r context.aborted=%r cleanup_errors=%r "
             "stack_depth=%d active_outline=%r" % (
                 root.get("failed"), root.get("aborted"),
                 root.get("cleanup_errors"),
                 len(context._stack) if context is not None else -1,
                 root.get("active_outline")))
        emit("  runner.feature=%r" % (getattr(runner.feature, "name", None),))
    emit("  MODEL:")
    for line in describe_model(features):
        emit("  " + line)
    emit("  CALL-LOG:")
    for entry in log:
        emit("    " + entry)
    emit("  STDOUT:")
    for line in stream.getvalue().splitlines():
        emit("    | " + line)


def flush_transcript():
    text = "\n".join(OUT) + "\n"
    if sys.version_info[0] == 2:
        text = text.encode("UTF-8")
    sys.stdout.write(text)


# ---------------------------------------------------------------------------
# CASES (shared by all twins): real features through the real runner
# ---------------------------------------------------------------------------
OPTION_SETS = [
    (),
    ("--stop",),
    ("--dry-run",),
    ("--wip",),
    ("--tags=@smoke",),
    ("--tags=not @smoke", "--stop"),
    ("--tags=@nothing_has_this_tag",),
    ("--show-skipped", "--tags=@s3 or @ex1"),
    ("--name=C3", ),
    ("--no-capture", "--verbose"),
    ("--junit", "--junit-directory=/tmp/wtU/C01/_twins/_junit_out"),
]

STEP_OUTCOMES = ["pass", "fail", "fail0", "raise", "pending", "pending0",
                 "undefined", "skip", "interrupt", "badcleanup", "subfail",
                 "subundef", "abort"]


def common_cases():
    # -- GROUP 1: one scenario, each outcome at each of 3 positions.
    for outcome in STEP_OUTCOMES:
        for position in range(3):
            outcomes = ["pass", "pass", "pass"]
            outcomes[position] = outcome
            text = simple_feature("One", [("S", outcomes, "")])
            for args in [(), ("--dry-run",)]:
                run_case("G1 %s@%d" % (outcome, position), [text], args=args)

    # -- GROUP 2: three scenarios in one feature + a second feature;
    #    the outcome is placed in the middle scenario; all option sets.
    for outcome in STEP_OUTCOMES:
        first = simple_feature("First", [
            ("A", ["pass"], "@smoke"),
            ("B", ["pass", outcome, "pass"], "@wip @smoke"),
            ("C", ["pass", "undefined"], "@wip"),
        ], tags="@first", background=["goodcleanup"])
        second = simple_feature("Second", [("D", ["pass", "prints"], "@smoke @wip")])
        for args in OPTION_SETS[:7]:
            run_case("G2 %s" % outcome, [first, second], args=args)

    # -- GROUP 3: complex tree (rules, backgrounds, outlines), one bad cell.
    cells = ["bob", "carol", "c3", "c4", "c5", "c6"]
    run_index = 0
    for cell in [None] + cells:
        for outcome in ["fail", "raise", "pending", "undefined", "skip",
                        "interrupt", "badcleanup"]:
            kwargs = {}
            if cell:
                kwargs[cell] = outcome
            elif outcome != "fail":
                continue
            text = complex_feature(**kwargs)
            for args in OPTION_SETS:
                run_index += 1
                run_case("G3 %s=%s" % (cell, outcome),
                         [text, FEATURE_EMPTY, FEATURE_NOSTEPS],
                         args=args, num_formatters=1 + (run_index % 2))

    # -- GROUP 4: a single raising hook / cleanup, everything else passes.
    text = complex_feature()
    text_bad = complex_feature(c3="fail")
    for bad_hook in HOOK_NAMES + ["before_tag*", "after_scenario*",
                                  "before_step*"]:
        for bad_kind in ["error", "assert", "cleanup"]:
            for args in [(), ("--stop",), ("--dry-run",),
                         ("--tags=@smoke", "--verbose")]:
                run_case("G4 hook all-pass", [text, FEATURE_NOSTEPS],
                         args=args, bad_hook=bad_hook, bad_kind=bad_kind)
            run_case("G4 hook with-failure", [text_bad, FEATURE_NOSTEPS],
                     bad_hook=bad_hook, bad_kind=bad_kind)
    for bad_hook in HOOK_NAMES:
        run_case("G4 hook interrupt", [text, FEATURE_NOSTEPS],
                 bad_hook=bad_hook, bad_kind="interrupt")
        run_case("G4 hook interrupt --stop", [text, FEATURE_NOSTEPS],
                 args=("--stop",), bad_hook=bad_hook, bad_kind="interrupt")

    # -- GROUP 5: boundary feature lists and special shapes.
    run_case("G5 no features", [])
    run_case("G5 no features, no hooks", [], hooks=False)
    run_case("G5 empty feature", [FEATURE_EMPTY])
    run_case("G5 empty feature show-skipped", [FEATURE_EMPTY],
             args=("--show-skipped", "--tags=@x"))
    run_case("G5 scenarios without steps", [FEATURE_NOSTEPS])
    run_case("G5 outline without examples", [FEATURE_OUTLINE_NOEXAMPLES])
    run_case("G5 no hooks", [complex_feature(c5="fail")], hooks=False)
    run_case("G5 via run()", [complex_feature(c5="undefined")], use_run=True)
    run_case("G5 run twice (undefined only new ones count)",
             [simple_feature("U", [("S", ["pass", "undefined"], "")])],
             run_twice=True)
    run_case("G5 run twice all pass", [complex_feature()], run_twice=True)
    run_case("G5 run twice after abort",
             [simple_feature("U", [("S", ["interrupt"], ""),
                                   ("T", ["pass"], "")])],
             run_twice=True)

    # -- hooks that skip elements or abort the run
    def skipping_hook(name, context, args, log):
        if name == "before_scenario" and "C3" in args[0].name:
            args[0].skip("by hook")
        if name == "before_feature" and args[0].name == "NoSteps":
            args[0].skip("feature by hook")
        if name == "before_rule" and args[0].name == "R3":
            args[0].mark_skipped()
    run_case("G5 hooks skip elements",
             [complex_feature(c3="fail", c5="fail"), FEATURE_NOSTEPS],
             hook_extra=skipping_hook)

    def aborting_hook(name, context, args, log):
        if name == "after_scenario" and "C3" in args[0].name:
            context.abort()
    run_case("G5 hook aborts run", [complex_feature(), FEATURE_NOSTEPS],
             hook_extra=aborting_hook)

    def feature_interrupt(runner, log):
        original_run = runner.features[0].run

        def interrupted_run(the_runner):
            log.append("FEATURE.run interrupted")
            raise KeyboardInterrupt()
        runner.features[0].run = interrupted_run
    run_case("G5 KeyboardInterrupt escapes feature.run",
             [FEATURE_EMPTY, FEATURE_NOSTEPS, complex_feature()],
             mutate_runner=feature_interrupt)

    def abort_before_run(runner, log):
        runner.context = Context(runner)
        runner.context.abort()
    run_case("G5 aborted before run_model",
             [complex_feature(), FEATURE_NOSTEPS],
             mutate_runner=abort_before_run)

    def features_as_generator(runner, log):
        runner.features = iter(list(runner.features))
    run_case("G5 features given as iterator, --stop",
             [simple_feature("X1", [("S", ["fail"], "")]),
              simple_feature("X2", [("S", ["pass"], "")]),
              simple_feature("X3", [("S", ["pass"], "")])],
             args=("--stop",), mutate_runner=features_as_generator)

    def continue_after_failed(config):
        from behave.model import Scenario
        Scenario.continue_after_failed_step = True
    try:
        for outcome in ["fail", "raise", "undefined", "pending", "skip"]:
            run_case("G5 continue_after_failed_step %s" % outcome,
                     [simple_feature("CAF", [("S", ["pass", outcome, "pass",
                                                    "undefined", "fail"], "")])],
                     mutate_config=continue_after_failed)
    finally:
        from behave.model import Scenario
        Scenario.continue_after_failed_step = False


# ---------------------------------------------------------------------------
# SPECIFIC CASES FOR C01-t8: ScenarioContainer.run() / ScenarioOutline.run()
# ---------------------------------------------------------------------------
def log_return_values(runner, log):
    """Wrap run() of every feature, rule, outline, scenario: log the result."""
    def wrap(item):
        original_run = item.run

        def logged_run(the_runner):
            try:
                result = original_run(the_runner)
            except BaseException as e:  # pylint: disable=broad-except
                log.append("RET %s %r raised %s" % (
                    item.__class__.__name__, item.name, e.__class__.__name__))
                raise
            log.append("RET %s %r -> %r" % (item.__class__.__name__,
                                            item.name, result))
            return result
        item.run = logged_run

    def visit(container):
        wrap(container)
        for run_item in container.run_items:
            kind = run_item.__class__.__name__
            if kind == "Rule":
                visit(run_item)
            elif kind == "ScenarioOutline":
                wrap(run_item)
                for scenario in run_item.scenarios:
                    wrap(scenario)
            else:
                wrap(run_item)
    for feature in runner.features:
        visit(feature)


FEATURE_T8 = '''
@ft
Feature: T8
  Scenario: A
    Given %(a)s

  Scenario Outline: O <n>
    Given a step passes with "<n>"
    Then <action>
    Examples: X
      | n | action |
      | 1 | %(o1)s |
      | 2 | %(o2)s |
      | 3 | %(o3)s |

  @rt
  Rule: R
    Scenario: B
      Given %(b)s

    Scenario Outline: P <n>
      Given <action>
      Examples:
        | n | action |
        | 1 | %(p1)s |
        | 2 | %(p2)s |

    Scenario: C
      Given %(c)s

  Rule: Q
    Scenario: D
      Given %(d)s
'''
T8_CELLS = ["a", "o1", "o2", "o3", "b", "p1", "p2", "c", "d"]


def t8_feature(**kwargs):
    params = dict((cell, OUTCOME_STEPS["pass"]) for cell in T8_CELLS)
    for key, outcome in kwargs.items():
        params[key] = OUTCOME_STEPS[outcome]
    return FEATURE_T8 % params


def specific_cases():
    # -- ONE or TWO bad cells anywhere in the tree; with/without --stop.
    bad_outcomes = ["fail", "raise", "undefined", "pending", "interrupt",
                    "badcleanup", "skip", "abort"]
    for cell in T8_CELLS:
        for outcome in bad_outcomes:
            for args in [(), ("--stop",), ("--dry-run",)]:
                run_case("T8 %s=%s" % (cell, outcome),
                         [t8_feature(**{cell: outcome}), FEATURE_NOSTEPS],
                         args=args, mutate_runner=log_return_values)
    for cell1, cell2 in itertools.combinations(T8_CELLS, 2):
        for outcome in ["fail", "undefined"]:
            run_case("T8 %s,%s=%s" % (cell1, cell2, outcome),
                     [t8_feature(**{cell1: outcome, cell2: outcome})],
                     mutate_runner=log_return_values, hooks=False)
    run_case("T8 all pass", [t8_feature()], mutate_runner=log_return_values)

    # -- HOOK errors / cleanup errors on container level (all steps pass).
    for bad_hook in ["before_feature", "after_feature", "before_rule",
                     "after_rule", "before_tag", "after_tag", "before_tag*",
                     "after_tag*", "before_rule*", "after_rule*",
                     "before_scenario", "after_scenario*"]:
        for bad_kind in ["error", "assert", "cleanup", "interrupt"]:
            for args in [(), ("--stop",), ("--tags=@rt",), ("--tags=@nope",)]:
                run_case("T8 container hook", [t8_feature(), FEATURE_EMPTY],
                         args=args, bad_hook=bad_hook, bad_kind=bad_kind,
                         mutate_runner=log_return_values)
            run_case("T8 container hook + failing step",
                     [t8_feature(p1="fail"), FEATURE_EMPTY],
                     bad_hook=bad_hook, bad_kind=bad_kind,
                     mutate_runner=log_return_values)

    # -- NAME selection and tag selection skip items.
    for args in [("--name=B",), ("--name=P", "--stop"), ("--name=nothing",),
                 ("--name=O 2",), ("--tags=@rt", "--name=C")]:
        run_case("T8 select by name",
                 [t8_feature(b="fail", p2="fail", o2="fail")], args=args,
                 mutate_runner=log_return_values)

    # -- HOOK resets hook_failed / skips entity.
    def reset_hook_failed(name, context, args, log):
        if name == "after_feature":
            args[0].hook_failed = False
        if name == "after_rule" and args[0].name == "R":
            args[0].hook_failed = False
    for bad_hook in ["before_feature", "before_rule", "before_tag"]:
        run_case("T8 hook_failed reset by later hook", [t8_feature()],
                 bad_hook=bad_hook, hook_extra=reset_hook_failed,
                 mutate_runner=log_return_values)

    def skip_in_before(name, context, args, log):
        if name == "before_rule" and args[0].name == "R":
            args[0].skip("rule skipped in hook")
        if name == "before_feature" and args[0].name == "NoSteps":
            args[0].mark_skipped()
    run_case("T8 entity skipped in before-hook",
             [t8_feature(b="fail", d="fail"), FEATURE_NOSTEPS],
             hook_extra=skip_in_before, mutate_runner=log_return_values)

    # -- OUTLINE/CONTAINER run() called directly (fresh context layer).
    emit("=" * 78)
    emit("DIRECT CONTAINER RUNS")
    for cell in ["o1", "o2", "o3", "p1", "b", "d"]:
        for outcome in ["fail", "undefined", "interrupt"]:
            for args in [[], ["--stop"]]:
                log = []
                with captured_stdout() as stream:
                    config = Configuration(command_args=args, load_config=False)
                    config.base_dir = "/tmp/wtU/C01/_twins"
                    feature = parse_feature(t8_feature(**{cell: outcome}),
                                            filename="features/t8.feature")
                    runner = ModelRunner(config, features=[feature],
                                         step_registry=make_step_registry(log))
                    runner.formatters = [RecFormatter(log)]
                    runner.context = Context(runner)
                    runner.context.feature = feature
                    runner.setup_capture()
                    results = []
                    for run_item in feature.run_items:
                        try:
                            result = run_item.run(runner)
                            results.append("%s %r -> %r (%s)" % (
                                run_item.__class__.__name__, run_item.name,
                                result, type(result).__name__))
                        except BaseException as e:  # pylint: disable=broad-except
                            results.append("%s %r raised %s" % (
                                run_item.__class__.__name__, run_item.name,
                                e.__class__.__name__))
                emit("  %s=%s args=%s aborted=%r" % (cell, outcome, args,
                                                     runner.aborted))
                for text in results:
                    emit("    " + text)
                emit("    statuses: %s" % [item.status.name
                                           for item in feature.run_items])
                emit("    active_outline=%r stack=%d" % (
                    runner.context._root.get("active_outline"),
                    len(runner.context._stack)))


specific_cases()
common_cases()
flush_transcript()
