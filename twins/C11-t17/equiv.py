# -*- coding: UTF-8 -*-
"""Equivalence transcript for C11-t17 (ParseMatcher.check_match)."""
from __future__ import print_function
import sys
sys.path.insert(0, "/tmp/wtW/C11")

import contextlib
import parse
from behave.matchers import (
    ParseMatcher, CFParseMatcher, Match, MatchWithError, StepParseError,
    get_step_matcher_factory)
from behave.step_registry import StepRegistry, AmbiguousStep
from behave import matchers as _matchers


class FakeContext(object):
    def __init__(self):
        self.log = []

    @contextlib.contextmanager
    def use_with_user_mode(self):
        self.log.append("enter-user-mode")
        try:
            yield
        finally:
            self.log.append("exit-user-mode")


def make_recorder(label):
    def step_func(context, *args, **kwargs):
        context.log.append(("call", label, args, sorted(kwargs.items())))
    step_func.__name__ = "step_%s" % label
    return step_func


@parse.with_pattern(r"\d+")
def parse_number(text):
    return int(text)


@parse.with_pattern(r"red|green|blue")
def parse_color(text):
    return text.upper()


@parse.with_pattern(r"[A-Z]+")
def parse_fussy(text):
    if text == "BAD":
        raise ValueError("fussy does not like %s" % text)
    return text.lower()


@parse.with_pattern(r"[a-z]+")
def parse_typeerror(text):
    raise TypeError("always broken: %s" % text)


def describe_args(arguments):
    return [(a.start, a.end, a.original, repr(a.value), a.name)
            for a in arguments]


def show_match(matcher, text):
    try:
        result = matcher.match(text)
    except Exception as e:  # pylint: disable=broad-except
        print("    match(%r) RAISED %s: %s" % (text, e.__class__.__name__, e))
        return
    if result is None:
        print("    match(%r) -> None" % text)
        return
    kind = result.__class__.__name__
    if isinstance(result, MatchWithError):
        err = result.stored_error
        print("    match(%r) -> %s error=%s: %s" % (
            text, kind, err.__class__.__name__, err))
        try:
            result.run(FakeContext())
        except StepParseError as e:
            print("      run RAISED StepParseError: %s" % e)
        return
    print("    match(%r) -> %s args=%r" % (
        text, kind, describe_args(result.arguments)))
    for arg in result.arguments:
        assert text[arg.start:arg.end] == arg.original
    context = FakeContext()
    result.run(context)
    print("      run log=%r" % context.log)
    print("      matches=%r" % matcher.matches(text))


PATTERNS = [
    "a plain step",
    "I have {count:d} apples",
    "I have {count:d} apples and {other:d} pears",
    "{first} then {second}",
    "{second} then {first}",
    "word {:w} and {:w}",
    "mix {:d} with {name} and {:w}",
    "mix {name:w} first and {:d} later {last}",
    "price is {x:f}",
    "price is {x:f} for {n:d} items at {:w}",
    "amount {amount:Number} of {color:Color}",
    "{color:Color}",
    "{:Number}{:Number}",
    "fussy {value:Fussy} end",
    "broken {value:Broken} end",
    "{}",
    "{} {}",
    "a {b} c {d} e {f} g",
    u"unicode café {name} über {n:d}",
    "quoted \"{text}\" here",
    "{x:d}{y:w}",
]

CF_PATTERNS = [
    "numbers {values:Number+} end",
    "numbers {values:Number*} end",
    "maybe {value:Number?} end",
    "colors {colors:Color+} and {n:Number}",
    "{n:Number?}",
]


def derive_texts(pattern):
    samples = {
        "{count:d}": "12", "{other:d}": "-7", "{first}": "alpha beta",
        "{second}": "gamma", "{:w}": "word_1", "{:d}": "42", "{name}": "Alice B",
        "{name:w}": "Bob", "{last}": "the end", "{x:f}": "3.25", "{n:d}": "5",
        "{amount:Number}": "17", "{color:Color}": "green", "{:Number}": "3",
        "{value:Fussy}": "OK", "{value:Broken}": "abc", "{}": "any thing",
        "{b}": "B", "{d}": "D D", "{f}": "", "{text}": "some text",
        "{x:d}": "99", "{y:w}": "abc",
        "{values:Number+}": "1, 2, 3", "{values:Number*}": "4, 5",
        "{value:Number?}": "6", "{colors:Color+}": "red, blue",
        "{n:Number}": "8", "{n:Number?}": "9",
    }
    exact = pattern
    for field, value in sorted(samples.items(), key=lambda kv: -len(kv[0])):
        exact = exact.replace(field, value)
    texts = [exact, exact.upper(), exact.title(), "PREFIX " + exact,
             exact + " SUFFIX", " " + exact, exact + " ",
             exact.replace("a", "o", 1), "", pattern]
    if "Fussy" in pattern:
        texts.append("fussy BAD end")
    if "Number*" in pattern:
        texts.append("numbers  end")
    if "Number?" in pattern:
        texts.append("maybe  end")
        texts.append("")
    seen = []
    for text in texts:
        if text not in seen:
            seen.append(text)
    return seen


def exercise(matcher_class, patterns):
    print("== %s" % matcher_class.__name__)
    for index, pattern in enumerate(patterns):
        func = make_recorder("%s%d" % (matcher_class.NAME, index))
        try:
            matcher = matcher_class(func, pattern, "given")
        except Exception as e:  # pylint: disable=broad-except
            print("  pattern %r CONSTRUCT RAISED %s: %s" % (
                pattern, e.__class__.__name__, e))
            continue
        print("  pattern %r regex=%r" % (pattern, matcher.regex_pattern))
        for text in derive_texts(pattern):
            show_match(matcher, text)


def exercise_registry():
    print("== registry dispatch with parse matchers")
    factory = get_step_matcher_factory()
    registry = StepRegistry()
    history = [
        ("parse", "given", "I have {count:d} apples"),
        ("parse", "step", "I have {what}"),
        ("parse", "given", "I have {count:d} apples"),
        ("parse", "given", "I have {n:d} {thing}"),
        ("cfparse", "when", "numbers {values:Number+} end"),
        ("parse", "when", "numbers {rest}"),
        ("parse", "then", "{x:f} is {name:w}"),
        ("parse", "step", "{x:f} is {name}"),
        ("parse", "Then", "1.5 is ok"),
    ]
    for index, (matcher_name, step_type, pattern) in enumerate(history):
        factory.use_step_matcher(matcher_name)
        func = make_recorder("r%d" % index)
        try:
            registry.add_step_definition(step_type, pattern, func)
            print("  add[%d] %s %s %r OK" % (index, matcher_name, step_type, pattern))
        except AmbiguousStep as e:
            print("  add[%d] %s %s %r AmbiguousStep: %s" % (
                index, matcher_name, step_type, pattern,
                str(e).replace("/tmp/wtW/C11/", "")))
    factory.use_default_step_matcher()
    for step_type in ("given", "when", "then", "step"):
        print("  steps[%s]=%r" % (step_type, registry.steps[step_type]))

    class FakeStep(object):
        def __init__(self, step_type, name):
            self.step_type = step_type
            self.name = name

    for step_type in ("given", "when", "then", "step"):
        for text in ["I have 3 apples", "I have 3 pears", "I have cheese",
                     "numbers 1, 2 end", "numbers x end", "1.5 is ok",
                     "2.5 is not ok", "i have 3 apples", "nothing"]:
            result = registry.find_match(FakeStep(step_type, text))
            if result is None:
                print("  find_match(%s, %r) -> None" % (step_type, text))
                continue
            context = FakeContext()
            result.run(context)
            print("  find_match(%s, %r) -> %s args=%r log=%r" % (
                step_type, text, result.func.__name__,
                describe_args(result.arguments), context.log))


def main():
    factory = get_step_matcher_factory()
    factory.reset()
    for matcher_class in (ParseMatcher, CFParseMatcher):
        matcher_class.register_type(Number=parse_number, Color=parse_color,
                                    Fussy=parse_fussy, Broken=parse_typeerror)
    exercise(ParseMatcher, PATTERNS)
    exercise(CFParseMatcher, PATTERNS + CF_PATTERNS)
    # -- Canned parse.Result with unsorted spans and equal starts (stability).
    print("== canned results")
    matcher = ParseMatcher(make_recorder("canned"), "foo")

    class CannedParser(object):
        def __init__(self, result):
            self.result = result

        def parse(self, text):
            return self.result

    text = "0123456789abcdefghijklmnopqrstuvwxyz"
    canned = [
        parse.Result([1, 2, 3], {"foo": "bar", "baz": -45.3},
                     {0: (13, 14), 1: (16, 17), 2: (22, 23),
                      "foo": (32, 35), "baz": (3, 9)}),
        parse.Result(["x", "y"], {"n": 1, "m": 2},
                     {0: (5, 6), 1: (5, 8), "n": (5, 7), "m": (0, 1)}),
        parse.Result([], {}, {}),
        parse.Result(["only"], {}, {}),
        parse.Result([], {"k": "v"}, {0: (1, 2)}),
        parse.Result(["a"], {"k": "v"}, {0: (1, 2), "k": (None, 3)}),
    ]
    for result in canned:
        matcher.parser = CannedParser(result)
        show_match(matcher, text)
    exercise_registry()
    factory.reset()


if __name__ == "__main__":
    main()
