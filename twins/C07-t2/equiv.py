# -*- coding: UTF-8 -*-
"""Equivalence transcript for property C07 (tag expressions v2).
Prints a canonical transcript of observed public behaviour.
FOCUS: _parse_tag_expression_v2 text normalisation (behave/tag_expression/builder.py) -- section 1 (strings, sequences, bad inputs, "@" removal, double blanks) plus sections 4, 5
"""
from __future__ import print_function
import sys
sys.path.insert(0, "/tmp/wtT/C07")
import itertools
import os
import tempfile

import behave
assert behave.__file__.startswith("/tmp/wtT/C07/"), behave.__file__
from behave.tag_expression import make_tag_expression, TagExpressionProtocol
from behave.tag_expression.builder import _parse_tag_expression_v2
from behave.tag_expression.parser import TagExpressionParser
from behave.tag_expression.model import (
    Matcher, Literal, And, Or, Not, True_, Never, Expression)
from behave.configuration import Configuration


def outcome(func, *args, **kwargs):
    try:
        return "OK  %r" % (func(*args, **kwargs),)
    except BaseException as e:  # noqa
        return "EXC %s: %s" % (type(e).__name__, e)


def pname(value):
    """Address-free name of a TagExpressionProtocol member (or repr)."""
    if isinstance(value, TagExpressionProtocol):
        return "<TagExpressionProtocol.%s>" % value.name
    return repr(value)


def describe(expr):
    return "%s | str=%r | to_string=%r | to_string(pretty=False)=%r | repr=%r" % (
        type(expr).__name__, str(expr), expr.to_string(),
        expr.to_string(pretty=False), repr(expr))


UNIVERSE = ["a", "b", "c", "A", "foo", "foo.bar", "bar.foo", "Foo.bar",
            "a1", "ab", "not", "and_x"]
TAG_SETS = [[]]
for n in (1, 2):
    TAG_SETS.extend(list(c) for c in itertools.combinations(UNIVERSE, n))
TAG_SETS.append(list(UNIVERSE))
TAG_SETS.append(("a", "b"))            # tuple
TAG_SETS.append(set(["foo.bar"]))      # set


def truth_row(expr):
    bits = []
    for tags in TAG_SETS:
        try:
            value = expr.evaluate(tags)
            check = expr.check(tags)
            assert type(value) is type(check) and value == check
            bits.append({True: "1", False: "0"}.get(value, repr(value)))
        except Exception as e:  # noqa
            bits.append("<%s>" % type(e).__name__)
    return "".join(bits)


TEXTS = [
    "", " ", "a", "@a", "not a", "not @a", "a and b", "@a and @b", "a or b",
    "a and b or c", "a or b and c", "(a or b) and c", "not (a or b)",
    "not not a", "not (not a)", "a and not b", "not a or not b",
    "foo.*", "@foo.*", "*.foo", "*", "?", "a?", "[ab]", "[!a]", "[a-c]",
    "not foo.*", "not (foo.* or *.foo)", "foo.* and not Foo.*",
    "(a)", "((a))", "( a and ( b or c ) )", "a  and  b", "a   and   b",
    "@a  or @b", "a@b", "@@a", "not", "and", "a and", "a b", "(a", "a)",
    "a or or b", "not and", "()", "a\\ b", "a\\(b", "x\\@y", "FOO.* or A",
    "[", "a[", "a]", "a[]", "f[o]o", "not [ab] and a?",
]
SEQS = [
    [], ["a"], ["@a", "@b"], ["a or b", "c"], ["not a", "foo.*"],
    ("a", "not b"), ["@a or @b", "not @c"], ["a and"], ["a", ""],
    ["{config.tags}"], [""],
]
BAD_INPUTS = [None, 1, 1.5, b"a", {"a": 1}, set(["a"]), [1], [None], object]


def section(title):
    print()
    print("=== %s ===" % title)


def show_parse(label, func, arg):
    try:
        expr = func(arg)
    except BaseException as e:  # noqa
        print("%s %r -> EXC %s: %s" % (label, arg, type(e).__name__, e))
        return None
    print("%s %r -> %s" % (label, arg, describe(expr)))
    print("    truth=%s" % truth_row(expr))
    # -- ROUND TRIP: print + reparse
    for text2 in (expr.to_string(), str(expr)):
        try:
            expr2 = func(text2)
            same = truth_row(expr2) == truth_row(expr)
            print("    reparse(%r) -> str=%r same_truth=%s" % (text2, str(expr2), same))
        except BaseException as e:  # noqa
            print("    reparse(%r) -> EXC %s: %s" % (text2, type(e).__name__, e))
    return expr


section("1. direct V2 parse (builder._parse_tag_expression_v2)")
for text in TEXTS:
    show_parse("v2", _parse_tag_expression_v2, text)
for seq in SEQS:
    before = repr(seq)
    show_parse("v2seq", _parse_tag_expression_v2, seq)
    print("    arg_after=%r unchanged=%s" % (seq, repr(seq) == before))
for bad in BAD_INPUTS:
    print("v2bad %r -> %s" % (bad, outcome(_parse_tag_expression_v2, bad)))

section("2. TagExpressionParser.parse / make_operand")
for text in ["a", "a*", "a?", "[a]", "[", "]", "a.b", "", "@a", "@a*", "not", "*and*"]:
    res = outcome(TagExpressionParser.make_operand, text)
    try:
        obj = TagExpressionParser.make_operand(text)
        res = "%s type=%s name=%r" % (res, type(obj).__name__, getattr(obj, "name", None))
    except Exception:  # noqa
        pass
    print("make_operand(%r) -> %s" % (text, res))
for text in TEXTS:
    show_parse("parser", TagExpressionParser.parse, text)
print("parser.parse(None) -> %s" % outcome(TagExpressionParser.parse, None))

section("3. Matcher / model classes")
for pattern in ["foo.*", "*.foo", "*", "?", "a?", "[ab]", "[!a]", "FOO.*", "plain", "", "[", "a[b"]:
    m = Matcher(pattern)
    print("Matcher(%r): name=%r str=%r repr=%r to_string=%r wild=%r" % (
        pattern, m.name, str(m), repr(m), m.to_string(), Matcher.contains_wildcards(pattern)))
    print("    truth=%s" % truth_row(m))
    print("    gen=%s" % outcome(m.evaluate, (t for t in ["x", "foo.1", "1.foo"])))
    print("    none=%s" % outcome(m.evaluate, None))
    print("    nonstr=%s" % outcome(m.evaluate, [1, "foo.x"]))
    print("    nonstr2=%s" % outcome(m.evaluate, ["foo.x", 1]))
    print("    str_as_values=%s" % outcome(m.evaluate, "ab"))


class CountingTags(object):
    """Iterable recording how many items were consumed."""
    def __init__(self, items):
        self.items = items
        self.consumed = []
    def __iter__(self):
        for item in self.items:
            self.consumed.append(item)
            yield item

ct = CountingTags(["x", "foo.a", "foo.b", "y"])
print("short-circuit: %r consumed=%r" % (Matcher("foo.*").evaluate(ct), ct.consumed))
ct = CountingTags(["x", "y"])
print("no-match:      %r consumed=%r" % (Matcher("foo.*").evaluate(ct), ct.consumed))

for cw in ["", "a", "*", "?", "[", "]", "[]", "a[b]", "!", "a.b", b"*", b"a"]:
    print("contains_wildcards(%r) -> %s" % (cw, outcome(Matcher.contains_wildcards, cw)))
print("contains_wildcards(None) -> %s" % outcome(Matcher.contains_wildcards, None))

MODEL_EXPRS = [
    Not(Literal("a")), Not(Matcher("a*")), Not(True_()), Not(Never()),
    Not(And(Literal("a"), Literal("b"))), Not(Or(Literal("a"), Matcher("b?"))),
    Not(Not(Literal("a"))), Not(Not(And(Literal("a"), Literal("b")))),
    And(Not(Literal("a")), Not(Or(Literal("b"), Literal("c")))),
    Or(), And(), And(Literal("a")), Or(Literal("a")), True_(), Never(),
    And(Or(Matcher("a.*"), Literal("b")), Literal("c")),
    Literal("a b"), Literal("a(b)"), Not(Literal("x y")),
]
for e in MODEL_EXPRS:
    print("model %s" % describe(e))
    print("    truth=%s" % truth_row(e))
print("patched: check=%s to_string=%s Not.__str__=%s" % (
    Expression.check.__name__, Expression.to_string.__name__, Not.__str__.__name__))

section("4. make_tag_expression per protocol + process-wide state")
print("initial current=%s has__current=%r" % (
    pname(TagExpressionProtocol.current()), "_current" in TagExpressionProtocol.__dict__))
for proto in [None, TagExpressionProtocol.V2, TagExpressionProtocol.AUTO_DETECT,
              TagExpressionProtocol.V1, TagExpressionProtocol.STRICT]:
    for text in ["", "a", "@a and @b", "not foo.*", "@a,@b", "~@a", "-a", "@a @b",
                 "~@a and b", "a*", ["@a", "@b"], ["@a,@b", "~c"], ["a or b", "c"], None, 3]:
        try:
            e = make_tag_expression(text, protocol=proto)
            print("proto=%s %r -> %s.%s str=%r truth=%s" % (
                proto, text, type(e).__module__, type(e).__name__, str(e), truth_row(e)
                if hasattr(e, "evaluate") else "".join(
                    "1" if e.check(list(t)) else "0" for t in TAG_SETS)))
        except BaseException as ex:  # noqa
            print("proto=%s %r -> EXC %s: %s" % (proto, text, type(ex).__name__, ex))
for name in ["v1", "V2", "auto_detect", "strict", "STRICT", "default", "bogus", "",
             TagExpressionProtocol.V2, TagExpressionProtocol.AUTO_DETECT, None, 1]:
    res = outcome(TagExpressionProtocol.use, name)
    print("use(%s) -> %s ; current=%s" % (pname(name), res, pname(TagExpressionProtocol.current())))
    print("    make('@a @b') -> %s" % outcome(lambda: str(make_tag_expression("@a @b"))))
print("choices=%r" % TagExpressionProtocol.choices())

section("5. Configuration.setup_tag_expression / {config.tags}")
CONFIG_CASES = [
    # (command_args, kwargs)
    ([], {}),
    (["--tags", "a"], {}),
    (["--tags", "@a and not @b"], {}),
    (["--tags", "{config.tags}"], {}),
    (["--tags", "{config.tags} and c"], {"config_tags": "not wip"}),
    (["--tags", "c and {config.tags}"], {"config_tags": "a or b"}),
    (["--tags", "not {config.tags}"], {"config_tags": "a or b"}),
    (["--tags", "not {config.tags}"], {"config_tags": "not a"}),
    (["--tags", "{config.tags} or {config.tags}"], {"config_tags": "foo.* and not a"}),
    (["--tags", "{config.tags} and c"], {"default_tags": "not (x or y)"}),
    (["--tags", "{config.tags} and c"], {"config_tags": "a", "default_tags": "b"}),
    (["--tags", "c"], {"config_tags": "a and"}),
    (["--tags", "{config.tags} and"], {"config_tags": "a"}),
    (["--tags", "a", "--tags", "{config.tags}"], {"config_tags": "not b"}),
    (["--tags", "@a,@b", "--tags", "~{config.tags}"], {"config_tags": "c"}),
    (["--tags", "{config.tags} and c", "--tag-expression-protocol", "v2"], {"config_tags": "@a or @b*"}),
    (["--tags", "{config.tags} and c", "--tag-expression-protocol", "strict"], {"config_tags": "~@a"}),
    (["--tags", "{config.tags}", "--tag-expression-protocol", "v1"], {"config_tags": "@a,@b"}),
    (["--tags", "{config.tags} @c", "--tag-expression-protocol", "auto_detect"], {"config_tags": "@a"}),
    ([], {"config_tags": "not wip"}),
    ([], {"default_tags": "not wip and foo.*"}),
    ([], {"config_tags": ["a", "not b"]}),
    (["--tags", "{config.tags} and c"], {"config_tags": ["a", "not b"]}),
    (["--wip"], {"config_tags": "a"}),
]
cwd = os.getcwd()
tmpdir = tempfile.mkdtemp()
os.chdir(tmpdir)
try:
    for args, kwargs in CONFIG_CASES:
        TagExpressionProtocol.use(TagExpressionProtocol.DEFAULT)
        print("config args=%r kwargs=%r" % (args, sorted(kwargs.items())))
        try:
            config = Configuration(command_args=list(args), load_config=False, **kwargs)
        except BaseException as e:  # noqa
            print("    EXC %s: %s ; current=%s" % (type(e).__name__, e, pname(TagExpressionProtocol.current())))
            continue
        te = config.tag_expression
        print("    tags=%r config_tags=%r default_tags=%r" % (
            config.tags, config.config_tags, config.default_tags))
        print("    tag_expression=%s.%s str=%r current=%s protocol=%s" % (
            type(te).__module__, type(te).__name__, str(te),
            pname(TagExpressionProtocol.current()), pname(config.tag_expression_protocol)))
        print("    truth=%s" % "".join("1" if te.check(list(t)) else "0" for t in TAG_SETS))
        # -- RE-RUN with explicit tags param (string, list, tuple)
        for explicit in ["{config.tags} and zzz", ["{config.tags}", "b"], ["x", "y or {config.tags}"],
                         ("a", "b"), ("{config.tags}", "b"), [], "", None]:
            arg = explicit
            before = repr(arg)
            try:
                config.setup_tag_expression(arg)
                res = "tags=%r str=%r same_obj=%r" % (
                    config.tags, str(config.tag_expression), config.tags is arg)
            except BaseException as e:  # noqa
                res = "EXC %s: %s ; tags=%r" % (type(e).__name__, e, config.tags)
            print("    setup(%s) -> %s ; arg_after=%r" % (before, res, arg))
finally:
    os.chdir(cwd)
    os.rmdir(tmpdir)
print()
print("DONE")
