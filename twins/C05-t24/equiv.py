# -*- coding: UTF-8 -*-
"""Equivalence transcript for the C05 twins (parser error discipline).

Drives behave.parser through its public entry points (parse_feature,
parse_rule, parse_scenario, parse_steps, parse_step, parse_tags, parse_file,
Parser(...).parse_steps) on
  * hand written valid and invalid documents in several languages,
  * every catalogued single grammar fault injected at every position,
  * all single-line insert/delete/duplicate/swap/truncate mutations,
  * seeded random line soups,
and prints what was observed: a dump of the returned model, or the exception
type, message, str(), .line, .line_text, .filename; plus the records that were
logged to the "behave" logger.
"""
from __future__ import print_function, unicode_literals
import sys
sys.path.insert(0, "/tmp/wtX/C05")

import io
import logging
import os
import random
import tempfile

from behave import parser as P
from behave import i18n, model

assert P.__file__.startswith("/tmp/wtX/C05/"), P.__file__

OUT = io.open(sys.stdout.fileno(), "w", encoding="utf-8", closefd=False)


def emit(text):
    OUT.write(text)
    OUT.write("\n")


# -- LOG CAPTURE ------------------------------------------------------------
class ListHandler(logging.Handler):
    def __init__(self):
        logging.Handler.__init__(self)
        self.records = []

    def emit(self, record):
        self.records.append("%s:%s" % (record.levelname, record.getMessage()))


LOG = ListHandler()
_logger = logging.getLogger("behave")
_logger.addHandler(LOG)
_logger.setLevel(logging.DEBUG)
_logger.propagate = False


# -- MODEL DUMP -------------------------------------------------------------
def dump_tags(tags):
    return "[%s]" % ",".join("%s@%s" % (t, getattr(t, "line", "?")) for t in tags)


def dump_table(table):
    if table is None:
        return "None"
    rows = ["%s@%s" % ("|".join(r.cells), r.line) for r in table.rows]
    return "T(line=%s;h=%s;rows=%s)" % (table.line, "|".join(table.headings),
                                       ";".join(rows))


def dump_step(step):
    text = step.text
    if text is not None:
        text = "Text(%r,%s,line=%s)" % (text, text.content_type, text.line)
    return "Step(%s:%s %r type=%s kw=%r name=%r text=%s table=%s)" % (
        step.filename, step.line, step.keyword, step.step_type, step.keyword,
        step.name, text, dump_table(step.table))


def dump_steps(steps, indent):
    return ["%s%s" % (indent, dump_step(s)) for s in steps]


def dump_background(bg, indent):
    if bg is None:
        return ["%sBackground: None" % indent]
    out = ["%sBackground(%s:%s kw=%r name=%r desc=%r)" % (
        indent, bg.filename, bg.line, bg.keyword, bg.name, bg.description)]
    out.extend(dump_steps(bg.steps, indent + "  "))
    return out


def dump_scenario(sc, indent):
    out = ["%s%s(%s:%s kw=%r name=%r tags=%s desc=%r)" % (
        indent, sc.__class__.__name__, sc.filename, sc.line, sc.keyword,
        sc.name, dump_tags(sc.tags), sc.description)]
    out.extend(dump_steps(sc.steps, indent + "  "))
    if isinstance(sc, model.ScenarioOutline):
        for ex in sc.examples:
            out.append("%s  Examples(%s:%s kw=%r name=%r tags=%s table=%s)" % (
                indent, ex.filename, ex.line, ex.keyword, ex.name,
                dump_tags(ex.tags), dump_table(ex.table)))
    return out


def dump_container(cont, indent):
    out = dump_background(cont.background, indent)
    for sc in cont.scenarios:
        out.extend(dump_scenario(sc, indent))
    return out


def dump_rule(rule, indent):
    out = ["%sRule(%s:%s kw=%r name=%r tags=%s desc=%r)" % (
        indent, rule.filename, rule.line, rule.keyword, rule.name,
        dump_tags(rule.tags), rule.description)]
    out.extend(dump_container(rule, indent + "  "))
    return out


def dump_feature(feature):
    out = ["Feature(%s:%s kw=%r name=%r tags=%s lang=%s desc=%r parser=%s)" % (
        feature.filename, feature.line, feature.keyword, feature.name,
        dump_tags(feature.tags), feature.language, feature.description,
        feature.parser.__class__.__name__ if feature.parser else None)]
    out.extend(dump_container(feature, "  "))
    for rule in feature.rules:
        out.extend(dump_rule(rule, "  "))
    return out


def dump_result(result):
    if result is None:
        return ["None"]
    if isinstance(result, model.Feature):
        return dump_feature(result)
    if isinstance(result, model.Rule):
        return dump_rule(result, "")
    if isinstance(result, (model.Scenario, model.ScenarioOutline)):
        return dump_scenario(result, "")
    if isinstance(result, model.Background):
        return dump_background(result, "")
    if isinstance(result, model.Step):
        return [dump_step(result)]
    if isinstance(result, list):
        out = ["list(%d)" % len(result)]
        for item in result:
            if isinstance(item, model.Step):
                out.append("  " + dump_step(item))
            elif isinstance(item, model.Tag):
                out.append("  Tag(%s@%s)" % (item, item.line))
            else:
                out.append("  %r" % (item,))
        return out
    return ["%s %r" % (type(result).__name__, result)]


def observe(label, func, *args, **kwargs):
    del LOG.records[:]
    emit("### %s" % label)
    try:
        result = func(*args, **kwargs)
    except P.ParserError as e:
        emit("  RAISES ParserError line=%r line_text=%r filename=%r" % (
            e.line, e.line_text, e.filename))
        emit("  args=%r" % (e.args,))
        emit("  str=%r" % (u"%s" % e,))
    except Exception as e:     # pylint: disable=broad-except
        emit("  RAISES-INTERNAL %s: %r" % (type(e).__name__, e.args))
    else:
        for entry in dump_result(result):
            emit("  " + entry)
    for rec in LOG.records:
        emit("  LOG " + rec)


ENTRY_POINTS = [
    ("feature", P.parse_feature),
    ("rule", P.parse_rule),
    ("scenario", P.parse_scenario),
    ("steps", P.parse_steps),
]


def observe_all(label, text, language=None, filename=None, only=None):
    for name, func in ENTRY_POINTS:
        if only and name not in only:
            continue
        observe("%s | %s lang=%s file=%s" % (label, name, language, filename),
                func, text, language=language, filename=filename)


# -- RENDERING OF VALID DOCUMENTS IN A LANGUAGE -------------------------------
def kw(lang, name, index=-1):
    words = i18n.languages[lang][name]
    return words[index]


def render_document(lang, with_rule=True, header=True):
    k = lambda name, index=-1: kw(lang, name, index)   # noqa: E731
    lines = []
    if header:
        lines.append("# language: %s" % lang)
    lines += [
        "@f1 @f2",
        "%s: Alpha" % k("feature"),
        "  Some description",
        "  %s: B" % k("background"),
        "    %sa background step" % k("given"),
        "  @s1",
        "  %s: First" % k("scenario"),
        "    %sa precondition" % k("given"),
        "    %smore" % k("and"),
        "      | a | b |",
        "      | 1 | 2 |",
        "    %san action:" % k("when"),
        '      """',
        "      doc line 1",
        "        doc line 2",
        '      """',
        "    %sa result" % k("then"),
        "    %snot that" % k("but"),
        "  @o1 @o2",
        "  %s: Second <x>" % k("scenario_outline"),
        "    %sa <x>" % k("given"),
        "    * a generic <y>",
        "    @e1",
        "    %s: E1" % k("examples"),
        "      | x | y |",
        "      | 1 | 2 |",
        "      | 3 | 4 |",
    ]
    if with_rule:
        lines += [
            "  @r1",
            "  %s: R" % k("rule"),
            "    rule description",
            "    %s: RB" % k("background"),
            "      %srule background step" % k("given"),
            "    %s: In rule" % k("scenario", 0),
            "      %sx" % k("when"),
            "      %sy" % k("then"),
        ]
    return lines


LANGS = ["en", "de", "fr", "ja", "zh-CN", "en-pirate", "ru", "ar", "sv", "ht"]


# -- SECTION 1: hand-written cases --------------------------------------------
def section_handwritten():
    emit("=" * 20 + " SECTION 1: handwritten")
    cases = [
        ("empty", ""),
        ("blank", "\n\n   \n"),
        ("only comment", "# just a comment\n"),
        ("only tags", "@a @b\n"),
        ("feature only", "Feature: X\n"),
        ("feature no name", "Feature:\n"),
        ("two features", "Feature: X\n  Scenario: A\n    Given a\nFeature: Y\n"),
        ("feature after desc", "Feature: X\n  desc\nFeature: Y\n"),
        ("text after steps", "Feature: X\n  Scenario: A\n    Given a\n  stray text\n"),
        ("examples outside outline",
         "Feature: X\n  Scenario: A\n    Given a\n  Examples: E\n    | a |\n    | 1 |\n"),
        ("examples in feature", "Feature: X\n  Examples: E\n    | a |\n"),
        ("and first", "Feature: X\n  Scenario: A\n    And a\n"),
        ("but first", "Feature: X\n  Scenario: A\n    But a\n"),
        ("and after background",
         "Feature: X\n  Background:\n    Given b\n  Scenario: A\n    And a\n"),
        ("and after empty background",
         "Feature: X\n  Background:\n  Scenario: A\n    And a\n"),
        ("star first", "Feature: X\n  Scenario: A\n    * a\n    Given b\n    * c\n"),
        ("table wrong cells",
         "Feature: X\n  Scenario: A\n    Given a\n      | a | b |\n      | 1 |\n"),
        ("table too many cells",
         "Feature: X\n  Scenario: A\n    Given a\n      | a | b |\n      | 1 | 2 | 3 |\n"),
        ("table malformed row",
         "Feature: X\n  Scenario: A\n    Given a\n      | a | b |\n      | 1 | 2\n"),
        ("table escaped pipe",
         "Feature: X\n  Scenario: A\n    Given a\n      | a | b |\n      | 1\\|x | 2 |\n"),
        ("table before step", "Feature: X\n  Scenario: A\n    | a | b |\n"),
        ("table before step in steps",
         "Feature: X\n  Scenario: A\n    Given a\n  Scenario: B\n    | a |\n"),
        ("docstring before step", 'Feature: X\n  Scenario: A\n    """\n    x\n    """\n'),
        ("docstring unterminated",
         'Feature: X\n  Scenario: A\n    Given a\n    """\n    x\n'),
        ("docstring bad indent",
         'Feature: X\n  Scenario: A\n    Given a\n      """\n    x\n      """\n'),
        ("docstring single quotes",
         "Feature: X\n  Scenario: A\n    Given a\n      '''\n      x\n      '''\n    Then b\n"),
        ("docstring mixed quotes",
         "Feature: X\n  Scenario: A\n    Given a\n      '''\n      \"\"\"\n      '''\n"),
        ("bad tag", "Feature: X\n  @ok bad\n  Scenario: A\n"),
        ("bad tag feature", "@ok bad @more\nFeature: X\n"),
        ("tag comment", "@ok #bad @more\nFeature: X\n  @a # c\n  Scenario: A\n"),
        ("tag at only", "@\nFeature: X\n"),
        ("tags then junk", "Feature: X\n  @t\n  junk\n"),
        ("tags then background", "Feature: X\n  @t\n  Background: B\n"),
        ("tags eof", "Feature: X\n  Scenario: A\n    Given a\n  @t\n"),
        ("second background",
         "Feature: X\n  Background: A\n    Given a\n  Background: B\n    Given b\n"),
        ("second background empty first",
         "Feature: X\n  Background: A\n  Background: B\n    Given b\n"),
        ("background after scenario",
         "Feature: X\n  Scenario: A\n    Given a\n  Background: B\n"),
        ("background after scenario nosteps",
         "Feature: X\n  Scenario: A\n  Background: B\n"),
        ("background before feature", "Background: B\n"),
        ("scenario before feature", "Scenario: A\n  Given a\n"),
        ("outline before feature", "Scenario Outline: A\n  Given a\n"),
        ("rule before feature", "Rule: A\n"),
        ("rule tagged before feature", "@x\nRule: A\n"),
        ("junk first", "junk\n"),
        ("language unknown", "# language: xx\nFeature: X\n"),
        ("language de", "# language: de\nFunktionalität: X\n  Szenario: A\n    Angenommen a\n"),
        ("language late", "Feature: X\n# language: de\n  Scenario: A\n"),
        ("language after tags", "@t\n# language: de\nFeature: X\n"),
        ("language upper", "#  LANGUAGE:   fr  \nFonctionnalité: X\n"),
        ("language twice", "# language: de\n# language: fr\nFonctionnalité: X\n"),
        ("rule with stuff",
         "Feature: X\n  Rule: R1\n    desc\n    Background:\n      Given b\n"
         "    Example: E\n      And c\n  Rule: R2\n    Scenario: S\n      And d\n"),
        ("rule background inherits",
         "Feature: X\n  Background:\n    When fb\n  Rule: R1\n    Background:\n"
         "    Example: E\n      And c\n"),
        ("rule second background",
         "Feature: X\n  Rule: R1\n    Background:\n      Given a\n    Background:\n"),
        ("outline full",
         "Feature: X\n  Scenario Outline: O\n    Given <a>\n    Examples: E1\n"
         "      | a |\n      | 1 |\n    @t\n    Examples: E2\n      | a |\n"
         "  Scenario: Next\n    Given z\n"),
        ("examples malformed",
         "Feature: X\n  Scenario Outline: O\n    Given <a>\n    Examples: E1\n"
         "      | a | b |\n      | 1 |\n"),
        ("examples then text",
         "Feature: X\n  Scenario Outline: O\n    Given <a>\n    Examples: E1\n"
         "      | a |\n    junk\n"),
        ("examples without table",
         "Feature: X\n  Scenario Outline: O\n    Given <a>\n    Examples: E1\n"
         "  Scenario: N\n"),
        ("step case insensitive", "Feature: X\n  Scenario: A\n    given a\n    WHEN b\n    tHeN c\n"),
        ("step no space", "Feature: X\n  Scenario: A\n    Givena\n"),
        ("step colon", "Feature: X\n  Scenario: A\n    Given a:\n      | x |\n"),
        ("windows eol", "Feature: X\r\n  Scenario: A\r\n    Given a\r\n      \"\"\"\r\n      t  \r\n      \"\"\"\r\n"),
        ("description keeps keyword-ish", "Feature: X\n  Given is no step here\n  Scenario: A\n    Some Given text\n    Given a\n"),
        ("scenario desc then table", "Feature: X\n  Scenario: A\n    desc\n    | a |\n"),
        ("table at eof", "Feature: X\n  Scenario: A\n    Given a\n      | a |\n      | 1 |"),
        ("table then step", "Feature: X\n  Scenario: A\n    Given a\n      | a |\n    Then b\n      | c |\n      | 2 |\n    And d\n"),
        ("table then feature", "Feature: X\n  Scenario: A\n    Given a\n      | a |\n  Feature: Y\n"),
        ("table then bad tag", "Feature: X\n  Scenario: A\n    Given a\n      | a |\n  @x y\n"),
        ("empty table row", "Feature: X\n  Scenario: A\n    Given a\n      ||\n      ||\n"),
        ("single pipe", "Feature: X\n  Scenario: A\n    Given a\n      |\n"),
        ("fr longer keyword", "# language: fr\nFonctionnalité: X\n  Scénario: A\n    Etant donné que a\n    Et qu'b\n    Et que c\n    Mais d\n"),
        ("ja nospace", "# language: ja\nフィーチャ: X\n  シナリオ: A\n    前提a\n    かつb\n    もしc\n    ならばd\n    但しe\n"),
    ]
    for label, text in cases:
        observe_all(label, text)
        observe_all(label + " [file]", text, filename="some/dir/x.feature",
                    only=("feature",))

    # -- language argument, bad language argument
    observe("lang arg de", P.parse_feature,
            "Funktionalität: X\n  Szenario: A\n    Angenommen a\n", language="de")
    observe("lang arg de + en text", P.parse_feature,
            "Feature: X\n", language="de")
    observe("lang arg unknown", P.parse_feature, "Feature: X\n", language="xx")
    observe("lang arg unknown steps", P.parse_steps, "Given a\n", language="xx")
    observe("lang arg de steps", P.parse_steps,
            "Angenommen a\nUnd b\nGiven c\n", language="de")
    observe("parse_feature bytes", P.parse_feature, b"Feature: X\n")
    observe("parse_steps bytes", P.parse_steps, b"Given a\n")
    observe("parse_rule bytes", P.parse_rule, b"Rule: a\n")
    observe("parse_scenario bytes", P.parse_scenario, b"Scenario: a\n")


# -- SECTION 2: wrappers attach filename ---------------------------------------
def section_wrappers():
    emit("=" * 20 + " SECTION 2: wrappers / filename")
    bad_feature = "Feature: X\n  Scenario: A\n    Given a\n  stray\n"
    bad_rule = "Rule: R\n  Scenario: A\n    And a\n"
    bad_scenario = "Scenario: A\n  Given a\n    | a | b |\n    | 1 |\n"
    bad_steps = "Given a\n  @x y\n"
    good_rule = "@t\nRule: R\n  d\n  Background:\n    Given b\n  Scenario: A\n    And a\n"
    good_scenario = "@t\nScenario: A\n  desc\n  Given a\n  And b\n"
    good_outline = "Scenario Outline: A\n  Given <a>\n  Examples:\n    | a |\n    | 1 |\n"
    good_steps = "Given a\n  | a |\n  | 1 |\nWhen b\n  '''\n  t\n  '''\nThen c:\n"
    for filename in (None, "", "f.feature", u"d\u00e4/f.feature"):
        observe("W bad feature file=%r" % filename, P.parse_feature, bad_feature, None, filename)
        observe("W bad rule file=%r" % filename, P.parse_rule, bad_rule, None, filename)
        observe("W bad scenario file=%r" % filename, P.parse_scenario, bad_scenario, None, filename)
        observe("W bad steps file=%r" % filename, P.parse_steps, bad_steps, None, filename)
        observe("W bad step file=%r" % filename, P.parse_step, bad_steps, None, filename)
        observe("W good rule file=%r" % filename, P.parse_rule, good_rule, None, filename)
        observe("W good scenario file=%r" % filename, P.parse_scenario, good_scenario, None, filename)
        observe("W good outline file=%r" % filename, P.parse_scenario, good_outline, None, filename)
        observe("W good steps file=%r" % filename, P.parse_steps, good_steps, None, filename)
        observe("W good step file=%r" % filename, P.parse_step, "Given a\n", None, filename)
    observe("W two steps parse_step", P.parse_step, "Given a\nThen b\n")
    observe("W zero steps parse_step", P.parse_step, "")
    observe("W rule without rule line", P.parse_rule, "Scenario: A\n  Given a\n")
    observe("W rule desc without rule line", P.parse_rule, "some text\n")
    observe("W scenario without line", P.parse_scenario, "Given a\n")
    observe("W scenario two", P.parse_scenario, "Scenario: A\n  Given a\nScenario: B\n  Given b\n")
    observe("W scenario tags only", P.parse_scenario, "@a @b\n")
    observe("W steps with scenario", P.parse_steps, "Given a\nScenario: B\n  Given b\n")
    observe("W steps with feature", P.parse_steps, "Given a\nFeature: B\n")
    observe("W steps with background", P.parse_steps, "Given a\nBackground: B\n")
    observe("W steps with examples", P.parse_steps, "Given a\nExamples: B\n")
    observe("W steps with rule", P.parse_steps, "Given a\nRule: B\n")

    # -- parse_tags
    for text in ("", None, "@a", "@a @b  @c", "@a\n@b", "@a #x y", "@a x",
                 "x", "#c", "  @a\t@b ", "@a@b", "@", "@ @", "@a # @b\n@c",
                 "@a\n  bad", u"@t\u00e4g", "@a\r\n@b", "# only\n@x"):
        observe("parse_tags %r" % (text,), P.parse_tags, text)

    # -- Parser method entry points used by runner (execute_steps)
    for lang in (None, "en", "de"):
        p = P.Parser(lang)
        observe("Parser(%s).parse_steps good" % lang, p.parse_steps, good_steps, "ff")
        observe("Parser(%s).parse_steps again" % lang, p.parse_steps, "Given z\nAnd y\n")
        observe("Parser(%s).parse_steps bad" % lang, p.parse_steps, "And y\n", "gg")
        observe("Parser(%s).parse after" % lang, p.parse, "Feature: X\n  Scenario: A\n    Given a\n", "hh")
    p = P.Parser(variant="steps")
    observe("Parser(variant=steps).parse_steps junk", p.parse_steps, "junk\n")
    p = P.Parser(variant="feature")
    observe("Parser(variant=feature).parse_steps junk", p.parse_steps, "junk\n")

    # -- parse_file
    tmpdir = tempfile.mkdtemp()
    for name, text in (("good.feature", "\n".join(render_document("fr")) + "\n"),
                       ("bad.feature", bad_feature),
                       ("empty.feature", "")):
        path = os.path.join(tmpdir, name)
        with io.open(path, "w", encoding="utf-8") as f:
            f.write(text)
        cwd = os.getcwd()
        os.chdir(tmpdir)
        try:
            observe("parse_file %s" % name, P.parse_file, name)
            observe("parse_file %s lang=fr" % name, P.parse_file, name, "fr")
        finally:
            os.chdir(cwd)
        os.remove(path)
    os.rmdir(tmpdir)


# -- SECTION 3: catalogued faults at every position ---------------------------
def section_faults():
    emit("=" * 20 + " SECTION 3: catalogued faults")
    for lang in ("en", "de", "fr", "ja"):
        base = render_document(lang)
        k = lambda name, index=-1: kw(lang, name, index)   # noqa: E731
        faults = [
            ("second-feature", "%s: Again" % k("feature")),
            ("free-text", "just some free text"),
            ("examples", "%s: Extra" % k("examples")),
            ("and", "%sorphan" % k("and")),
            ("but", "%sorphan" % k("but")),
            ("bad-row", "| 1 | 2 | 3 | 4 | 5 |"),
            ("bad-tag", "@good bad"),
            ("background", "%s: Again" % k("background")),
            ("rule", "%s: Again" % k("rule")),
            ("docstring", '"""'),
            ("outline", "%s: Again" % k("scenario_outline")),
            ("scenario", "%s: Again" % k("scenario")),
            ("star", "* generic"),
        ]
        for fname, fline in faults:
            for pos in range(len(base) + 1):
                lines = base[:pos] + ["    " + fline] + base[pos:]
                text = "\n".join(lines) + "\n"
                observe("fault %s lang=%s pos=%d" % (fname, lang, pos),
                        P.parse_feature, text, None, "m.feature")


# -- SECTION 4: single-line mutations -----------------------------------------
def section_mutations():
    emit("=" * 20 + " SECTION 4: mutations")
    for lang in LANGS:
        base = render_document(lang)
        text = "\n".join(base) + "\n"
        observe_all("valid lang=%s" % lang, text, only=("feature",))
        body = render_document(lang, header=False)
        observe("valid noheader lang=%s" % lang, P.parse_feature,
                "\n".join(body) + "\n", language=lang)
    for lang in ("en", "fr", "zh-CN"):
        base = render_document(lang)
        n = len(base)
        for i in range(n):
            variants = [
                ("delete", base[:i] + base[i + 1:]),
                ("duplicate", base[:i] + [base[i]] + base[i:]),
                ("truncate", base[:i]),
                ("halfline", base[:i] + [base[i][:len(base[i]) // 2]] + base[i + 1:]),
            ]
            if i + 1 < n:
                variants.append(("swap", base[:i] + [base[i + 1], base[i]] + base[i + 2:]))
            for vname, lines in variants:
                observe("mut %s lang=%s i=%d" % (vname, lang, i),
                        P.parse_feature, "\n".join(lines) + "\n")
    # -- other entry points: mutations of sub-documents
    en = render_document("en", header=False)
    rule_part = [ln[2:] for ln in en[27:]]
    scenario_part = [ln[2:] for ln in en[5:18]]
    outline_part = [ln[2:] for ln in en[18:27]]
    steps_part = [ln[4:] for ln in en[7:18]]
    for pname, func, part in (("rule", P.parse_rule, rule_part),
                              ("scenario", P.parse_scenario, scenario_part),
                              ("outline", P.parse_scenario, outline_part),
                              ("steps", P.parse_steps, steps_part)):
        observe("part %s valid" % pname, func, "\n".join(part) + "\n")
        for i in range(len(part)):
            observe("part %s delete %d" % (pname, i), func,
                    "\n".join(part[:i] + part[i + 1:]) + "\n")
            observe("part %s dup %d" % (pname, i), func,
                    "\n".join(part[:i] + [part[i]] + part[i:]) + "\n")
            observe("part %s trunc %d" % (pname, i), func,
                    "\n".join(part[:i]) + "\n")
            if i + 1 < len(part):
                observe("part %s swap %d" % (pname, i), func,
                        "\n".join(part[:i] + [part[i + 1], part[i]] + part[i + 2:]) + "\n")


# -- SECTION 5: random line soups ---------------------------------------------
def line_pool(lang):
    k = lambda name, index=-1: kw(lang, name, index)   # noqa: E731
    pool = [
        "# language: %s" % lang, "# language: en", "# language: de",
        "# language: nope", "# comment", "",
        "@a", "@a @b", "@a bad", "@a #c", "@",
        '"""', "'''", '  """', "    text", "text",
        "| a |", "| a | b |", "| 1 | 2 |", "| 1 |", "| x", "|", "||",
        "* star", "Given en-given", "And en-and", "Feature: en-feature",
        "Scenario: en-scenario", "Examples: en-examples",
    ]
    for name in ("feature", "rule", "background", "scenario",
                 "scenario_outline", "examples"):
        for word in i18n.languages[lang][name]:
            pool.append("%s: t" % word)
        pool.append("%s t" % k(name))
    for name in ("given", "when", "then", "and", "but"):
        for word in i18n.languages[lang][name]:
            pool.append("%sx" % word)
            pool.append("%sx" % word.lower())
            pool.append(word.strip())
    return pool


def section_soups():
    emit("=" * 20 + " SECTION 5: soups")
    rng = random.Random(20240505)
    for lang in LANGS:
        pool = line_pool(lang)
        for n in range(60):
            size = rng.randint(1, 12)
            lines = []
            for _ in range(size):
                indent = " " * rng.choice((0, 0, 2, 4, 6))
                lines.append(indent + rng.choice(pool))
            text = "\n".join(lines) + rng.choice(("", "\n"))
            name, func = ENTRY_POINTS[n % len(ENTRY_POINTS)]
            language = rng.choice((None, None, lang, "en"))
            observe("soup lang=%s n=%d ep=%s language=%s text=%r" % (
                lang, n, name, language, text), func, text, language, "s.feature")
    # -- a prefix that makes deeper states reachable
    for lang in ("en", "fr", "ja"):
        pool = line_pool(lang)
        prefix = render_document(lang)
        for n in range(60):
            cut = rng.randint(2, len(prefix))
            lines = prefix[:cut]
            for _ in range(rng.randint(1, 5)):
                lines.append("    " + rng.choice(pool))
            text = "\n".join(lines) + "\n"
            observe("deep soup lang=%s n=%d cut=%d tail=%r" % (
                lang, n, cut, lines[cut:]), P.parse_feature, text)


# -- SECTION 6: every step keyword in every language ---------------------------
def section_keywords():
    emit("=" * 20 + " SECTION 6: step keywords in all languages")
    for lang in sorted(i18n.languages):
        words = i18n.languages[lang]
        lines = []
        for name in ("given", "when", "then", "and", "but"):
            for word in words[name]:
                lines.append("%sstep %s" % (word, name))
                lines.append("%sSTEP %s" % (word.upper(), name))
        text = "\n".join(lines) + "\n"
        observe("all step keywords lang=%s" % lang, P.parse_steps, text, lang)
        first = "%sfirst" % words["and"][-1]
        observe("and first lang=%s" % lang, P.parse_steps, first + "\n", lang)
        doc = "# language: %s\n%s: F\n  %s: B\n    %sb\n  %s: S\n    %sa\n    %sc\n" % (
            lang, words["feature"][0], words["background"][0], words["when"][-1],
            words["scenario"][0], words["but"][-1], words["and"][-1])
        observe("and after background lang=%s" % lang, P.parse_feature, doc)
        bad = "# language: %s\n%s: F\n  %s: S\n    %sa\n  %s: G\n  %s: R\n  %s: B\n  %s: O\n" % (
            lang, words["feature"][0], words["scenario"][-1], words["given"][-1],
            words["feature"][-1], words["rule"][-1], words["background"][-1],
            words["scenario_outline"][-1])
        observe("second feature lang=%s" % lang, P.parse_feature, bad)
        for name in ("rule", "background", "scenario", "scenario_outline",
                     "examples", "feature"):
            text = "@t\n%s: first of all\n" % words[name][-1]
            observe("first line %s lang=%s (lang arg)" % (name, lang),
                    P.parse_feature, text, lang)
            text2 = "# language: %s\n%s: F\n  %s: S\n    %sa\n  @t\n  %s: late\n" % (
                lang, words["feature"][0], words["scenario"][0],
                words["given"][-1], words[name][-1])
            observe("late line %s lang=%s" % (name, lang), P.parse_feature, text2)


def main():
    section_handwritten()
    section_wrappers()
    section_faults()
    section_mutations()
    section_soups()
    section_keywords()
    OUT.flush()


if __name__ == "__main__":
    main()
