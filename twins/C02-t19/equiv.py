# -*- coding: UTF-8 -*-
"""Equivalence transcript for C02-t19 (async_run_until_complete: event-loop selection).

Async step functions (all decorator styles of behave.api.async_step) with all
outcomes are run through behave's ModelRunner and are also called directly.
Prints: call log, step/scenario statuses, error messages, which loop was used,
whether loops were closed afterwards, context attributes that were created.
"""
from __future__ import print_function
import sys
sys.path.insert(0, "/tmp/wtW/C02")

import asyncio
import itertools
import random
import re
import warnings

from behave.api.async_step import (
    async_run_until_complete, run_until_complete, AsyncContext,
    use_or_create_async_context)
from behave.configuration import Configuration
from behave.exception import StepNotImplementedError
from behave.formatter.base import Formatter
from behave.parser import parse_feature
from behave.runner import ModelRunner, Context
from behave.step_registry import StepRegistry

warnings.simplefilter("ignore")
CALLS = []
LOOPS = {}      # -- name -> loop (created by the harness)
STYLES = ("plain", "call", "timeout", "ctxname", "ctxobj", "loopname",
          "loopmissing", "close", "ctxname_timeout")
OUTCOMES = ("pass", "fail", "exc", "pend", "skip", "slow", "undef")


def norm(text):
    if text is None:
        return None
    text = re.sub(r'File "[^"]*[\\/]([^"\\/]+)", line \d+', r'File "\1", line N', text)
    text = re.sub(r"0x[0-9a-fA-F]+", "0xX", text)
    return text


def loop_label(loop):
    for name, known in LOOPS.items():
        if known is loop:
            return name
    return "other"


def make_body(style):
    async def body(context, outcome, tag):
        loop = asyncio.get_running_loop()
        CALLS.append("%s/%s:%s@%s[loop=%s]" % (
            style, outcome, tag, context.scenario.name, loop_label(loop)))
        context.used_loops.append(loop)
        await asyncio.sleep(0)
        if outcome == "fail":
            assert False, "async boom %s" % tag
        elif outcome == "exc":
            raise RuntimeError("async oops %s" % tag)
        elif outcome == "pend":
            raise StepNotImplementedError("async todo %s" % tag)
        elif outcome == "skip":
            context.scenario.skip("async skip %s" % tag)
        elif outcome == "slow":
            await asyncio.sleep(0.3)
            CALLS.append("%s/slow-finished:%s" % (style, tag))
    body.__name__ = "astep_%s" % style
    return body


def make_registry(shared_ctxobj):
    registry = StepRegistry()
    decorators = {
        "plain": async_run_until_complete,
        "call": async_run_until_complete(),
        "timeout": run_until_complete(timeout=0.05),
        "ctxname": async_run_until_complete(async_context="my_async"),
        "ctxobj": async_run_until_complete(async_context=shared_ctxobj),
        "loopname": async_run_until_complete(loop="my_loop"),
        "loopmissing": async_run_until_complete(loop="no_such_loop"),
        "close": async_run_until_complete(should_close=True, timeout=0.05),
        "ctxname_timeout": async_run_until_complete(
            async_context="my_async", timeout=0.05),
    }
    for style in STYLES:
        func = decorators[style](make_body(style))
        print("decorated %s: name=%s wrapped=%s" % (
            style, func.__name__, getattr(func, "__wrapped__", None) is not None))
        registry.add_step_definition(
            "step", "async %s {outcome} {tag}" % style, func)

    def sync_pass(context, tag):
        CALLS.append("sync/pass:%s@%s" % (tag, context.scenario.name))
    registry.add_step_definition("step", "sync pass {tag}", sync_pass)
    return registry


class RecFormatter(Formatter):
    name = "rec"

    def __init__(self, log):
        self.log = log

    def uri(self, uri): pass
    def feature(self, feature): pass
    def rule(self, rule): pass
    def background(self, background): pass
    def scenario(self, scenario): self.log.append("F.scenario %s" % scenario.name)
    def step(self, step): pass

    def match(self, match):
        self.log.append("F.match %s %s" % (
            type(match).__name__, getattr(match.func, "__name__", None)))

    def result(self, step):
        self.log.append("F.result %s -> %s" % (step.name, step.status.name))

    def eof(self): pass
    def close(self): pass


def step_text(style, outcome, tag):
    if outcome == "undef":
        return "    When not defined %s" % tag
    return "    When async %s %s %s" % (style, outcome, tag)


def run_case(title, scenarios, args=(), wip=False, cafs=False, repeat=1):
    """scenarios: list of lists of (style, outcome)."""
    print("=== %s" % title)
    lines = ["Feature: F", "  Background:", "    Given sync pass bg"]
    for i, steps in enumerate(scenarios):
        if wip:
            lines.append("  @wip")
        lines.append("  Scenario: S%d" % i)
        lines += [step_text(style, outcome, "s%d" % j)
                  for j, (style, outcome) in enumerate(steps)]
    feature = parse_feature(u"\n".join(lines) + u"\n", filename="gen.feature")
    if cafs:
        for scenario in feature.walk_scenarios():
            scenario.continue_after_failed_step = True

    LOOPS.clear()
    LOOPS["my_loop"] = asyncio.new_event_loop()
    LOOPS["ctxobj_loop"] = asyncio.new_event_loop()
    shared_ctxobj = AsyncContext(loop=LOOPS["ctxobj_loop"], name="shared")
    registry = make_registry(shared_ctxobj)
    config = Configuration(command_args=list(args), load_config=False)
    config.format = []
    config.reporters = []
    for run_no in range(repeat):
        log = []
        del CALLS[:]
        runner = ModelRunner(config, features=[feature], step_registry=registry)
        runner.formatters = [RecFormatter(log)]
        # -- NOTE: Hooks are not called in dry-run mode; prepare context here.
        runner.context = Context(runner)
        runner.context.my_loop = LOOPS["my_loop"]
        runner.context.used_loops = []

        def after_scenario(context, scenario):
            my_async = getattr(context, "my_async", None)
            log.append("H.after_scenario %s my_async=%s" % (
                scenario.name, type(my_async).__name__))
            if my_async is not None:
                LOOPS.setdefault("my_async_loop_%s" % scenario.name, my_async.loop)
                log.append("  my_async: name=%s should_close=%r tasks=%r closed=%r" % (
                    my_async.name, my_async.should_close, my_async.tasks,
                    my_async.loop.is_closed()))
        runner.hooks["after_scenario"] = after_scenario
        try:
            failed = runner.run_model()
            print("run#%d failed=%r aborted=%r" % (run_no, failed, runner.aborted))
        except BaseException as e:   # noqa
            print("run#%d RAISED %s: %s" % (run_no, type(e).__name__, e))
        print("  calls: %s" % " ".join(CALLS))
        print("  undefined: %s" % [s.name for s in runner.undefined_steps])
        used = runner.context.used_loops
        print("  used loops: %s" % ["%s closed=%r" % (loop_label(l), l.is_closed())
                                    for l in used])
        print("  harness loops closed: my_loop=%r ctxobj_loop=%r" % (
            LOOPS["my_loop"].is_closed(), LOOPS["ctxobj_loop"].is_closed()))
        for scenario in feature.walk_scenarios():
            print("  scenario %s: status=%s should_skip=%r" % (
                scenario.name, scenario.status.name, scenario.should_skip))
            for step in scenario.all_steps:
                print("    %s: %s exc=%s msg=%r" % (
                    step.name, step.status.name, type(step.exception).__name__,
                    norm(step.error_message)))
        print("  log:")
        for entry in log:
            print("    " + entry)
    for loop in LOOPS.values():
        if not loop.is_closed():
            loop.close()


class FakeScenario(object):
    name = "direct"

    def skip(self, reason=None):
        CALLS.append("scenario.skip(%r)" % reason)


class FakeContext(object):
    def __init__(self):
        self.scenario = FakeScenario()
        self.used_loops = []


def direct_calls():
    """Call decorated step functions directly (loop selection, kwargs, errors)."""
    print("=== direct calls")
    body = make_body("direct")
    variants = [
        ("plain", {}, {}),
        ("timeout", dict(timeout=0.05), {}),
        ("loop-name", dict(loop="the_loop"), dict(the_loop="NEW")),
        ("loop-name-missing", dict(loop="the_loop"), {}),
        ("loop-name-none", dict(loop="the_loop"), dict(the_loop=None)),
        ("loop-object", dict(loop="OBJ"), {}),
        ("loop-object+ctx", dict(loop="OBJ", async_context="actx"), {}),
        ("loop-name+ctx", dict(loop="the_loop", async_context="actx"), {}),
        ("ctx-name-new", dict(async_context="actx"), {}),
        ("ctx-name-existing", dict(async_context="actx"), dict(actx="CTX")),
        ("ctx-object", dict(async_context="CTX"), {}),
        ("ctx-object-timeout", dict(async_context="CTX", timeout=0.05), {}),
        ("ctx-bad-object", dict(async_context=42), {}),
        ("ctx-empty-name", dict(async_context=""), {}),
        ("should-close", dict(should_close=True), {}),
        ("should-close-loop", dict(loop="the_loop", should_close=True), dict(the_loop="NEW")),
        ("should-close-false", dict(should_close=False), {}),
    ]
    for (label, deco_kwargs, attrs), outcome in itertools.product(
            variants, ("pass", "fail", "exc", "slow")):
        del CALLS[:]
        LOOPS.clear()
        deco_kwargs = dict(deco_kwargs)
        context = FakeContext()
        if deco_kwargs.get("loop") == "OBJ":
            LOOPS["obj_loop"] = deco_kwargs["loop"] = asyncio.new_event_loop()
        if deco_kwargs.get("async_context") == "CTX":
            LOOPS["ctx_loop"] = asyncio.new_event_loop()
            deco_kwargs["async_context"] = AsyncContext(loop=LOOPS["ctx_loop"])
        for name, value in attrs.items():
            if value == "NEW":
                LOOPS["attr_loop"] = value = asyncio.new_event_loop()
            elif value == "CTX":
                LOOPS["attr_ctx_loop"] = asyncio.new_event_loop()
                value = AsyncContext(loop=LOOPS["attr_ctx_loop"], name=name)
            setattr(context, name, value)
        func = async_run_until_complete(**deco_kwargs)(body)
        try:
            result = func(context, outcome, "d")
            print("direct %s %s: returned %r" % (label, outcome, result))
        except BaseException as e:  # noqa
            print("direct %s %s: RAISED %s: %s" % (label, outcome, type(e).__name__, e))
        print("    calls: %s" % " ".join(CALLS))
        print("    used: %s" % ["%s closed=%r" % (loop_label(l), l.is_closed())
                                 for l in context.used_loops])
        print("    harness loops: %s" % sorted(
            "%s closed=%r" % (n, l.is_closed()) for n, l in LOOPS.items()))
        actx = getattr(context, "actx", None)
        print("    context.actx: %s%s" % (type(actx).__name__,
              "" if actx is None else " name=%s closed=%r same_as_used=%r" % (
                  actx.name, actx.loop.is_closed(),
                  bool(context.used_loops) and context.used_loops[0] is actx.loop)))
        for loop in list(LOOPS.values()) + list(context.used_loops):
            if not loop.is_closed():
                loop.close()
    # -- RAW step_decorator kwargs protocol: _loop, _timeout, ... passed by caller.
    for kwargs in (dict(_timeout=0.05), dict(_should_close=True), dict(_loop=None),
                   dict(_async_context="actx"), dict(_loop="the_loop")):
        del CALLS[:]
        context = FakeContext()
        func = async_run_until_complete(body)
        try:
            result = func(context, "pass", "raw", **kwargs)
            print("raw %s: returned %r" % (sorted(kwargs), result))
        except BaseException as e:  # noqa
            print("raw %s: RAISED %s: %s" % (sorted(kwargs), type(e).__name__, e))
        print("    calls: %s" % " ".join(CALLS))
        print("    used: %s" % ["closed=%r" % l.is_closed() for l in context.used_loops])
        print("    context.actx: %s" % type(getattr(context, "actx", None)).__name__)
        for loop in context.used_loops:
            if not loop.is_closed():
                loop.close()


def main():
    direct_calls()
    # -- every style x every outcome as first step, followed by two more steps.
    for style, outcome in itertools.product(STYLES, OUTCOMES):
        for wip, dry, cafs in ((0, 0, 0), (1, 0, 0), (0, 1, 0), (0, 0, 1)):
            scenarios = [[("plain", "pass"), (style, outcome), (style, "pass"), ("plain", "undef")],
                         [(style, "pass")]]
            run_case("style=%s outcome=%s wip=%d dry=%d cafs=%d" % (style, outcome, wip, dry, cafs),
                     scenarios, args=["--dry-run"] if dry else [], wip=bool(wip), cafs=bool(cafs))
    # -- repeated runs of the same model.
    run_case("repeat", [[("ctxname", "pass"), ("loopname", "fail"), ("ctxobj", "pass")],
                        [("ctxobj", "pass"), ("ctxname", "exc")]], repeat=3)
    # -- random mixes.
    rng = random.Random(19)
    for i in range(60):
        scenarios = [[(rng.choice(STYLES), rng.choice(("pass",) * 5 + OUTCOMES))
                      for _ in range(rng.randint(0, 6))]
                     for _ in range(rng.randint(1, 3))]
        wip, dry, cafs = [rng.random() < 0.25 for _ in range(3)]
        run_case("random#%d %r wip=%r dry=%r cafs=%r" % (i, scenarios, wip, dry, cafs),
                 scenarios, args=["--dry-run"] if dry else [], wip=wip, cafs=cafs)


if __name__ == "__main__":
    main()
