# -*- coding: UTF-8 -*-
"""
Equivalence transcript for property C10 (file-location and name selection).

Exercises, through the public API of behave.runner_util / behave.model /
behave.configuration (and ``python -m behave`` as a subprocess):

  * FileLocationParser.parse
  * FeatureLineDatabase (make, data, select_run_item_by_line,
    select_scenarios_by_line) for every line of several feature documents
  * FeatureScenarioLocationCollector / Collector1 / Collector2
  * parse_features() with 1..3 locations per file, several files, bad input
  * FeatureListParser.parse / parse_file, collect_feature_locations
  * name selection (Configuration.build_name_re, should_run_with_name_select,
    feature runs with --name)

The transcript is printed on stdout and contains no absolute temp paths.
"""

from __future__ import absolute_import, print_function
import sys
sys.path.insert(0, "/tmp/wtW/C10")

import itertools
import os
import shutil
import subprocess

from behave import parser as gherkin
from behave.configuration import Configuration
from behave.model import Feature, Rule, Scenario, ScenarioOutline
from behave.model_core import FileLocation
from behave import runner_util
from behave.runner_util import (
    FileLocationParser, FeatureLineDatabase, FeatureListParser,
    FeatureScenarioLocationCollector, FeatureScenarioLocationCollector1,
    FeatureScenarioLocationCollector2,
    parse_features, collect_feature_locations,
)

HERE = os.path.dirname(os.path.abspath(__file__))
WORK = os.path.join(HERE, "_work")
PYTHON = sys.executable


# ---------------------------------------------------------------------------
# FEATURE DOCUMENTS
# ---------------------------------------------------------------------------
FEATURES = {}
FEATURES["features/alice.feature"] = u"""\
# -- a leading comment line
@f_tag
Feature: Alice

  Some description text
  that spans two lines.

  Background: Common
    Given a step passes

  @setup
  Scenario: A0 Setup
    Given a step passes

  Scenario: A1 First
    Given a step passes
    When a step passes

    Then a step passes

  @wip @slow
  Scenario: A2 Second one
    Given a step passes
      | col1 | col2 |
      | a    | b    |
    Then a step passes

  Scenario Outline: A3 Outline <name>
    Given a step passes with "<name>"

    @ex_one
    Examples: Good
      | name  |
      | Ann   |
      | Bob   |

    Examples: Other
      | name    |
      | Charly  |

  Scenario: A4 Last
    Given a step passes
      \"\"\"
      Some text
      \"\"\"

  @teardown
  Scenario: A9 Teardown
    Given a step passes
"""

FEATURES["features/bob.feature"] = u"""\
Feature: Bob with rules

  Scenario: B1 Before rules
    Given a step passes

  Rule: R1 First rule

    Background: R1 Background
      Given a step passes

    Scenario: B2 In rule one
      Given a step passes

    Scenario Outline: B3 Outline in rule <n>
      Given a step passes with "<n>"

      Examples:
        | n |
        | 1 |
        | 2 |
        | 3 |

  @r_tag
  Rule: R2 Second rule

    @teardown
    Scenario: B4 Teardown in rule two
      Given a step passes

    Scenario: B5 In rule two
      Given a step passes

  Rule: R3 Empty rule
"""

FEATURES["features/sub/charly.feature"] = u"""\
Feature: Charly single
  Scenario: C1 Only
    Given a step passes
"""

FEATURES["features/sub/dora.feature"] = u"""\


Feature: Dora outline only

  Scenario Outline: D1 Outline
    Given a step passes with "<x>"
    Examples: E1
      | x |
      | 1 |
    Examples: E2
      | x |
    Examples: E3
      | x |
      | 7 |
      | 8 |
"""

FEATURES["features/empty_feature.feature"] = u"""\
Feature: Empty feature without scenarios
  Only a description.
"""

FEATURES["features/nothing.feature"] = u"""\
# -- only a comment, no feature at all
"""

STEPS = u"""\
from behave import step

@step(u'a step passes')
def step_passes(ctx):
    pass

@step(u'a step passes with "{value}"')
def step_passes_with(ctx, value):
    pass
"""

LISTFILES = {}
LISTFILES["all.txt"] = u"""\
# -- comment line
features/alice.feature:14

   features/alice.feature:24
  # indented comment
features/bob.feature
features/sub/charly.feature:2
"""
LISTFILES["lists/nested.txt"] = u"""\
../features/bob.feature:12
../features/bob.feature:3

../features/sub/*.feature
# -- EOF
"""
LISTFILES["lists/empty.txt"] = u""
LISTFILES["lists/comments_only.txt"] = u"#one\n\n   \n# two\n"


def setup_workdir():
    if os.path.isdir(WORK):
        shutil.rmtree(WORK)
    os.makedirs(WORK)
    files = {}
    files.update(FEATURES)
    files.update(LISTFILES)
    files["features/steps/steps.py"] = STEPS
    for name in sorted(files):
        path = os.path.join(WORK, *name.split("/"))
        dirname = os.path.dirname(path)
        if not os.path.isdir(dirname):
            os.makedirs(dirname)
        with open(path, "wb") as f:
            f.write(files[name].encode("utf-8"))


def clean(text):
    text = u"%s" % (text,)
    text = text.replace(WORK + os.sep, "<WORK>/").replace(WORK, "<WORK>")
    return text.replace(HERE + os.sep, "<HERE>/").replace(HERE, "<HERE>")


def show_exception(e):
    return "%s: %s" % (e.__class__.__name__, clean(e))


def out(*args):
    print(*[clean(a) for a in args])


def line_count(name):
    return len(FEATURES[name].splitlines())


def describe_entity(item):
    if item is None:
        return "None"
    if isinstance(item, (Feature, Rule, Scenario)):
        return "%s(%s)@%s" % (item.__class__.__name__, item.name,
                              item.location.line)
    return repr(item)


def describe_scenarios(feature):
    """Canonical description of the selection state of a feature."""
    if feature is None:
        return "None"
    parts = []
    for item in feature.walk_scenarios(with_outlines=True, with_rules=True):
        if isinstance(item, Rule):
            parts.append("R%s[%s]" % (item.location.line,
                                      "S" if item.should_skip else "-"))
        elif isinstance(item, ScenarioOutline):
            parts.append("O%s[%s]" % (item.location.line,
                                      "S" if item.should_skip else "-"))
        else:
            parts.append("%s%s:%s" % (item.location.line,
                                      "S" if item.should_skip else "+",
                                      item.status.name))
    return "%s{%s} %s" % (feature.name, "S" if feature.should_skip else "-",
                          " ".join(parts))


def try_parse_features(locations, language=None):
    try:
        features = parse_features(locations, language=language)
    except BaseException as e:  # pylint: disable=broad-except
        out("   !!", show_exception(e))
        return None
    for feature in features:
        out("   =>", describe_scenarios(feature))
    if not features:
        out("   => (no features)")
    return features


# ---------------------------------------------------------------------------
# SECTIONS
# ---------------------------------------------------------------------------
def section(title):
    out("")
    out("=" * 70)
    out(title)
    out("=" * 70)


def check_file_location_parser():
    section("FileLocationParser.parse")
    texts = [
        "alice.feature", "alice.feature:10", "alice.feature:0",
        "  alice.feature:10  ", " alice.feature ", "alice.feature:",
        "alice.feature:10:20", "alice.feature:1x", "alice.feature: 10",
        "alice.feature :10", ":10", ":", "", "   ", "a:b:3", "C:\\x\\a.feature:7",
        "features/sub/charly.feature:0012", "a.feature:-1",
        u"features/\xe4.feature:3", "x.feature:10\n", "x.feature\n:10",
        "x.feature:99999999999999999999",
    ]
    for text in texts:
        try:
            loc = FileLocationParser.parse(text)
            out(repr(text), "->", repr(loc.filename), repr(loc.line),
                type(loc).__name__)
        except BaseException as e:  # pylint: disable=broad-except
            out(repr(text), "!!", show_exception(e))
    for bad in (None, 10, b"x.feature:1"):
        try:
            loc = FileLocationParser.parse(bad)
            out(repr(bad), "->", repr(loc.filename), repr(loc.line))
        except BaseException as e:  # pylint: disable=broad-except
            out(repr(bad), "!!", e.__class__.__name__)


def check_line_database():
    section("FeatureLineDatabase")
    for name in sorted(FEATURES):
        feature = gherkin.parse_file(name)
        out("--", name, describe_entity(feature))
        if feature is None:
            continue
        entities = [feature]
        entities.extend(feature.walk_scenarios(with_outlines=True,
                                               with_rules=True))
        for entity in entities:
            for maker in ("make", "ctor", "ctor_data"):
                if maker == "make":
                    db = FeatureLineDatabase.make(entity)
                elif maker == "ctor":
                    db = FeatureLineDatabase(entity)
                else:
                    db = FeatureLineDatabase(
                        None, FeatureLineDatabase.make_line_data_for(entity))
                out("  DB[%s] for %s entity=%s" % (maker,
                    describe_entity(entity), describe_entity(db.entity)))
                out("    data:", ["%s=%s" % (k, describe_entity(v))
                                  for k, v in db.data.items()])
                for line in range(-2, line_count(name) + 4):
                    item = db.select_run_item_by_line(line)
                    scenarios = db.select_scenarios_by_line(line)
                    out("    %3d -> %s => %s %s" % (
                        line, describe_entity(item),
                        type(scenarios).__name__,
                        [describe_entity(s) for s in scenarios]))
                    # -- A fresh list must be returned each time.
                    scenarios2 = db.select_scenarios_by_line(line)
                    out("        same-object=%s equal=%s" % (
                        scenarios is scenarios2, scenarios == scenarios2))

    out("-- special databases")
    for label, args in [
        ("empty", ()),
        ("empty-list", (None, [])),
        ("strings", (None, [(3, "three"), (7, "seven")])),
        ("unsorted", (None, [(7, "seven"), (3, "three"), (5, None)])),
        ("none-entity", (None, [(2, None), (4, "four")])),
    ]:
        db = FeatureLineDatabase(*args)
        out("  DB", label, list(db.data.items()))
        for line in (0, 1, 2, 3, 4, 5, 6, 7, 8):
            for method in ("select_run_item_by_line",
                           "select_scenarios_by_line"):
                try:
                    out("    %s(%d) -> %r" % (method, line,
                                              getattr(db, method)(line)))
                except BaseException as e:  # pylint: disable=broad-except
                    out("    %s(%d) !! %s" % (method, line, show_exception(e)))
    for bad in ("text", None, 42):
        try:
            out("  make_line_data_for(%r) ->" % (bad,),
                FeatureLineDatabase.make_line_data_for(bad))
        except BaseException as e:  # pylint: disable=broad-except
            out("  make_line_data_for(%r) !! %s" % (bad, show_exception(e)))


def check_collectors():
    section("FeatureScenarioLocationCollector classes")
    collector_classes = [FeatureScenarioLocationCollector,
                         FeatureScenarioLocationCollector1,
                         FeatureScenarioLocationCollector2]
    name = "features/alice.feature"
    for collector_class in collector_classes:
        out("--", collector_class.__name__)
        # -- CONSTRUCTION VARIANTS:
        for kwargs in [
            {}, {"filename": name}, {"location": FileLocation(name, 14)},
            {"location": FileLocation(name)},
            {"location": FileLocation(name, 0)},
            {"location": FileLocation(name, 3), "filename": name},
            {"location": FileLocation(name, 3), "filename": "other.feature"},
        ]:
            shown = dict((k, str(v)) for k, v in kwargs.items())
            try:
                c = collector_class(**kwargs)
                out("  ctor", sorted(shown.items()), "->", c.feature,
                    c.filename, c.use_all_scenarios, sorted(c.scenario_lines),
                    sorted(c.all_scenarios), sorted(c.selected_scenarios))
                out("     build_feature() ->", c.build_feature())
            except BaseException as e:  # pylint: disable=broad-except
                out("  ctor", sorted(shown.items()), "!!", show_exception(e))

        # -- SELECT-SCENARIO-LINE:
        for lines in ([], [5], [5, 10, 20]):
            out("  select_scenario_line_for(*, %r):" % (lines,),
                [collector_class.select_scenario_line_for(n, lines)
                 for n in range(0, 24)])

        # -- EVERY LINE, strict and non-strict:
        for fname in ("features/alice.feature", "features/bob.feature",
                      "features/sub/dora.feature",
                      "features/empty_feature.feature"):
            for line in range(0, line_count(fname) + 3):
                for strict in (False, True):
                    feature = gherkin.parse_file(fname)
                    c = collector_class(feature)
                    c.add_location(FileLocation(fname, line))
                    try:
                        selected = c.discover_selected_scenarios(strict=strict)
                        out("  %s:%d strict=%s -> %s %s lines=%s all=%s" % (
                            fname, line, strict, type(selected).__name__,
                            sorted(s.location.line for s in selected),
                            sorted(c.scenario_lines), c.use_all_scenarios))
                    except BaseException as e:  # pylint: disable=broad-except
                        out("  %s:%d strict=%s !! %s lines=%s" % (
                            fname, line, strict, show_exception(e),
                            sorted(c.scenario_lines)))
                feature = gherkin.parse_file(fname)
                c = collector_class(feature, FileLocation(fname, line))
                try:
                    result = c.build_feature()
                    out("     build: same=%s %s" % (result is feature,
                                                    describe_scenarios(result)))
                    out("     state: lines=%s use_all=%s n_all=%d sel=%s" % (
                        sorted(c.scenario_lines), c.use_all_scenarios,
                        len(list(c.all_scenarios)),
                        sorted(s.location.line for s in c.selected_scenarios)))
                    # -- IDEMPOTENT: build again.
                    result = c.build_feature()
                    out("     again: %s" % describe_scenarios(result))
                except BaseException as e:  # pylint: disable=broad-except
                    out("     build !! %s" % show_exception(e))

        # -- SEVERAL LOCATIONS + use_all_scenarios + clear:
        feature = gherkin.parse_file(name)
        c = collector_class(feature)
        for line in (14, 24, 50):
            c.add_location(FileLocation(name, line))
        out("  multi lines:", sorted(c.scenario_lines), c.use_all_scenarios)
        try:
            out("  multi build:", describe_scenarios(c.build_feature()))
        except BaseException as e:  # pylint: disable=broad-except
            out("  multi build !!", show_exception(e))
        c.add_location(FileLocation(name))
        out("  +all:", sorted(c.scenario_lines), c.use_all_scenarios)
        feature2 = gherkin.parse_file(name)
        c.feature = feature2
        out("  +all build:", describe_scenarios(c.build_feature()))
        try:
            c.add_location(FileLocation("features/bob.feature", 3))
        except AssertionError as e:
            out("  other file !!", show_exception(e))
        c.clear()
        out("  cleared:", c.feature, c.filename, c.use_all_scenarios,
            sorted(c.scenario_lines), sorted(c.all_scenarios),
            sorted(c.selected_scenarios), c.build_feature())
        try:
            c.discover_selected_scenarios()
        except AssertionError as e:
            out("  discover without feature !!", show_exception(e))


def check_parse_features():
    section("parse_features: every line of every file")
    for name in sorted(FEATURES):
        for line in range(0, line_count(name) + 4):
            out("%s:%d" % (name, line))
            try_parse_features([FileLocation(name, line)])
        out("%s (bare string)" % name)
        try_parse_features([name])
        out("%s (bare FileLocation)" % name)
        try_parse_features([FileLocation(name)])
        out("%s:3 (as string, not parsed as location)" % name)
        try_parse_features(["%s:3" % name])

    section("parse_features: multisets of 1..3 locations of one file")
    for name, lines in [
        ("features/alice.feature", [0, 1, 3, 9, 12, 14, 15, 19, 21, 24, 30,
                                    31, 32, 33, 34, 36, 37, 39, 41, 44, 47,
                                    48, 49, 60]),
        ("features/bob.feature", [0, 1, 3, 5, 6, 10, 13, 18, 19, 20, 22, 24,
                                  25, 27, 28, 31, 33, 40]),
        ("features/sub/dora.feature", [1, 3, 5, 7, 9, 10, 12, 13, 15, 16, 20]),
    ]:
        for size in (2, 3):
            combos = list(itertools.combinations_with_replacement(lines, size))
            step = 1 if size == 2 else 7
            for combo in combos[::step]:
                for ordering in (combo, tuple(reversed(combo))):
                    out("%s %r" % (name, ordering))
                    try_parse_features([FileLocation(name, n)
                                        for n in ordering])
        # -- MIXED: line + bare filename (select all wins).
        for ordering in [(14, None), (None, 14), (14, None, 24), (0, 14),
                         (14, 0), (None, None)]:
            out("%s %r" % (name, ordering))
            try_parse_features([FileLocation(name, n) for n in ordering])

    section("parse_features: several files")
    a = "features/alice.feature"
    b = "features/bob.feature"
    c = "features/sub/charly.feature"
    d = "features/sub/dora.feature"
    e = "features/empty_feature.feature"
    n = "features/nothing.feature"
    cases = [
        [],
        [(a, 14), (b, 12)],
        [(a, 14), (a, 24), (b, 12), (b, 3), (c, 2)],
        [(a, 14), (b, 12), (a, 24)],           # -- NOT consecutive: a twice.
        [(a, 14), (n, 1), (a, 24)],            # -- nothing.feature in between
        [(n, 1), (a, 14)],
        [(n, None), (n, 1)],
        [(a, 14), (n, 1)],
        [(n, 1), (n, 2), (a, 24), (a, 14)],
        [(e, 1), (a, 14)],
        [(e, None), (e, 2), (d, 9), (d, 15)],
        [(a, None), (b, None), (c, None), (d, None)],
        [(a, 14), (a, None), (b, 12), (b, 0)],
        [(d, 9), (d, 10), (d, 16), (c, 1), (c, 3)],
        [(a, 14), ("features/missing.feature", 3), (b, 3)],
        [("features/missing.feature", None)],
        [(a, 14), ("./features/alice.feature", 24)],  # -- other spelling
        [(c, 2), (b, 24), (b, 25), (b, 27), (a, 47)],
    ]
    for case in cases:
        out("FileLocations:", case)
        try_parse_features([FileLocation(f, ln) for f, ln in case])
    string_cases = [
        [a, b], [a, a], ["./features//alice.feature", a],
        ["features/sub/../alice.feature"],
        [a, FileLocation(a, 14)], [FileLocation(a, 14), a],
        [FileLocation(b, 12), "features/./bob.feature", FileLocation(b, 3)],
        (FileLocation(c, 2),), iter([FileLocation(c, 2), FileLocation(a, 14)]),
        [FileLocation(a, 14), 42], [None], [FileLocation(a, 14), b"x"],
        [a, ["nested"]],
    ]
    for case in string_cases:
        out("mixed:", [str(x) if isinstance(x, FileLocation) else repr(x)
                       for x in (case if not hasattr(case, "__next__")
                                 else ["<iterator>"])])
        try_parse_features(case)
    out("language=de on english file:")
    try_parse_features([FileLocation(a, 14)], language="de")
    out("language=en:")
    try_parse_features([FileLocation(a, 14), FileLocation(a, 21)],
                       language="en")

    # -- ORDER OF PARSING: gherkin.parse_file call log.
    section("parse_features: parse_file call order")
    calls = []
    original_parse_file = gherkin.parse_file

    def logging_parse_file(filename, language=None):
        calls.append((clean(filename), language))
        return original_parse_file(filename, language=language)

    gherkin.parse_file = logging_parse_file
    try:
        for case in cases:
            del calls[:]
            try:
                parse_features([FileLocation(f, ln) for f, ln in case])
            except BaseException as ex:  # pylint: disable=broad-except
                calls.append(show_exception(ex))
            out(case, "=>", calls)
        del calls[:]
        try:
            parse_features([FileLocation(a, 14), 42, FileLocation(b, 3)])
        except BaseException as ex:  # pylint: disable=broad-except
            calls.append(show_exception(ex))
        out("with bad item =>", calls)
    finally:
        gherkin.parse_file = original_parse_file


def check_listfiles():
    section("FeatureListParser.parse")
    texts = [
        u"", u"\n\n", u"# only comment", u"a.feature", u"a.feature:3\nb.feature",
        u"  a.feature:3  \n\t# comment\n\nb.feature:0\n",
        u"a.feature\r\nb.feature:2\r\n", u"dir/../a.feature:7",
        u"./a.feature", u"a//b.feature:4", u"#a.feature\n #b.feature\nc.feature #x",
        u"features/*.feature", u"features/sub/*.feature",
        u"features/*/*.feature\nfeatures/alice.feature:14",
        u"features/[ab]*.feature", u"features/nomatch*.feature",
        u"features/?ob.feature", u"features/*.feature:12",
        u"/abs/path/x.feature:3", u"features/sub/charly.feature:2\n" * 3,
        LISTFILES["all.txt"], LISTFILES["lists/nested.txt"],
    ]
    heres = [None, "", ".", "lists", "features/sub", WORK,
             os.path.join(WORK, "lists")]
    for text in texts:
        for here in heres:
            try:
                locations = FeatureListParser.parse(text, here)
                out("%r here=%s -> %s %s" % (
                    text, clean(here), type(locations).__name__,
                    [(clean(loc.filename), loc.line, type(loc).__name__)
                     for loc in locations]))
            except BaseException as e:  # pylint: disable=broad-except
                out("%r here=%s !! %s" % (text, clean(here),
                                          show_exception(e)))
    out("default here:", [str(x) for x in
                          FeatureListParser.parse(u"a.feature:1\n\nb.feature")])
    for bad in (None, 42):
        try:
            FeatureListParser.parse(bad)
        except BaseException as e:  # pylint: disable=broad-except
            out("parse(%r) !! %s" % (bad, e.__class__.__name__))

    section("FeatureListParser.parse_file / collect_feature_locations")
    for listfile in ["all.txt", "@all.txt", "lists/nested.txt",
                     "@lists/nested.txt", "lists/empty.txt",
                     "lists/comments_only.txt", "missing.txt", "@missing.txt",
                     "@@all.txt", "lists", os.path.join(WORK, "all.txt")]:
        try:
            locations = FeatureListParser.parse_file(listfile)
            out(listfile, "->", [(clean(loc.filename), loc.line)
                                 for loc in locations])
            out("   parse_features:")
            try_parse_features(locations)
        except BaseException as e:  # pylint: disable=broad-except
            out(listfile, "!!", show_exception(e))

    path_cases = [
        ["features"], ["features/sub"], ["@all.txt"], ["@lists/nested.txt"],
        ["features/alice.feature:14", "features/alice.feature:24"],
        ["features/alice.feature:14", "@lists/nested.txt", "features/sub"],
        ["features/missing.feature"], ["features/missing.feature:3"],
        ["all.txt"], ["features/steps/steps.py"], ["@missing.txt"], [],
        ["features/alice.feature", "features/alice.feature:0"],
    ]
    for paths in path_cases:
        for strict in (True, False):
            try:
                locations = collect_feature_locations(paths, strict=strict)
                out(paths, "strict=%s" % strict, "->",
                    [(clean(loc.filename), loc.line) for loc in locations])
                if strict:
                    try_parse_features(locations)
            except BaseException as e:  # pylint: disable=broad-except
                out(paths, "strict=%s" % strict, "!!", show_exception(e))


def check_name_selection():
    section("name selection: build_name_re / should_run_with_name_select")
    name_lists = [
        ["A1"], ["A1 First"], ["First", "Last"], ["A[12]"], ["^A1"],
        ["one$"], ["Outline"], ["Ann"], ["Bob", "Charly"], ["-- @1.2"],
        ["Outline .* -- @2"], ["nomatch"], [""], ["A1", ""], ["a1"],
        ["(?i)a1"], ["B\\d In rule"], ["Teardown|Setup"], ["Se", "Te", "x"],
        [u"\xe4"], ["."], ["rule (one|two)"], ["D1"], ["E3"], ["@1.3 E3"],
    ]
    feature_names = [n for n in sorted(FEATURES) if n != "features/nothing.feature"]
    for names in name_lists:
        try:
            name_re = Configuration.build_name_re(names)
            out("names=%r pattern=%r flags=%d" % (names, name_re.pattern,
                                                  name_re.flags))
        except BaseException as e:  # pylint: disable=broad-except
            out("names=%r !! %s" % (names, show_exception(e)))
            continue
        config = Configuration(["--name=%s" % n for n in names],
                               load_config=False)
        out("  config.name=%r name_re=%r" % (
            config.name, config.name_re and config.name_re.pattern))
        for fname in feature_names:
            feature = gherkin.parse_file(fname)
            answers = []
            for item in feature.walk_scenarios(with_outlines=True):
                answer = item.should_run_with_name_select(config)
                if answer is True or answer is False or answer is None:
                    shown = repr(answer)
                else:
                    shown = "m%r" % (answer.span(),)
                answers.append("%s=%s/%s" % (item.location.line, shown,
                                             item.should_run(config)))
            out("  %s: %s" % (fname, " ".join(answers)))
    for bad in ([], ["("], ["a", "["], None):
        try:
            out("build_name_re(%r) -> %r" % (
                bad, Configuration.build_name_re(bad).pattern))
        except BaseException as e:  # pylint: disable=broad-except
            out("build_name_re(%r) !! %s" % (bad, e.__class__.__name__))
    config = Configuration([], load_config=False)
    out("no --name: name=%r name_re=%r" % (config.name, config.name_re))
    feature = gherkin.parse_file("features/alice.feature")
    out("  ", [item.should_run_with_name_select(config)
               for item in feature.walk_scenarios(with_outlines=True)])


def run_behave(args):
    env = dict(os.environ)
    env["PYTHONPATH"] = "/tmp/wtW/C10"
    env["PYTHONDONTWRITEBYTECODE"] = "1"
    env.pop("BEHAVE_ARGS", None)
    cmd = [PYTHON, "-m", "behave", "--no-color", "-f", "plain",
           "--no-timings", "--show-skipped"] + list(args)
    proc = subprocess.Popen(cmd, cwd=WORK, env=env, stdout=subprocess.PIPE,
                            stderr=subprocess.STDOUT)
    output = proc.communicate()[0].decode("utf-8", "replace")
    out("$ behave", " ".join(args))
    out("  returncode:", proc.returncode)
    for line in output.splitlines():
        if line.startswith("Took "):
            continue
        out("  |", line.rstrip())


def check_runs():
    section("python -m behave runs")
    runs = [
        ["features/alice.feature:14"],
        ["features/alice.feature:17"],
        ["features/alice.feature:27"],
        ["features/alice.feature:33"],
        ["features/alice.feature:38"],
        ["features/alice.feature:0"],
        ["features/alice.feature"],
        ["features/alice.feature:200"],
        ["features/alice.feature:14", "features/alice.feature:41"],
        ["features/bob.feature:6"],
        ["features/bob.feature:13", "features/bob.feature:22"],
        ["features/bob.feature:24", "features/sub/charly.feature:2"],
        ["features/alice.feature:14", "features/bob.feature:3",
         "features/alice.feature:41"],
        ["features/sub/dora.feature:16"],
        ["features/sub/dora.feature:12"],
        ["@all.txt"],
        ["@lists/nested.txt"],
        ["@lists/empty.txt"],
        ["--dry-run", "@lists/nested.txt", "features/alice.feature:21"],
        ["--name", "A1", "features/alice.feature"],
        ["--name", "First", "--name", "Last", "features/alice.feature"],
        ["--name", "Bob", "features/alice.feature"],
        ["--name", "Outline", "features"],
        ["--name", "rule (one|two)", "features/bob.feature"],
        ["--name", "nomatch", "features/alice.feature"],
        ["--name", "A[14]", "features/alice.feature:14"],
        ["--name", "A[14]", "features/alice.feature:21"],
        ["--name", "-- @1.2", "features/bob.feature:13"],
        ["--name", "(", "features/alice.feature"],
        ["features/nothing.feature:1", "features/sub/charly.feature"],
        ["features/missing.feature:3"],
    ]
    for args in runs:
        run_behave(args)


def main():
    setup_workdir()
    os.chdir(WORK)
    try:
        check_file_location_parser()
        check_line_database()
        check_collectors()
        check_parse_features()
        check_listfiles()
        check_name_selection()
        check_runs()
    finally:
        os.chdir(HERE)
        shutil.rmtree(WORK, ignore_errors=True)


if __name__ == "__main__":
    main()
