# -*- coding: UTF-8 -*-
"""
Equivalence transcript for property C16 (JUnit reports).

Part A drives the JUnit reporter in-process on model objects (hostile strings,
boundary code points, every scenario status, all userdata switches).
Part B runs ``python -m behave --junit`` as a subprocess on a generated
project with a hostile alphabet and dumps/parses every TESTS-*.xml file.

Prints a canonical transcript (durations, timestamps and hostname masked).
"""
from __future__ import absolute_import, print_function, unicode_literals
import sys
WORKTREE = "/tmp/wtU/C16"
sys.path.insert(0, WORKTREE)

import io
import os
import re
import shutil
import subprocess
from xml.etree import ElementTree as ET

HERE = os.path.dirname(os.path.abspath(__file__))
WORKDIR = os.path.join(HERE, "_work")
PYTHON = "/venv/bin/python"

OUT = io.StringIO()


def emit(*args):
    text = " ".join(a if isinstance(a, str) else repr(a) for a in args)
    OUT.write(text + "\n")


def show(label, func, *args, **kwargs):
    try:
        result = func(*args, **kwargs)
        emit(label, "=>", ascii(result))
        return result
    except BaseException as e:     # pylint: disable=broad-except
        emit(label, "!!", type(e).__name__, ascii(str(e)))
        return None


MASK_TIMES = False     # -- Durations are deterministic in part A, real in part B.


def mask(text):
    if MASK_TIMES:
        text = re.sub(r' time="[^"]*"', ' time="T"', text)
        text = re.sub(r' in \d+\.\d{3}s', ' in X.XXXs', text)
    text = re.sub(r' timestamp="[^"]*"', ' timestamp="TS"', text)
    text = re.sub(r' hostname="[^"]*"', ' hostname="HOST"', text)
    return text


def dump_xml_text(data):
    """data: bytes of a report; print masked text + independent parse."""
    text = data.decode("utf-8", "backslashreplace")
    for line in mask(text).split("\n"):
        emit("   |" + ascii(line)[1:-1])
    try:
        root = ET.fromstring(data)
    except ET.ParseError as e:
        emit("   PARSE-ERROR:", str(e))
        return
    cases = root.findall("testcase")
    n_fail = sum(1 for c in cases if c.find("failure") is not None)
    n_err = sum(1 for c in cases if c.find("error") is not None)
    n_skip = sum(1 for c in cases if c.find("skipped") is not None)
    emit("   PARSED: tag=%s attrs=%s" % (
        root.tag, [k for k in root.attrib]))
    emit("   COUNTERS: tests=%s/%d failures=%s/%d errors=%s/%d skipped=%s/%d" % (
        root.get("tests"), len(cases), root.get("failures"), n_fail,
        root.get("errors"), n_err, root.get("skipped"), n_skip))
    for c in cases:
        kids = []
        for k in c:
            attrs = dict(k.attrib)
            kids.append((k.tag, sorted(attrs.items()),
                         mask(k.text or "")))
        emit("   CASE:", ascii((c.get("classname"), c.get("name"),
                                c.get("status"), list(c.attrib))))
        for kid in kids:
            emit("      ", ascii(kid))


# ---------------------------------------------------------------------------
# PART A: in-process
# ---------------------------------------------------------------------------
HOSTILE = [
    None, "", "plain", "<&>\"'", "]]>", "]]]]>>", "a]]>b]]>c", "]]", "]>", "]] >",
    "\x00", "\x01\x08", "\t\n\r", "\x0b\x0c\x1f", " \x7e\x7f\x84\x85\x86\x9f\xa0",
    "\x1b[31mred\x1b[0m", "\x1b[1A", "\x1b[", "\x1b[12", "\x1b[12x", "\x1b[;1m",
    "\x1b[31;1m", "x\x1b[0my\x1b[99Az",
    "\u00e4\u00f6\u00fc\u20ac", "\ud7ff\ue000", "\ufdcf\ufdd0\ufddf\ufde0",
    "\ufffd\ufffe\uffff", "\U00010000\U0001f600", "\U0001fffd\U0001fffe\U0001ffff\U00020000",
    "\U0010fffd\U0010fffe\U0010ffff", "&#x0;&lt;![CDATA[", "<![CDATA[x]]>",
    "\ud800", "\udfff", "mix\x00]]>\x1b[32m\U0002fffe<&>",
]

RANGES = [
    (0x00, 0x08), (0x0B, 0x1F), (0x7F, 0x84), (0x86, 0x9F),
    (0xD800, 0xDFFF), (0xFDD0, 0xFDDF), (0xFFFE, 0xFFFF),
] + [((p << 16) | 0xFFFE, (p << 16) | 0xFFFF) for p in range(1, 0x11)]


def part_a_functions():
    from behave.reporter import junit
    from behave.formatter import ansi_escapes
    emit("== A1: module-level sanitiser")
    emit("invalid_re.pattern", ascii(junit._invalid_re.pattern))
    emit("invalid_re.flags", junit._invalid_re.flags)
    show("compile_again.pattern", lambda: junit._compile_invalid_re().pattern)
    for text in HOSTILE:
        if text is None:
            show("_escape_invalid_xml_chars(None)", junit._escape_invalid_xml_chars, None)
        else:
            show("_escape_invalid_xml_chars(%s)" % ascii(text),
                 junit._escape_invalid_xml_chars, text)
        show("escape_CDATA(%s)" % ascii(text), junit.escape_CDATA, text)
        show("strip_escapes(%s)" % ascii(text), ansi_escapes.strip_escapes, text)
        show("CDATA(%s).text" % ascii(text), lambda t=text: junit.CDATA(t).text)
    show("escape_CDATA(bytes)", junit.escape_CDATA, b"]]>")
    show("escape_CDATA(0)", junit.escape_CDATA, 0)
    show("escape_CDATA(5)", junit.escape_CDATA, 5)
    show("_escape_invalid_xml_chars(bytes)", junit._escape_invalid_xml_chars, b"x")
    show("CDATA()", lambda: junit.CDATA().text)

    # -- BOUNDARY CODE POINTS of every range.
    seen = set()
    for low, high in RANGES:
        for cp in (low - 1, low, low + 1, high - 1, high, high + 1):
            if cp < 0 or cp > 0x10FFFF or cp in seen:
                continue
            seen.add(cp)
            ch = chr(cp)
            show("U+%06X" % cp, junit._escape_invalid_xml_chars, "a" + ch + "b")
    # -- ALL code points in BMP + samples: only a digest of changed ones.
    changed = []
    for cp in range(0, 0x110000):
        if junit._escape_invalid_xml_chars(chr(cp)) != chr(cp):
            changed.append(cp)
    spans = []
    for cp in changed:
        if spans and spans[-1][1] == cp - 1:
            spans[-1][1] = cp
        else:
            spans.append([cp, cp])
    emit("CHANGED-SPANS", " ".join("%X-%X" % (a, b) for a, b in spans))
    emit("CHANGED-COUNT", len(changed))

    emit("== A2: serialisation of CDATA elements")
    for text in HOSTILE:
        if text is None:
            continue
        def make(t=text):
            root = ET.Element("system-out")
            root.set("message", junit._escape_invalid_xml_chars(t))
            root.append(junit.CDATA(t))
            root.append(junit.CDATA(""))
            child = ET.SubElement(root, "plain")
            child.text = "x"
            ET.SubElement(root, "empty")
            out = []
            for enc in ("unicode", "UTF-8", "us-ascii"):
                try:
                    out.append(ET.tostring(root, encoding=enc))
                except BaseException as e:  # pylint: disable=broad-except
                    out.append("%s:%s" % (type(e).__name__, e))
            try:
                out.append(ET.tostring(root, encoding="unicode",
                                       short_empty_elements=False))
            except BaseException as e:  # pylint: disable=broad-except
                out.append("%s:%s" % (type(e).__name__, e))
            return out
        show("tostring(%s)" % ascii(text), make)

    def tree_write():
        root = ET.Element("testsuite")
        root.append(junit.CDATA("a]]>b\x01"))
        buf = io.BytesIO()
        junit.ElementTreeWithCDATA(root).write(buf, "UTF-8")
        return buf.getvalue()
    show("ElementTreeWithCDATA.write", tree_write)
    show("CDATA(None) serialise", lambda: ET.tostring(
        _with_text(junit.CDATA(""), None), encoding="unicode"))
    show("serialize-hook-identity", lambda: (
        ET._serialize_xml is ET._serialize["xml"],
        ET._serialize_xml.__name__))


def _with_text(elem, text):
    elem.text = text
    return elem


FEATURE_TEXT = '''
@ftag @f<&>
Feature: {fname}
  Background:
    Given a background step

  @tag1 @t]]>2
  Scenario: S1 {hostile}
    Given a step with text
      """
      doc ]]> {hostile}
      """
    When a step with table
      | a<  | b&  |
      | 1]]> | {hostile} |
    Then the end

  Scenario:
    Given nameless

  Scenario Outline: SO <x> {hostile}
    Given an outline step <x>
    Then outline end <y>

    Examples: E1
      | x | y |
      | 1 | a]]>b |
      | 2 | <&> |

  Rule: R1 {hostile}
    Background:
      Given a rule background step

    Scenario: RS1
      Given a rule step
      When a second rule step
'''


class FakeConfig(object):
    def __init__(self, workdir, show_skipped=True, userdata=None, paths=None):
        from behave.userdata import UserData
        self.show_skipped = show_skipped
        self.userdata = UserData(userdata or {})
        self.paths = paths if paths is not None else [os.path.join(workdir, "features")]
        self.base_dir = workdir
        self.junit_directory = os.path.join(workdir, "reports", "deep", "dir")


def build_feature(workdir, fname, hostile, relname="features/sub/a.b.feature"):
    from behave.parser import parse_feature
    filename = os.path.join(workdir, relname)
    text = FEATURE_TEXT.format(fname=fname, hostile=hostile)
    return parse_feature(text, filename=filename)


def walk_scenarios(feature):
    from behave.model import Rule, ScenarioOutline
    for item in feature.run_items:
        if isinstance(item, Rule):
            for x in walk_scenarios(item):
                yield x
        elif isinstance(item, ScenarioOutline):
            for s in item.scenarios:
                yield s
        else:
            yield item


def raise_and_catch(exc):
    try:
        raise exc
    except BaseException as e:  # pylint: disable=broad-except
        return e, sys.exc_info()[2]


class WeirdError(Exception):
    def __str__(self):
        return "  weird \x00 ]]> \x1b[31m str \U0001fffe  "


def apply_plan(feature, plan, hostile):
    """plan: list of verbs, one per scenario (cycled)."""
    from behave.model_core import Status
    from behave.capture import Captured
    scenarios = list(walk_scenarios(feature))
    for index, scenario in enumerate(scenarios):
        verb = plan[index % len(plan)]
        steps = list(scenario.all_steps)
        for n, step in enumerate(steps):
            step.status = Status.passed
            step.duration = 0.0011 * (n + 1)
        if verb == "passed":
            pass
        elif verb == "passed+out":
            scenario.captured = Captured(stdout="out:" + hostile,
                                         stderr="err:" + hostile,
                                         log_output="log:" + hostile)
        elif verb == "bytes-out":
            scenario.captured = Captured(stdout=("o\xe4" + hostile).encode("utf-8", "replace"),
                                         stderr=("e\xe4" + hostile).encode("utf-8", "replace"))
        elif verb in ("failed", "failed-first", "error", "error-weird", "undefined",
                      "pending", "step-hook-error", "failed-noexc"):
            pos = 0 if verb == "failed-first" else len(steps) - 1
            bad = steps[pos]
            for later in steps[pos + 1:]:
                later.status = Status.skipped
            if verb in ("failed", "failed-first"):
                bad.status = Status.failed
                exc, tb = raise_and_catch(AssertionError("  assert " + hostile + "  "))
                bad.exception = exc
                bad.exc_traceback = tb
                bad.error_message = "Assertion Failed: " + hostile
                scenario.captured = Captured(stdout="so " + hostile)
            elif verb == "failed-noexc":
                bad.status = Status.failed
                bad.error_message = None
            elif verb == "error":
                bad.status = Status.error
                exc, tb = raise_and_catch(RuntimeError(hostile))
                bad.exception = exc
                bad.exc_traceback = tb
                bad.error_message = "Traceback ...\nRuntimeError: " + hostile
            elif verb == "error-weird":
                bad.status = Status.error
                exc, tb = raise_and_catch(WeirdError())
                bad.exception = exc
                bad.exc_traceback = tb
                bad.error_message = b"bytes message \xc3\xa4"
            elif verb == "undefined":
                bad.status = Status.undefined
            elif verb == "pending":
                bad.status = Status.pending
                exc, tb = raise_and_catch(NotImplementedError("pending " + hostile))
                bad.exception = exc
                bad.error_message = "pending"
            elif verb == "step-hook-error":
                bad.status = Status.hook_error
                bad.hook_failed = True
                exc, tb = raise_and_catch(ValueError("step hook " + hostile))
                bad.exception = exc
                bad.error_message = "HOOK-ERROR in before_step: " + hostile
        elif verb in ("hook-error", "hook-error-noexc", "hook-error-notb"):
            for step in steps:
                step.status = Status.untested if verb != "hook-error-notb" else Status.passed
            scenario.hook_failed = True
            if verb != "hook-error-noexc":
                exc, tb = raise_and_catch(KeyError("hook " + hostile))
                scenario.exception = exc
                scenario.exc_traceback = tb if verb == "hook-error" else None
                scenario.error_message = "  HOOK-ERROR in before_scenario: KeyError: %s  " % hostile
        elif verb == "skipped":
            for step in steps:
                step.status = Status.skipped
            scenario.set_status(Status.skipped)
        elif verb == "untested":
            for step in steps:
                step.status = Status.untested
        elif verb == "untested-undefined":
            for step in steps:
                step.status = Status.untested
            steps[-1].status = Status.undefined
            scenario.set_status(Status.untested)
        elif verb == "skipped-pending":
            for step in steps:
                step.status = Status.skipped
            steps[0].status = Status.pending
            scenario.set_status(Status.skipped)
        elif verb == "forced-failed":
            scenario.set_status(Status.failed)       # no failing step at all
        elif verb == "forced-error":
            scenario.set_status(Status.error)
        elif verb == "forced-cleanup-error":
            scenario.set_status(Status.cleanup_error)
        elif verb == "xfailed":
            scenario.set_status(Status.xfailed)
        else:
            raise ValueError(verb)
    return scenarios


PLANS = [
    ["passed"],
    ["passed+out", "failed", "error", "undefined", "skipped"],
    ["failed-first", "pending", "hook-error", "untested", "skipped-pending"],
    ["hook-error-noexc", "untested-undefined", "step-hook-error", "bytes-out", "error-weird"],
    ["forced-failed", "forced-error", "forced-cleanup-error", "xfailed", "failed-noexc"],
    ["skipped"],
    ["hook-error-notb", "skipped", "failed", "skipped", "passed"],
]

USERDATA_SETS = [
    {},
    {"behave.reporter.junit.show_timings": "false",
     "behave.reporter.junit.show_tags": "no",
     "behave.reporter.junit.show_multiline": "off",
     "behave.reporter.junit.show_timestamp": "0",
     "behave.reporter.junit.show_hostname": "false"},
    {"behave.reporter.junit.show_scenarios": "false"},
    {"behave.reporter.junit.show_skipped_always": "true"},
]


def part_a_reporter():
    from behave.reporter.junit import JUnitReporter, FeatureReportData
    from behave.model_core import Status
    emit("== A3: reporter on model objects")
    workdir = os.path.join(WORKDIR, "partA")
    fnames = ["Feat <&> ]]> \x01", ""]
    run_no = 0
    for plan in PLANS:
        for hostile in ("h", "]]>\x00\x1b[31m<&>\"\U0001fffe\xe4\x9f"):
            for show_skipped in (True, False):
                for userdata in USERDATA_SETS:
                    if userdata and hostile == "h":
                        continue
                    run_no += 1
                    if os.path.exists(workdir):
                        shutil.rmtree(workdir)
                    os.makedirs(workdir)
                    fname = fnames[run_no % 2]
                    emit("-- RUN %d plan=%s hostile=%s show_skipped=%s userdata=%s fname=%s" % (
                        run_no, plan, ascii(hostile), show_skipped,
                        sorted(userdata.items()), ascii(fname)))
                    try:
                        feature = build_feature(workdir, fname, hostile)
                    except BaseException as e:  # pylint: disable=broad-except
                        emit("PARSE-FAILED", type(e).__name__, ascii(str(e)))
                        continue
                    scenarios = apply_plan(feature, plan, hostile)
                    emit("feature.status", feature.status.name,
                         [s.status.name for s in scenarios])
                    config = FakeConfig(workdir, show_skipped, userdata)
                    reporter = JUnitReporter(config)
                    emit("switches", [reporter.show_hostname, reporter.show_multiline,
                                      reporter.show_scenarios, reporter.show_tags,
                                      reporter.show_timings, reporter.show_timestamp,
                                      reporter.show_skipped_always, reporter.show_skipped])
                    try:
                        result = reporter.feature(feature)
                        emit("feature() returned", ascii(result))
                    except BaseException as e:  # pylint: disable=broad-except
                        emit("feature() raised", type(e).__name__, ascii(str(e)))
                    emit("summary", reporter.feature_failed_counts,
                         reporter.feature_error_counts)
                    dump_reports(config.junit_directory)
                    # -- per-scenario with a fresh report object:
                    if run_no % 4 == 1:
                        report = FeatureReportData(feature, "x/y", None)
                        for scenario in scenarios:
                            try:
                                r = reporter._process_scenario(scenario, report)
                                emit("  _process_scenario ->", ascii(r),
                                     (report.counts_tests, report.counts_errors,
                                      report.counts_failed, report.counts_skipped,
                                      len(report.testcases)))
                            except BaseException as e:  # pylint: disable=broad-except
                                emit("  _process_scenario raised", type(e).__name__,
                                     ascii(str(e)))
                        emit("  classname", ascii(report.classname))
                        for scenario in scenarios:
                            for name in (u"failure", u"error", u"weird<tag"):
                                for step in (None, next(iter(scenario.all_steps), None)):
                                    if step is not None and step.exception is None:
                                        continue
                                    try:
                                        elem = reporter._make_problem_description_for(
                                            name, scenario, step)
                                        emit("  problem", ascii((
                                            elem.tag, list(elem.attrib.items()),
                                            [(k.tag, k.text) for k in elem])))
                                    except BaseException as e:  # pylint: disable=broad-except
                                        emit("  problem raised", type(e).__name__,
                                             ascii(str(e)))
    emit("== A4: small helpers")
    config = FakeConfig(workdir)
    reporter = JUnitReporter(config)
    for tags in ([], None, ["a"], ["a", "b<&>"], ("x", "y", "z"), [""]):
        show("describe_tags(%r)" % (tags,), reporter.describe_tags, tags)
    feature = build_feature(workdir, "F", "h")
    scenarios = apply_plan(feature, ["failed"], "h")
    for scenario in scenarios:
        show("describe_scenario", lambda s=scenario: mask(reporter.describe_scenario(s)))
        for step in scenario.all_steps:
            show("describe_step", lambda s=step: mask(reporter.describe_step(s)))
            show("select(failed)", lambda s=scenario: repr(
                reporter.select_step_with_status(Status.failed, s)))
            show("select_any", lambda s=scenario: repr(
                reporter.select_step_with_any_status([Status.skipped, Status.failed],
                                                     s.all_steps)))
    show("select_any(non-step)", reporter.select_step_with_any_status,
         [Status.failed], [object()])
    show("select(non-step)", reporter.select_step_with_status, Status.failed, [1])
    show("select(empty)", reporter.select_step_with_status, Status.failed, [])
    # -- make_feature_filename with several path layouts
    for paths in ([workdir], [os.path.join(workdir, "features")],
                  [os.path.join(workdir, "features", "sub")], [], ["/nowhere"],
                  [os.path.join(workdir, "features", "sub", "a.b.feature")]):
        config = FakeConfig(workdir, paths=paths)
        reporter = JUnitReporter(config)
        show("make_feature_filename(%s)" % [p.replace(workdir, "W") for p in paths],
             reporter.make_feature_filename, feature)
    # -- skipped feature shown / not shown
    for show_skipped in (True, False):
        for userdata in ({}, {"behave.reporter.junit.show_skipped_always": "true"}):
            if os.path.exists(workdir):
                shutil.rmtree(workdir)
            os.makedirs(workdir)
            feature = build_feature(workdir, "Skipped one", "h")
            apply_plan(feature, ["skipped"], "h")
            feature.set_status(Status.skipped)
            config = FakeConfig(workdir, show_skipped, userdata)
            reporter = JUnitReporter(config)
            emit("-- skipped feature show_skipped=%s userdata=%s" % (show_skipped, userdata))
            show("feature()", reporter.feature, feature)
            dump_reports(config.junit_directory)


def dump_reports(directory):
    if not os.path.isdir(directory):
        emit("   NO-REPORT-DIR")
        return
    names = sorted(os.listdir(directory))
    emit("   FILES:", ascii(names))
    for name in names:
        emit("   FILE:", ascii(name))
        with open(os.path.join(directory, name), "rb") as f:
            dump_xml_text(f.read())


# ---------------------------------------------------------------------------
# PART B: subprocess runs
# ---------------------------------------------------------------------------
H1 = "<&>\"' ]]> \x01\x08 \x1b[31mred\x1b[0m \x7f\x9f \xe4\u20ac \ufffe \U0001f600\U0001fffe"

STEPS_PY = '''# -*- coding: UTF-8 -*-
from __future__ import print_function, unicode_literals
import sys
import logging
from behave import given, when, then, step
from behave.exception import PendingStepError

H1 = %r
H2 = "\\x00\\x0b\\x0c\\x1f]]>]]>\\x85\\x1b[1A\\U0010ffff"

@given('a passing step')
@given('a passing step {text}')
def step_pass(ctx, text=None):
    pass

@when('I print hostile output')
def step_print(ctx):
    print("OUT:" + H1 + H2)
    sys.stderr.write("ERR:" + H1 + H2 + "\\n")
    logging.getLogger("hostile<&>").error("LOG:" + H1)

@then('it fails with a hostile message')
def step_fail(ctx):
    print("before failing ]]>")
    assert False, "FAILED: " + H1 + H2

@then('it raises a hostile error')
def step_error(ctx):
    sys.stderr.write("before raising \\x02\\n")
    raise RuntimeError("ERROR: " + H1 + H2)

@then('it is pending')
def step_pending(ctx):
    raise PendingStepError("PENDING: " + H1)

@given('a step with a docstring')
def step_doc(ctx):
    assert ctx.text

@given('a step with a table')
def step_table(ctx):
    assert ctx.table

@then('row {value} fails if it is "{bad}"')
def step_row(ctx, value, bad):
    print("row:", value)
    assert value != bad, "ROW %%s is bad ]]>" %% value
'''

ENV_PY = '''# -*- coding: UTF-8 -*-
from __future__ import print_function, unicode_literals
H1 = %r

def before_feature(ctx, feature):
    if "feature_hook_error" in feature.tags:
        raise RuntimeError("before_feature: " + H1)

def before_scenario(ctx, scenario):
    if "hook_error_before" in scenario.effective_tags:
        print("printed in hook ]]>")
        raise KeyError("before_scenario: " + H1)
    if "skip_in_hook" in scenario.effective_tags:
        scenario.skip("skipped by hook " + H1)

def after_scenario(ctx, scenario):
    if "hook_error_after" in scenario.effective_tags:
        assert False, "after_scenario: " + H1

def before_step(ctx, step):
    if "step_hook_error" in ctx.scenario.effective_tags and step.name.endswith("two"):
        raise ValueError("before_step: " + H1)

def after_tag(ctx, tag):
    if tag == "tag_hook_error":
        raise OSError("after_tag: " + H1)
'''

FEATURES = {
    "features/hostile.feature": '''
@f1 @tag<&>
Feature: Hostile {H} feature
  Some description ]]>

  Scenario: passes {H}
    Given a passing step
    When I print hostile output

  @t]]>
  Scenario: fails {H}
    Given a passing step {H}
    When I print hostile output
    Then it fails with a hostile message
    And a passing step after

  Scenario: errors {H}
    Given a passing step
    Then it raises a hostile error

  Scenario: undefined {H}
    Given a passing step
    When an undefined step {H}
    Then a passing step

  Scenario: pending
    Given a passing step
    Then it is pending

  @skip_me
  Scenario: skipped by tag {H}
    Given a passing step

  @skip_me
  Scenario: skipped by tag with undefined
    Given a step nobody defined ]]>

  @skip_in_hook
  Scenario: skipped in hook
    Given a passing step

  Scenario: multiline
    Given a step with a docstring
      """
      Doc {H}
        indented ]]>
      """
    And a step with a table
      | name | value |
      | a<   | ]]>   |
      | b&   | {H} |
''',
    "features/hooks.feature": '''
Feature: Hooks
  @hook_error_before
  Scenario: before hook error
    Given a passing step

  @hook_error_after
  Scenario: after hook error
    Given a passing step

  @step_hook_error
  Scenario: step hook error
    Given a passing step one
    And a passing step two
    And a passing step three

  @tag_hook_error
  Scenario: tag hook error
    Given a passing step

  Scenario: after hooks one passes
    Given a passing step
''',
    "features/sub/deep.er/outline.rule.feature": '''
Feature: Outline and rule
  Background: FB
    Given a passing step in background

  Scenario Outline: SO <value> {H}
    Given a passing step
    Then row <value> fails if it is "bad"

    Examples: Good {H}
      | value |
      | good  |
      | ]]>   |

    @skip_me
    Examples: Skipped
      | value |
      | skip1 |

    Examples: Mixed
      | value |
      | bad   |
      | <&>   |

  Rule: R1 {H}
    Background: RB
      Given a passing step in rule background

    Scenario: in rule passes
      Given a passing step

    Scenario: in rule fails
      Then it fails with a hostile message

    @skip_me
    Scenario: in rule skipped
      Given a passing step

  Rule: R2 failing background
    Background: RB2
      Given a passing step
      Then it raises a hostile error

    Scenario: in rule 2
      Given a passing step
''',
    "features/sub/allskipped.feature": '''
@skip_me
Feature: All skipped
  Scenario: s1
    Given a passing step
  Scenario: s2
    Given a passing step
''',
    "features/sub/noname.feature": '''
Feature:
  Scenario:
    Given a passing step
''',
    "features/featurehook.feature": '''
@feature_hook_error
Feature: Feature hook error {H}
  Scenario: never runs 1
    Given a passing step
  Scenario: never runs 2
    Given a passing step
''',
    "features/empty.feature": '''
Feature: Empty ]]> feature
''',
}

RUNS = [
    ("default", ["--junit"], None),
    ("no-skipped", ["--junit", "--no-skipped"], None),
    ("tags", ["--junit", "--tags=not @skip_me"], None),
    ("tags-no-skipped", ["--junit", "--tags=not @skip_me", "--no-skipped"], None),
    ("tags-no-skipped-always", ["--junit", "--tags=not @skip_me", "--no-skipped",
                                "-D", "behave.reporter.junit.show_skipped_always=true"], None),
    ("switches-off", ["--junit", "--tags=not @skip_me",
                      "-D", "behave.reporter.junit.show_timings=false",
                      "-D", "behave.reporter.junit.show_tags=false",
                      "-D", "behave.reporter.junit.show_multiline=false",
                      "-D", "behave.reporter.junit.show_timestamp=false",
                      "-D", "behave.reporter.junit.show_hostname=false"], None),
    ("no-scenarios", ["--junit", "-D", "behave.reporter.junit.show_scenarios=false",
                      "--no-capture", "--no-capture-stderr", "--no-logcapture"], None),
    ("dry-run", ["--junit", "--dry-run"], None),
    ("stop", ["--junit", "--stop"], None),
    ("subdir-path", ["--junit", "features/sub"], None),
    ("file-paths", ["--junit", "features/sub/deep.er/outline.rule.feature:9",
                    "features/hostile.feature"], None),
    ("name-select", ["--junit", "--name", "fails", "--no-skipped"], None),
]


def part_b():
    global MASK_TIMES   # pylint: disable=global-statement
    MASK_TIMES = True
    emit("== B: subprocess runs of python -m behave --junit")
    proj = os.path.join(WORKDIR, "proj")
    if os.path.exists(proj):
        shutil.rmtree(proj)
    for relname, text in sorted(FEATURES.items()):
        path = os.path.join(proj, relname)
        if not os.path.isdir(os.path.dirname(path)):
            os.makedirs(os.path.dirname(path))
        with io.open(path, "w", encoding="utf-8", newline="\n") as f:
            f.write(text.replace("{H}", H1))
    os.makedirs(os.path.join(proj, "features", "steps"))
    with io.open(os.path.join(proj, "features", "steps", "steps.py"), "w",
                 encoding="utf-8") as f:
        f.write(STEPS_PY % (H1,))
    with io.open(os.path.join(proj, "features", "environment.py"), "w",
                 encoding="utf-8") as f:
        f.write(ENV_PY % (H1,))
    env = dict(os.environ)
    env["PYTHONPATH"] = WORKTREE
    env["PYTHONIOENCODING"] = "utf-8"
    env["PYTHONDONTWRITEBYTECODE"] = "1"
    env.pop("GHERKIN_COLORS", None)
    for name, args, _ in RUNS:
        reports = os.path.join(proj, "reports." + name)
        cmd = [PYTHON, "-m", "behave", "--no-color", "-f", "null",
               "--junit-directory", reports] + args
        proc = subprocess.Popen(cmd, cwd=proj, env=env, stdout=subprocess.PIPE,
                                stderr=subprocess.PIPE)
        out, err = proc.communicate()
        emit("-- RUN %s args=%s" % (name, ascii(args)))
        emit("   returncode", proc.returncode)
        summary = [line for line in out.decode("utf-8", "replace").splitlines()
                   if re.match(r"^\d+ (features?|scenarios?|steps?|rules?) ", line)]
        emit("   summary", ascii(summary))
        dump_reports(reports)


def main():
    if os.path.exists(WORKDIR):
        shutil.rmtree(WORKDIR)
    os.makedirs(WORKDIR)
    part_a_functions()
    part_a_reporter()
    part_b()
    shutil.rmtree(WORKDIR)
    sys.stdout.write(OUT.getvalue())


if __name__ == "__main__":
    main()
