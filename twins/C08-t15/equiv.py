# -*- coding: utf-8 -*-
"""Equivalence transcript for property C08 (v1 tag expressions, auto-detection)."""
from __future__ import print_function
import sys
sys.path.insert(0, "/tmp/wtW/C08")
import itertools

from behave.tag_expression import builder as B
from behave.tag_expression.builder import make_tag_expression, TagExpressionProtocol
from behave.tag_expression.v1 import TagExpression as V1

UNIVERSE = ["a", "b", "c"]
SUBSETS = [list(s) for n in range(len(UNIVERSE) + 1)
           for s in itertools.combinations(UNIVERSE, n)]
EXTRA_TAG_SETS = [["or_tag"], ["not"], ["foo.bar", "a"], ["a*"], ["-a"], ["@a"],
                  [""], ["a", "a"], ["a:1"], ["fo", "foo"], ["and"], ["ab", "b"]]


def describe(obj):
    parts = [type(obj).__name__]
    for name in ("ands", "limits"):
        if hasattr(obj, name):
            value = getattr(obj, name)
            if isinstance(value, dict):
                value = sorted(value.items())
            parts.append("%s=%r" % (name, value))
    try:
        parts.append("str=%r" % str(obj))
    except Exception as e:  # pragma: no cover
        parts.append("str!%s:%s" % (type(e).__name__, e))
    try:
        parts.append("repr=%r" % repr(obj))
    except Exception as e:  # pragma: no cover
        parts.append("repr!%s:%s" % (type(e).__name__, e))
    try:
        parts.append("len=%r" % len(obj))
    except Exception as e:
        parts.append("len!%s" % type(e).__name__)
    return " ".join(parts)


def truth_table(obj, tag_sets):
    bits = []
    for tags in tag_sets:
        try:
            result = obj.check(tags)
            bits.append({True: "1", False: "0"}.get(result, repr(result)))
        except Exception as e:
            bits.append("E(%s:%s)" % (type(e).__name__, e))
    return "".join(bits)


def observe(label, text_or_seq, protocol):
    try:
        obj = make_tag_expression(text_or_seq, protocol)
    except Exception as e:
        print("%s | %r | %s -> RAISED %s: %s" % (
            label, text_or_seq, protocol.name, type(e).__name__, e))
        return
    print("%s | %r | %s -> %s | tt=%s | xt=%s" % (
        label, text_or_seq, protocol.name, describe(obj),
        truth_table(obj, SUBSETS), truth_table(obj, EXTRA_TAG_SETS)))
    # -- ALSO: check() with other iterable kinds
    for tags in (("a", "b"), set(["c"]), frozenset(), iter(["a"]), "abc", {"a": 1}):
        kind = type(tags).__name__
        try:
            print("    check(%s) = %r" % (kind, obj.check(tags)))
        except Exception as e:
            print("    check(%s) RAISED %s: %s" % (kind, type(e).__name__, e))


V1P = TagExpressionProtocol.V1
V2P = TagExpressionProtocol.V2
AUTO = TagExpressionProtocol.AUTO_DETECT

# ---------------------------------------------------------------------------
print("== SECTION 1: CNF formulas, all renderings, v1 and auto_detect")
NEGATIONS = ["", "-", "~"]
ATS = ["", "@"]


def literals(tag):
    for neg in NEGATIONS:
        for at in ATS:
            yield neg + at + tag


def clauses(max_alternatives):
    lits = [l for t in UNIVERSE for l in literals(t)]
    for m in range(1, max_alternatives + 1):
        for combo in itertools.combinations(lits, m):
            # keep the enumeration tractable: distinct tags within one clause
            names = [c.lstrip("-~@") for c in combo]
            if len(set(names)) == len(names):
                yield ",".join(combo)


ALL_CLAUSES = list(clauses(2))
count = 0
for n in (1, 2):
    pool = ALL_CLAUSES if n == 1 else ALL_CLAUSES[::7]
    for groups in itertools.product(pool, repeat=n):
        count += 1
        groups = list(groups)
        for protocol in (V1P, AUTO):
            observe("list", groups, protocol)
            observe("tuple", tuple(groups), protocol)
            observe("text", " ".join(groups), protocol)
print("formulas:", count)

print("== SECTION 2: three groups, three alternatives, limits")
SAMPLES3 = [
    ["a,b,c", "-a,-b", "~@c,@a"],
    ["@a,-@b,~c", "b", "-c"],
    ["a:3", "b:2,c:1", "-a:3"],
    ["@a:3,-@b:4", "~@b:4"],
    ["-a:1,b:2,~c:3", "a:1", "c:3,b:2"],
    ["a:1", "a:2"],
    ["a:1,-a:2"],
    ["a:x"],
    ["a:"],
    ["a:1:2"],
    ["a:1:x"],
    [":3"],
    ["-:3"],
    ["a: 3 "],
    ["a:-1"],
    ["a:0", "a:00"],
    ["a:1.5"],
]
for groups in SAMPLES3:
    for protocol in (V1P, AUTO):
        observe("list", groups, protocol)
        observe("text", " ".join(groups), protocol)

print("== SECTION 3: v2 renderings under auto_detect / v2 / v1")
V2_TEXTS = [
    "a", "@a", "not a", "not @a", "a and b", "a or b", "@a and not @b",
    "(a or b) and not c", "(a or b) and (not c or a)", "not (a and b)",
    "a and b and c", "a or b or c", "not not a", "(a)", "((a))", "( a )",
    "a*", "*a", "a?", "foo.* and a", "not a*", "[ab]", "a and (b", "a b and",
    "or_tag", "nota", "android", "a or_tag", "not", "and", "or", "()", "(", ")",
    "a or not", "not or_tag", "a andb", "anda b", "notb", "a  and  b",
    "a\tand\tb", " a and b ", "@a  or  @b",
]
for text in V2_TEXTS:
    for protocol in (AUTO, V2P, V1P):
        observe("text", text, protocol)
for seq in (["a or b", "not c"], ["a", "not b"], ["@a and @b"], ["(a", "b)"],
            ["a*", "b"], ["not a", "b or c", "c"]):
    for protocol in (AUTO, V2P, V1P):
        observe("list", seq, protocol)

print("== SECTION 4: mixed / boundary shapes")
MIXED = [
    "-a and b", "~a or b", "not -a", "(-a)", "( ~a )", "-a*", "~a?", "a,b and c",
    "a,b or c", "a, b", "a ,b", ",", ",,", "a,", ",a", "-", "~", "@", "-@", "~@",
    "--a", "~~a", "-~a", "~-a", "@@a", "@-a", "@~a", "a-b", "a~b", "a@b", "a-",
    "", " ", "   ", "a b", "a  b", "a b c", "-a", "~a", "-@a", "~@a", "-a -b",
    "-a,b", "a,-b", "not,a", "a,not", "and,or", "a and", "-a b and", "(a,b)",
    "a(b)", "-a(b", "a)-b", "x-y and z", "-a not", "~a (", "a, -b and c",
    " -a ", "\t~a\n", "-a\tb", "a,b,c", "a,b,c d,e f", "-a,-b,-c", "~a,~b ~c",
    "@a,@b @c", "a:1,b", "-a:2", "a,b:1 and c", u"\xe4,\xf6", u"-\xe4", u"\xe4 and a",
    u"\xe4", u"~@\xfc \xe4",
]
for text in MIXED:
    for protocol in (AUTO, V1P):
        observe("text", text, protocol)
    for protocol in (AUTO, V1P):
        observe("list1", [text], protocol)
for seq in ([], (), [""], ["", ""], ["a", ""], ["-a", "b and c"], ["~a", "(b)"],
            ["a,b", "c*"], ["-a", "b*"], ["a", "b"], ["a"], ["-a"], [" a , b "],
            [" -@a , ~@b ", "@c"], ["a b"], ["a b", "c"], ["-a b", "c,d"]):
    for protocol in (AUTO, V1P, V2P):
        observe("seq", seq, protocol)

print("== SECTION 5: wrong argument types")
for bad in (None, 42, 4.5, {"a": 1}, set(["a"]), b"a,b", iter(["a"]), [1, 2], [None],
            ["a", 1], ("a", None)):
    for protocol in (AUTO, V1P, V2P):
        label = "bad"
        try:
            obj = make_tag_expression(bad, protocol)
            print("%s | %s | %s -> %s" % (label, type(bad).__name__, protocol.name,
                                          describe(obj)))
        except Exception as e:
            print("%s | %s | %s -> RAISED %s: %s" % (
                label, type(bad).__name__, protocol.name, type(e).__name__,
                (e.args[0], e.args[-1] is bad) if type(bad).__name__.endswith("iterator") else e))

print("== SECTION 6: protocol plumbing")
print(TagExpressionProtocol.choices())
print([m.name for m in TagExpressionProtocol])
print(TagExpressionProtocol.STRICT is V2P, TagExpressionProtocol.DEFAULT is AUTO)
for member in TagExpressionProtocol:
    print(member.name, getattr(member._parse_func, "__name__", member._parse_func))
for name in ("v1", "V2", "auto_detect", "strict", "Strict", "default", "any", ""):
    try:
        print("from_name(%r) = %s" % (name, TagExpressionProtocol.from_name(name).name))
    except Exception as e:
        print("from_name(%r) RAISED %s: %s" % (name, type(e).__name__, e))
print("current:", TagExpressionProtocol.current().name)
for text in ("a b", "-a", "a and b", "-a and b", "a"):
    try:
        print("default-protocol %r -> %s" % (text, describe(make_tag_expression(text))))
    except Exception as e:
        print("default-protocol %r RAISED %s: %s" % (text, type(e).__name__, e))
TagExpressionProtocol.use("v1")
print("current:", TagExpressionProtocol.current().name)
for text in ("a b", "-a", "a and b", "-a and b", "a"):
    print("v1-default %r -> %s" % (text, describe(make_tag_expression(text))))
TagExpressionProtocol.use(AUTO)
print("current:", TagExpressionProtocol.current().name)
for member in TagExpressionProtocol:
    for text in ("a,b -c", "a or b", "-a or b"):
        try:
            print("parse[%s] %r -> %s" % (member.name, text, describe(member.parse(text))))
        except Exception as e:
            print("parse[%s] %r RAISED %s: %s" % (member.name, text, type(e).__name__, e))

print("== SECTION 7: selected parser for auto-detection")
for text in V2_TEXTS + MIXED:
    for arg in (text, [text], (text, "x")):
        try:
            print("select %r -> %s" % (arg, B._select_tag_expression_parser4auto(arg).__name__))
        except Exception as e:
            print("select %r RAISED %s: %s" % (arg, type(e).__name__, e))
for bad in (None, 3, {"a"}, b"a"):
    try:
        print("select %r -> %s" % (bad, B._select_tag_expression_parser4auto(bad).__name__))
    except Exception as e:
        print("select %s RAISED %s: %r" % (type(bad).__name__, type(e).__name__, e.args))

print("== SECTION 8: v1 TagExpression direct API")
NORMALIZE_INPUTS = [
    "a", "@a", "-a", "~a", "-@a", "~@a", "@-a", "@~a", "@@a", "--a", "~~a", "-~a",
    "~-a", "-@@a", "~@@a", "~@-a", "-", "~", "@", "-@", "~@", "", " ", " a ", " @a ",
    " -@a ", "\t~@a\n", "- a", "~ @a", "@ a", "a@", "a-", "a~", "a:1", "-@a:1", "~a:2",
    u"\xe4", u"~@\xe4", u"@\xe4", "-@ a", "~@~@a",
]
for text in NORMALIZE_INPUTS:
    result = V1.normalize_tag(text)
    print("normalize_tag(%r) = %r %s" % (text, result, type(result).__name__))
    result2 = V1([]).normalize_tag(text)
    assert result2 == result
for text in ("a,b", " a , b ", "-@a,~@b,@c", "", ",", "a,,b", " ~a ,@ b", "a"):
    gen = V1.normalized_tags_from_or(text)
    print("normalized_tags_from_or(%r) -> %s %r" % (text, type(gen).__name__, list(gen)))
for bad in (None, 3, ["a"]):
    try:
        gen = V1.normalized_tags_from_or(bad)
        print("normalized_tags_from_or(%s) -> %s" % (type(bad).__name__, type(gen).__name__))
        print(list(gen))
    except Exception as e:
        print("normalized_tags_from_or(%s) RAISED %s: %s" % (
            type(bad).__name__, type(e).__name__, e))
    try:
        print(V1.normalize_tag(bad))
    except Exception as e:
        print("normalize_tag(%s) RAISED %s: %s" % (type(bad).__name__, type(e).__name__, e))

expr = V1([])
print(describe(expr), expr.check([]), expr.check(None), expr.check(["a"]), expr.to_string(),
      expr.to_string(pretty=False))
for step in (["a", "-b"], [], ["c:3"], ["-c:3", "d:4"], ["c:3", "-d:4"], iter(["e:5", "f"]),
             ["d:5"], ["-c:4", "x:1"], ["g:1", "-g:2", "h:7"], ["i:1", "j:zz", "k:2"], ["-"],
             ["-:1"], ["", ":"], ):
    shown = step if isinstance(step, list) else "iterator"
    try:
        result = expr.store_and_extract_limits(step)
        print("store(%r) -> %r | %s" % (shown, result, describe(expr)))
    except Exception as e:
        print("store(%r) RAISED %s: %s | %s" % (shown, type(e).__name__, e, describe(expr)))
print("tt:", truth_table(expr, SUBSETS), truth_table(expr, EXTRA_TAG_SETS))
for tags in (None, 5, [["a"]], [None], [1, 2]):
    try:
        print("check(%r) = %r" % (tags, expr.check(tags)))
    except Exception as e:
        print("check(%r) RAISED %s: %s" % (tags, type(e).__name__, e))

# -- CHECK evaluation on hand-made state (ands is public state)
expr2 = V1(["a"])
for ands in ([], [[]], [["a"], []], [["-a"]], [["-"]], [[""]], [["a", "-a"]], [["-a", "-b"], ["c"]],
             [["a", "a"]], [["-a", "-a"]], [("a", "-b")], (("a",), ("-b",)), [["--a"]], [["~a"]],
             [["@a"]], [["a:1"]], [iter(["a", "b"])]):
    expr2.ands = ands
    shown = "iterator-clause" if ands and not isinstance(ands[0], (list, tuple)) else repr(ands)
    print("ands=%s -> tt=%s xt=%s" % (shown, truth_table(expr2, SUBSETS),
                                      truth_table(expr2, EXTRA_TAG_SETS + [["--a"], ["~a"], ["-a", "a"]])))


class Recording(V1):
    log = []

    @staticmethod
    def normalize_tag(tag):
        Recording.log.append(("normalize_tag", tag))
        return V1.normalize_tag(tag)

    def store_and_extract_limits(self, tags):
        tags = list(tags)
        Recording.log.append(("store", tags))
        return V1.store_and_extract_limits(self, tags)


rec = Recording(["@a,-@b:2", "~c", " d:1 , e "])
print(describe(rec))
for entry in Recording.log:
    print("   ", entry)

print("== SECTION 9: builder helpers")
WORDS = [[], ["a"], ["and"], ["a", "or"], ["nota"], ["a,b"], [","], ["-a"], ["~a"], ["a-"],
         ["a*"], ["a?", "b"], ["[a]"], ["("], ["a", ")"], ["a", "b", "not"], ["--"], ["", "a"]]
for words in WORDS:
    print("words=%r is_kw=%r has_kw=%r wild=%r starts=%r starts_none=%r kw_none=%r" % (
        words,
        B._any_word_is_keyword(words, ["and", "or", "not", "(", ")"]),
        B._any_word_contains_keyword(words, [","]),
        B._any_word_contains_wildcards(words),
        B._any_word_starts_with(words, ["~", "-"]),
        B._any_word_starts_with(words, []),
        B._any_word_is_keyword(words, []),
    ))
for func in (B._parse_tag_expression_v1, B._parse_tag_expression_v2):
    for arg in ("a,b -c", ["a,b", "-c"], ("a",), "", [], "a  b", "@a and @b", None, 7):
        try:
            print("%s(%r) -> %s" % (func.__name__, arg, describe(func(arg))))
        except Exception as e:
            print("%s(%r) RAISED %s: %r" % (func.__name__, arg, type(e).__name__, e.args))
print("== DONE")
