# -*- coding: UTF-8 -*-
"""
Equivalence transcript for property C04 (Gherkin parsing is faithful).

Exercises behave.parser (parse_feature, parse_file, parse_steps, parse_step,
parse_scenario, parse_rule, parse_tags, Parser used directly and subclassed)
and behave.model_describe (ModelDescriptor, ModelPrinter) on handcrafted,
boundary and randomly rendered documents (fixed seed) in all languages of the
keyword table and prints a canonical transcript.
"""
from __future__ import absolute_import, print_function
import sys
sys.path.insert(0, "/tmp/wtX/C04")

import io
import logging
import os
import random
import tempfile

from behave import i18n, model, parser
from behave.parser import Parser, ParserError, State
from behave.model_describe import ModelDescriptor, ModelPrinter

OUT = []


def emit(text=u""):
    OUT.append(text)


class ListHandler(logging.Handler):
    def __init__(self):
        logging.Handler.__init__(self)
        self.records = []

    def emit(self, record):
        self.records.append(u"%s:%s" % (record.levelname, record.getMessage()))


LOG = ListHandler()
_logger = logging.getLogger("behave")
_logger.addHandler(LOG)
_logger.setLevel(logging.DEBUG)
_logger.propagate = False


# ---------------------------------------------------------------------------
# CANONICAL DUMP
# ---------------------------------------------------------------------------
def d_tags(tags):
    return u"[%s]" % u", ".join(u"%s@%s" % (t, getattr(t, "line", "?")) for t in tags)


def d_table(table, ind):
    if table is None:
        emit(u"%stable: None" % ind)
        return
    emit(u"%stable@%s headings=%r" % (ind, table.line, list(table.headings)))
    for row in table.rows:
        emit(u"%s  row@%s cells=%r headings=%r" % (ind, row.line, list(row.cells),
                                                   list(row.headings)))


def d_step(step, ind):
    emit(u"%sstep@%s kw=%r type=%r name=%r file=%r" % (
        ind, step.line, step.keyword, step.step_type, step.name, step.filename))
    if step.text is not None:
        emit(u"%s  text@%s ctype=%r %r" % (ind, step.text.line,
                                           step.text.content_type, u"%s" % step.text))
    if step.table is not None:
        d_table(step.table, ind + u"  ")


def d_background(background, ind):
    if background is None:
        emit(u"%sbackground: None" % ind)
        return
    emit(u"%sbackground@%s kw=%r name=%r descr=%r file=%r" % (
        ind, background.line, background.keyword, background.name,
        list(background.description), background.filename))
    for step in background.steps:
        d_step(step, ind + u"  ")
    inherited = getattr(background, "inherited_steps", None)
    if inherited:
        emit(u"%s  inherited=%r" % (ind, [(s.line, s.step_type, s.name)
                                          for s in inherited]))


def d_scenario(scenario, ind):
    kind = type(scenario).__name__
    emit(u"%s%s@%s kw=%r name=%r tags=%s descr=%r file=%r" % (
        ind, kind, scenario.line, scenario.keyword, scenario.name,
        d_tags(scenario.tags), list(scenario.description), scenario.filename))
    for step in scenario.steps:
        d_step(step, ind + u"  ")
    if isinstance(scenario, model.ScenarioOutline):
        for ex in scenario.examples:
            emit(u"%s  examples@%s kw=%r name=%r tags=%s" % (
                ind, ex.line, ex.keyword, ex.name, d_tags(ex.tags)))
            d_table(ex.table, ind + u"    ")
        try:
            generated = scenario.scenarios
            for sc in generated:
                emit(u"%s  generated@%s name=%r tags=%s steps=%r" % (
                    ind, sc.line, sc.name, d_tags(sc.tags),
                    [(s.line, s.step_type, s.keyword, s.name) for s in sc.steps]))
        except Exception as e:     # pylint: disable=broad-except
            emit(u"%s  generated: %s: %s" % (ind, type(e).__name__, e))


def d_container_items(container, ind):
    for item in container.run_items if hasattr(container, "run_items") else []:
        if isinstance(item, model.Rule):
            d_rule(item, ind)
        else:
            d_scenario(item, ind)


def d_rule(rule, ind):
    emit(u"%sRule@%s kw=%r name=%r tags=%s descr=%r file=%r" % (
        ind, rule.line, rule.keyword, rule.name, d_tags(rule.tags),
        list(rule.description), rule.filename))
    d_background(rule.background, ind + u"  ")
    emit(u"%s  scenarios=%d" % (ind, len(rule.scenarios)))
    d_container_items(rule, ind + u"  ")


def d_parser(p, ind):
    emit(u"%sparser: state=%s line=%s last_step_type=%r tags=%s lines=%r "
         u"table=%r examples=%r language=%r variant=%r ml=(%r,%r,%r)" % (
             ind, p.state.name, p.line, p.last_step_type, d_tags(p.tags),
             p.lines, p.table is not None, p.examples is not None, p.language,
             p.variant, p.multiline_start, p.multiline_leading,
             p.multiline_terminator))


def d_feature(feature, ind=u"  "):
    if feature is None:
        emit(u"%sfeature: None" % ind)
        return
    emit(u"%sFeature@%s kw=%r name=%r tags=%s descr=%r lang=%r file=%r" % (
        ind, feature.line, feature.keyword, feature.name, d_tags(feature.tags),
        list(feature.description), feature.language, feature.filename))
    d_background(feature.background, ind + u"  ")
    emit(u"%s  scenarios=%d rules=%d" % (ind, len(feature.scenarios),
                                        len(feature.rules)))
    d_container_items(feature, ind + u"  ")
    p = getattr(feature, "parser", None)
    if p is not None:
        d_parser(p, ind + u"  ")


def d_any(obj, ind=u"  "):
    if obj is None:
        emit(u"%sNone" % ind)
    elif isinstance(obj, model.Feature):
        d_feature(obj, ind)
    elif isinstance(obj, model.Rule):
        d_rule(obj, ind)
    elif isinstance(obj, model.Scenario):
        d_scenario(obj, ind)
    elif isinstance(obj, model.Background):
        d_background(obj, ind)
    elif isinstance(obj, model.Step):
        d_step(obj, ind)
    elif isinstance(obj, list):
        emit(u"%slist(%d)" % (ind, len(obj)))
        for x in obj:
            if isinstance(x, model.Tag):
                emit(u"%s  tag %s@%s" % (ind, x, x.line))
            else:
                d_any(x, ind + u"  ")
    else:
        emit(u"%s%r" % (ind, obj))


def observe(label, func, *args, **kwargs):
    emit(u"== %s" % label)
    del LOG.records[:]
    try:
        result = func(*args, **kwargs)
    except Exception as e:     # pylint: disable=broad-except
        emit(u"  RAISED %s: %s" % (type(e).__name__, e))
        emit(u"    args=%r line=%r line_text=%r filename=%r" % (
            e.args, getattr(e, "line", None), getattr(e, "line_text", None),
            getattr(e, "filename", None)))
    else:
        d_any(result)
    for rec in LOG.records:
        emit(u"  LOG %s" % rec)


# ---------------------------------------------------------------------------
# HANDCRAFTED DOCUMENTS
# ---------------------------------------------------------------------------
DOCS = [
(u"empty", u""),
(u"blank-only", u"\n   \n\t\n"),
(u"comment-only", u"# just a comment\n  # another\n"),
(u"tags-only", u"@a @b\n"),
(u"feature-only", u"Feature: F"),
(u"feature-no-name", u"Feature:"),
(u"feature-descr", u"Feature: F\n  In order to x\n  As a y\n\n  I want z\n"),
(u"simple", u"""
@f1 @f2   # trailing comment
@f3
Feature: Simple   feature
  Description line 1
    Description line 2

  Background: Bg name
    Bg description
    Given a background step
    And another bg step

  @s1
  # comment between tags
  @s2 @s3 # more
  Scenario: First
    Scenario description
    Given a step
    When an action:
      \"\"\"
      Doc line 1
        indented line 2

      last | line
      \"\"\"
    Then a result with table
      | a | b  |  c|
      | 1 | 2\\|3 |   |
      |   |     | x |
    But nothing else
    * generic step

  Example: Second (alias)
    * generic first
    Given then
    and lowercase and
    BUT uppercase but

  @o1
  Scenario Outline: Outline <x>
    Given a <x> step
    Then a <y> result
      | col |
      | <x> |

    @e1 @e2
    Examples: First table
      | x | y |
      | 1 | 2 |
      | 3 | 4 |

    Examples:
      | x | y |

    @e3
    Scenarios: Alias table
      | x | y |
      | a\\|b | c |

  Scenario Template: Template alias
    When <a>
    Examples: T
      | a |
      | q |
"""),
(u"rules", u"""# language: en
@ft
Feature: With rules
  Background:
    Given feature bg

  Scenario: Before rules
    And inherits from bg
    Then ok

  @r1
  Rule: First rule
    Rule description 1
    Rule description 2

    Background: Rule bg
      When rule bg step

    Example: R1 E1
      But inherits when
      Then fine

    @so
    Scenario Outline: R1 SO
      Given <n>
      Examples:
        | n |
        | 1 |

  Rule: Second rule without background
    Scenario: R2 S1
      And from feature bg
  Rule: Third rule, empty

  @r4a
  @r4b
  Rule: Fourth rule
    Background: no steps
      only description
    Scenario: R4 S1
      * star inherits
      Given x
      * star after given
"""),
(u"single-quote-docstring", u"""Feature: Q
  Scenario: S
    Given text:
        '''
        single quoted
          \"\"\" inside
        '''
    And more text
      \"\"\"
      '''
      inner single
      '''
      \"\"\"
    Then empty text
      \"\"\"
      \"\"\"
    And windows text\r
      \"\"\"\r
      line with CR\r
      \"\"\"\r
"""),
(u"docstring-last-line-unterminated", u"Feature: Q\n  Scenario: S\n    Given t\n      \"\"\"\n      abc\n"),
(u"docstring-bad-indent", u"Feature: Q\n  Scenario: S\n    Given t\n      \"\"\"\n   abc\n      \"\"\"\n"),
(u"docstring-before-step", u"Feature: Q\n  Scenario: S\n    Given a\n  Scenario: T\n"
                           u"    descr\n    Given b\n  @t\n  Scenario: U\n    Given c\n      \"\"\"\n      x\n      \"\"\"\n"),
(u"docstring-no-step", u"Feature: Q\n  Background:\n    Given z\n  Scenario: S\n    When w\n    \"\"\"\n"),
(u"table-at-eof", u"Feature: Q\n  Scenario: S\n    Given t\n      | a |\n      | 1 |"),
(u"table-malformed-row", u"Feature: Q\n  Scenario: S\n    Given t\n      | a | b\n      | 1 | 2 |\n"),
(u"table-wrong-cells", u"Feature: Q\n  Scenario: S\n    Given t\n      | a | b |\n      | 1 |\n"),
(u"table-then-step", u"Feature: Q\n  Scenario: S\n    Given t\n      | a |\n    When u\n      | b |\n      | 2 |\n  Scenario: T\n    Given v\n"),
(u"table-then-garbage", u"Feature: Q\n  Scenario: S\n    Given t\n      | a |\n    garbage line\n"),
(u"table-backslashes", u"Feature: Q\n  Scenario: S\n    Given t\n      | a\\\\ | b |\n      | \\\\|c | \\\\\\|d |\n"),
(u"table-backslash-pipe", u"Feature: Q\n  Scenario: S\n    Given t\n      | a | b |\n      | x\\\\| y |\n"),
(u"table-empty-row", u"Feature: Q\n  Scenario: S\n    Given t\n      ||\n      |  |\n      |\n"),
(u"examples-then-scenario", u"Feature: Q\n  Scenario Outline: O\n    Given <a>\n    Examples:\n      | a |\n      | 1 |\n  @n\n  Scenario: N\n    Given n\n"),
(u"examples-descr-garbage", u"Feature: Q\n  Scenario Outline: O\n    Given <a>\n    Examples:\n      some description\n      | a |\n"),
(u"examples-in-scenario", u"Feature: Q\n  Scenario: S\n    Given a\n    Examples:\n      | a |\n"),
(u"examples-in-background", u"Feature: Q\n  Background: B\n    Given a\n    Examples:\n      | a |\n"),
(u"examples-no-outline-steps", u"Feature: Q\n  Scenario Outline: O\n    Examples:\n      | a |\n      | 1 |\n"),
(u"two-features", u"Feature: A\n  Scenario: S\n    Given a\nFeature: B\n"),
(u"two-features-descr", u"Feature: A\nFeature: B\n"),
(u"scenario-before-feature", u"Scenario: S\n  Given a\n"),
(u"outline-before-feature", u"Scenario Outline: S\n  Given a\n"),
(u"rule-before-feature", u"Rule: R\n"),
(u"background-before-feature", u"Background: B\n"),
(u"tags-then-rule-before-feature", u"@x\nRule: R\n"),
(u"garbage-before-feature", u"Some text\nFeature: F\n"),
(u"background-with-tags", u"Feature: F\n  @t1 @t2\n  Background: B\n"),
(u"second-background", u"Feature: F\n  Background: B\n    Given a\n  Background: C\n    Given b\n"),
(u"second-background-nosteps", u"Feature: F\n  Background: B\n  Background: C\n    Given b\n"),
(u"background-after-scenario", u"Feature: F\n  Scenario: S\n    Given a\n  Background: C\n    Given b\n"),
(u"background-after-scenario-nosteps", u"Feature: F\n  Scenario: S\n  Background: C\n"),
(u"rule-second-background", u"Feature: F\n  Rule: R\n    Background: B\n      Given a\n    Background: C\n"),
(u"tag-then-garbage", u"Feature: F\n  @t\n  garbage\n"),
(u"tag-then-background", u"Feature: F\n  Scenario: S\n    Given a\n  @t\n  Background: B\n"),
(u"bad-tag", u"Feature: F\n  @t bad @u\n  Scenario: S\n"),
(u"bad-tag-initial", u"@t bad\nFeature: F\n"),
(u"and-without-given", u"Feature: F\n  Scenario: S\n    And orphan\n"),
(u"but-without-given", u"Feature: F\n  Background:\n  Scenario: S\n    But orphan\n"),
(u"star-without-given", u"Feature: F\n  Scenario: S\n    * orphan star\n    And then and\n"),
(u"and-after-star-only", u"Feature: F\n  Background:\n    * bg star\n  Scenario: S\n    And what\n"),
(u"steps-garbage", u"Feature: F\n  Scenario: S\n    Given a\n    garbage here\n"),
(u"language-unknown", u"# language: xx-unknown\nFeature: F\n"),
(u"language-after-tags", u"@t\n# language: de\nFeature: F\n"),
(u"language-upper", u"#   LANGUAGE:  de  \nFunktionalit\xe4t: F\n  Szenario: S\n    Angenommen a\n    Wenn b\n    Dann c\n    Und d\n    Aber e\n"),
(u"language-twice", u"# language: fr\n# language: de\nFunktionalit\xe4t: F\n"),
(u"language-comment-plain", u"# not language\n#language:fr\nFonctionnalit\xe9: F\n  Sc\xe9nario: S\n    Soit a\n    Quand b\n    Alors c\n"),
(u"keyword-no-colon", u"Feature F\n"),
(u"keyword-like-description", u"Feature: F\n  Scenario outline text\n  Scenario: S\n    Givenchy is no step\n    Given a\n    Whenever\n    Thenable\n"),
(u"step-no-space", u"Feature: F\n  Scenario: S\n    Givena\n    Given\n    given  lower  \n    WHEN upper\n    *star\n"),
(u"step-keyword-in-descr", u"Feature: F\n  Scenario: S\n    description first\n    Given a\n    description later is garbage\n"),
(u"indent-tabs", u"\tFeature: F\n\t\t@t\n\t\tScenario: S\n\t\t\tGiven a\n\t\t\t\t\"\"\"\n\t\t\t\ttext\n\t\t\t\t\"\"\"\n\t\t\t\t|\ta\t|\n"),
(u"scenario-title-only-chain", u"Feature: F\n  Scenario: A\n  Scenario: B\n  Scenario Outline: C\n  Scenario: D\n    desc\n  @x\n  Scenario: E\n"),
(u"comment-in-steps-and-table", u"Feature: F\n  Scenario: S\n    # c1\n    Given a\n    # c2\n      | h |\n      # c3\n      | v |\n    # c4\n    When b\n      \"\"\"\n      # not a comment\n\n      \"\"\"\n"),
(u"examples-tags-multi", u"Feature: F\n  Scenario Outline: O\n    Given <a>\n    @e1\n    # c\n    @e2 @e3\n    Examples: E\n      | a |\n      | 1 |\n    @e4\n    Examples: E2\n      | a |\n      | 2 |\n    @s\n    Scenario: Next\n      Given n\n"),
(u"rule-tagged-after-steps", u"Feature: F\n  Scenario: S\n    Given a\n      | t |\n  @r\n  Rule: R\n    descr\n    @e\n    Example: E\n      Given b\n  Rule: R2\n    Background:\n      Given c\n"),
]

STEPS_DOCS = [
(u"steps-empty", u""),
(u"steps-simple", u"Given a\nWhen b\nThen c\nAnd d\nBut e\n* f\n"),
(u"steps-star-first", u"* a\nGiven b\n* c\n"),
(u"steps-and-first", u"And a\n"),
(u"steps-text-table", u"Given a\n  \"\"\"\n  text\n    more\n  \"\"\"\nWhen b:\n  | x | y |\n  | 1 | 2 |\nThen c\n"),
(u"steps-table-eof", u"  Given a\n    | x |\n    | 1 |"),
(u"steps-table-first", u"| x |\n"),
(u"steps-text-first", u"\"\"\"\nx\n\"\"\"\n"),
(u"steps-garbage", u"Given a\nnonsense\n"),
(u"steps-scenario-inside", u"Given a\nScenario: X\n  Given b\n"),
(u"steps-tags-inside", u"Given a\n@t\nScenario: X\n  When b\n"),
(u"steps-examples-inside", u"Given a\nExamples:\n  | a |\n"),
(u"steps-malformed-table", u"Given a\n  | x | y\n  | 1 | 2 |\n"),
(u"steps-comment", u"# c\nGiven a\n  # c\nWhen b\n"),
(u"steps-bad-indent", u"Given a\n    \"\"\"\n  x\n    \"\"\"\n"),
]

SCENARIO_DOCS = [
(u"sc-empty", u""),
(u"sc-simple", u"Scenario: S\n  descr\n  Given a\n  And b\n"),
(u"sc-tagged", u"@a @b\n@c\nScenario: S\n  Given a\n"),
(u"sc-outline", u"@o\nScenario Outline: O\n  Given <a>\n  @e\n  Examples: E\n    | a |\n    | 1 |\n"),
(u"sc-no-header-step", u"Given a\n"),
(u"sc-no-header-descr", u"some text\n"),
(u"sc-two", u"Scenario: A\n  Given a\nScenario: B\n  Given b\n"),
(u"sc-rule", u"Rule: R\n"),
(u"sc-examples-first", u"Examples:\n  | a |\n"),
(u"sc-background", u"Background: B\n  Given a\n"),
]

RULE_DOCS = [
(u"rule-empty", u""),
(u"rule-simple", u"@r\nRule: R\n  descr\n  Background: B\n    Given bg\n  Scenario: S\n    And a\n"),
(u"rule-no-header-descr", u"some text\n"),
(u"rule-no-header-scenario", u"Scenario: S\n  Given a\n"),
(u"rule-no-header-background", u"Background: B\n  Given a\n"),
(u"rule-outline", u"Rule: R\n  Scenario Outline: O\n    Given <a>\n    Examples:\n      | a |\n      | 1 |\n  Example: E\n    Given e\n"),
(u"rule-two", u"Rule: A\n  Example: E\n    Given e\nRule: B\n"),
]

TAG_TEXTS = [
    u"", u"@a", u"@a @b", u"  @a\t@b  # comment @c", u"@a\n@b @c\n  @d # x\n@e",
    u"@a b", u"# only comment", u"@", u"@@x", u"@a#b @c", u"@a #b @c",
    u"@with:colon @with=eq @with.dot", u"x", u"@a\n\n@b",
]


# ---------------------------------------------------------------------------
# RANDOM DOCUMENTS (abstract tree rendered with random layout)
# ---------------------------------------------------------------------------
def rnd_noise(rng, out):
    for _ in range(rng.choice([0, 0, 0, 1, 2])):
        out.append(rng.choice([u"", u"   ", u"# a comment", u"\t# another one"]))


def rnd_ind(rng):
    return rng.choice([u"", u" ", u"  ", u"    ", u"\t", u"      "])


def rnd_tags(rng, out, prefix):
    for n in range(rng.choice([0, 0, 1, 2])):
        tags = u" ".join(u"@%s%d_%d" % (prefix, n, i)
                         for i in range(rng.randint(1, 3)))
        if rng.random() < 0.3:
            tags += u"   # trailing @notatag"
        out.append(rnd_ind(rng) + tags)
        rnd_noise(rng, out)


def rnd_steps(rng, kws, out, allow_and):
    have_type = allow_and
    for n in range(rng.randint(0, 5)):
        kinds = ["given", "when", "then"]
        if have_type:
            kinds += ["and", "but"]
        kind = rng.choice(kinds)
        kw = rng.choice(kws[kind])
        if kw.startswith(u"*") and rng.random() < 0.7:
            kw = rng.choice(kws[kind])
        have_type = have_type or not kw.startswith(u"*") or False
        if kw.startswith(u"*") and not have_type:
            pass
        else:
            have_type = True
        ind = rnd_ind(rng)
        out.append(u"%s%sstep %d with <p>" % (ind, kw, n))
        rnd_noise(rng, out)
        what = rng.random()
        if what < 0.2:
            quote = rng.choice([u'"""', u"'''"])
            dind = ind + u"  "
            out.append(dind + quote)
            for m in range(rng.randint(0, 3)):
                out.append(rng.choice([dind + u"doc %d" % m, dind + u"   deeper | x",
                                       u"", dind + u"# no comment", dind + u"@notag"]))
            out.append(dind + quote)
        elif what < 0.4:
            cols = rng.randint(1, 3)
            out.append(ind + u"  |" + u"|".join(u" h%d " % c for c in range(cols)) + u"|")
            for m in range(rng.randint(0, 3)):
                cells = [rng.choice([u"", u" ", u" v ", u"a\\|b", u" <p> ", u" \\\\ x"])
                         for c in range(cols)]
                out.append(ind + u"  |" + u"|".join(cells) + u"|")
                if rng.random() < 0.2:
                    out.append(ind + u"# comment in table")


def rnd_scenario(rng, kws, out, idx, has_bg_steps):
    rnd_tags(rng, out, u"s%d" % idx)
    if rng.random() < 0.35:
        kw = rng.choice(kws["scenario_outline"])
        out.append(u"%s%s: Outline %d  " % (rnd_ind(rng), kw, idx))
        outline = True
    else:
        kw = rng.choice(kws["scenario"])
        out.append(u"%s%s:Scenario %d" % (rnd_ind(rng), kw, idx))
        outline = False
    rnd_noise(rng, out)
    for n in range(rng.choice([0, 0, 1, 2])):
        out.append(rnd_ind(rng) + u"free description %d ..." % n)
    rnd_steps(rng, kws, out, has_bg_steps)
    if outline:
        for n in range(rng.randint(0, 3)):
            rnd_noise(rng, out)
            rnd_tags(rng, out, u"e%d" % n)
            kw = rng.choice(kws["examples"])
            out.append(u"%s%s: Ex %d" % (rnd_ind(rng), kw, n))
            rnd_noise(rng, out)
            if rng.random() < 0.9:
                out.append(rnd_ind(rng) + u"| p | q |")
                for m in range(rng.randint(0, 3)):
                    out.append(rnd_ind(rng) + u"| %d |  |" % m)
                    rnd_noise(rng, out)


def rnd_background(rng, kws, out):
    kw = rng.choice(kws["background"])
    out.append(u"%s%s: %s" % (rnd_ind(rng), kw, rng.choice([u"", u"Setup"])))
    for n in range(rng.choice([0, 0, 1])):
        out.append(rnd_ind(rng) + u"background description")
    before = len(out)
    rnd_steps(rng, kws, out, False)
    return len(out) > before


def rnd_document(rng, lang, with_header):
    kws = i18n.languages[lang]
    out = []
    if with_header:
        out.append(u"# language: %s" % lang)
    rnd_noise(rng, out)
    rnd_tags(rng, out, u"f")
    out.append(u"%s%s: Feature in %s" % (rnd_ind(rng), rng.choice(kws["feature"]), lang))
    for n in range(rng.choice([0, 1, 2])):
        out.append(rnd_ind(rng) + u"feature description %d" % n)
    rnd_noise(rng, out)
    has_bg = False
    if rng.random() < 0.5:
        has_bg = rnd_background(rng, kws, out)
    idx = 0
    for _ in range(rng.randint(0, 3)):
        idx += 1
        rnd_noise(rng, out)
        rnd_scenario(rng, kws, out, idx, has_bg)
    for r in range(rng.choice([0, 0, 1, 2])):
        rnd_noise(rng, out)
        rnd_tags(rng, out, u"r%d" % r)
        out.append(u"%s%s: Rule %d" % (rnd_ind(rng), rng.choice(kws["rule"]), r))
        for n in range(rng.choice([0, 1])):
            out.append(rnd_ind(rng) + u"rule description")
        rule_bg = has_bg
        if rng.random() < 0.5:
            rule_bg = rnd_background(rng, kws, out) or has_bg
        for _ in range(rng.randint(0, 2)):
            idx += 1
            rnd_noise(rng, out)
            rnd_scenario(rng, kws, out, idx, rule_bg)
    return u"\n".join(out) + rng.choice([u"", u"\n", u"\n\n"])


def all_aliases_document(lang):
    """One document per language that uses EVERY alias of EVERY keyword."""
    kws = i18n.languages[lang]
    out = [u"# language: %s" % lang]
    out.append(u"%s: All aliases" % kws["feature"][-1])
    out.append(u"  %s: bg" % kws["background"][-1])
    out.append(u"    %sbg step" % [k for k in kws["given"] if not k.startswith(u"*")][0])
    n = 0
    for kw in kws["scenario"]:
        n += 1
        out.append(u"  @sc%d" % n)
        out.append(u"  %s: scenario %d" % (kw, n))
        for kind in ("given", "when", "then", "and", "but"):
            for skw in kws[kind]:
                out.append(u"    %sstep for %s" % (skw, kind))
                out.append(u"    %sLOWER for %s" % (skw.lower(), kind))
    for kw in kws["scenario_outline"]:
        n += 1
        out.append(u"  %s: outline %d" % (kw, n))
        out.append(u"    %s<a>" % kws["when"][-1])
        for ekw in kws["examples"]:
            out.append(u"    @ex")
            out.append(u"    %s: examples" % ekw)
            out.append(u"      | a |")
            out.append(u"      | 1 |")
    for kw in kws["rule"]:
        out.append(u"  %s: rule" % kw)
        for bkw in kws["background"][:1]:
            out.append(u"    %s: rule bg" % bkw)
            out.append(u"      %srule bg step" % kws["then"][-1])
        out.append(u"    %s: in rule" % kws["scenario"][0])
        out.append(u"      %sfirst is and" % kws["and"][-1])
    return u"\n".join(out) + u"\n"


# ---------------------------------------------------------------------------
# SUBCLASS (overrides the hook points that the parser dispatches to)
# ---------------------------------------------------------------------------
class TracingParser(Parser):
    def __init__(self, *args, **kwargs):
        super(TracingParser, self).__init__(*args, **kwargs)
        self.trace = []

    def _build_scenario_statement(self, keyword, line):
        self.trace.append((u"scenario", self.line, keyword, self.state.name))
        return super(TracingParser, self)._build_scenario_statement(keyword, line)

    def _build_rule_statement(self, keyword, line):
        self.trace.append((u"rule", self.line, keyword, self.state.name))
        return super(TracingParser, self)._build_rule_statement(keyword, line)

    def _build_examples(self, keyword, line):
        self.trace.append((u"examples", self.line, keyword, self.state.name))
        return super(TracingParser, self)._build_examples(keyword, line)

    def match_keyword(self, keyword, line):
        result = super(TracingParser, self).match_keyword(keyword, line)
        self.trace.append((u"match", self.line, keyword, result))
        return result

    def parse_step(self, line):
        result = super(TracingParser, self).parse_step(line)
        self.trace.append((u"parse_step", self.line, line,
                           result and (result.step_type, result.keyword),
                           self.last_step_type))
        return result

    def action(self, line):
        before = self.state.name
        try:
            return super(TracingParser, self).action(line)
        finally:
            self.trace.append((u"action", self.line, before, self.state.name))

    def action_table(self, line):
        self.trace.append((u"action_table", self.line, line))
        return super(TracingParser, self).action_table(line)


def traced(kind, text, language=None):
    variant = {u"feature": None}.get(kind, kind)
    p = TracingParser(language, variant=variant)
    try:
        if kind == u"feature":
            result = p.parse(text, u"traced.feature")
        elif kind == u"steps":
            result = p.parse_steps(text, u"traced.steps")
        elif kind == u"scenario":
            result = p.parse_scenario(text, u"traced.scenario")
        else:
            result = p.parse_rule(text, u"traced.rule")
    finally:
        for item in p.trace:
            emit(u"  TRACE %r" % (item,))
        d_parser(p, u"  ")
    return result


# ---------------------------------------------------------------------------
# DESCRIBE (renderers)
# ---------------------------------------------------------------------------
def describe_all(feature):
    if feature is None:
        return
    steps = []
    if feature.background:
        steps.extend(feature.background.steps)
    for sc in feature.walk_scenarios(with_outlines=True):
        steps.extend(sc.steps)
        if isinstance(sc, model.ScenarioOutline):
            for ex in sc.examples:
                if ex.table is not None:
                    emit(u"  DESCRIBE examples@%s: %r" % (
                        ex.line, ModelDescriptor.describe_table(ex.table, u"  ")))
    for step in steps:
        if step.table is not None:
            for indentation in (None, u"", u"    "):
                emit(u"  DESCRIBE table@%s ind=%r: %r" % (
                    step.table.line, indentation,
                    ModelDescriptor.describe_table(step.table, indentation)))
            stream = io.StringIO()
            ModelPrinter(stream).print_table(step.table, u"\t")
            emit(u"  PRINT table: %r" % stream.getvalue())
        if step.text is not None:
            for indentation in (None, u"", u"  "):
                emit(u"  DESCRIBE text@%s ind=%r: %r" % (
                    step.text.line, indentation,
                    ModelDescriptor.describe_docstring(step.text, indentation)))
            stream = io.StringIO()
            ModelPrinter(stream).print_docstring(step.text, u"  ")
            emit(u"  PRINT text: %r" % stream.getvalue())


def describe_direct():
    emit(u"== describe direct")
    tables = [
        model.Table([u"a", u"bb"], rows=[[u"1", u"22222"], [u"", u"x|y"]], line=3),
        model.Table([u"only"]),
        model.Table([]),
        model.Table([], rows=[[], []]),
        model.Table([u"multi\nline", u"back\\slash"], rows=[[u"\u00e4\u00f6", u"|"]]),
        model.Table([u"a", u"b"], rows=[[u"1", u"2", u"extra"]]),
        model.Table([u"a", u"b"], rows=[[u"short"]]),
        model.Table([u"a"], rows=[[model.Text(u"te|xt", u"text/plain", 7)]]),
    ]
    for n, table in enumerate(tables):
        for indentation in (None, u"..", u""):
            try:
                text = ModelDescriptor.describe_table(table, indentation)
                emit(u"  table[%d] ind=%r -> %s %r" % (n, indentation,
                                                       type(text).__name__, text))
            except Exception as e:     # pylint: disable=broad-except
                emit(u"  table[%d] ind=%r RAISED %s: %s" % (n, indentation,
                                                           type(e).__name__, e))
    for doc in (u"", u"one", u"a\n  b\n\nc", u'with """ quotes', u"'''",
                model.Text(u'x"""y', u"text/plain", 3)):
        for indentation in (None, u"  ", u""):
            text = ModelDescriptor.describe_docstring(doc, indentation)
            emit(u"  doc %r ind=%r -> %s %r" % (doc, indentation,
                                                type(text).__name__, text))


# ---------------------------------------------------------------------------
# DIRECT STEP-KEYWORD SCAN (Parser.parse_step, Parser._has_longer_step_keyword)
# ---------------------------------------------------------------------------
def direct_parse_step():
    emit(u"#### direct parse_step in every language")
    for lang in sorted(i18n.languages):
        kws = i18n.languages[lang]
        lines = []
        for kind in ("given", "when", "then", "and", "but"):
            for kw in kws[kind]:
                lines.extend([kw + u"x y", kw.lower() + u"x", kw.upper() + u"X",
                              kw.rstrip(), kw[:-1] + u"q", u" " + kw + u"x",
                              kw + kw + u"z"])
        lines.extend([u"", u"*", u"* ", u"**", u"no keyword", u"|", u"@tag"])
        for last in (None, u"when"):
            p = Parser(lang)
            p.reset(u"direct.feature")
            for n, line in enumerate(lines):
                p.line = n + 1
                p.last_step_type = last
                try:
                    step = p.parse_step(line)
                    if step is None:
                        text = u"None"
                    else:
                        text = u"%r/%r/%r@%s" % (step.keyword, step.step_type,
                                                 step.name, step.line)
                except Exception as e:     # pylint: disable=broad-except
                    text = u"RAISED %s: %s" % (type(e).__name__, e)
                emit(u"  %s last=%r %r -> %s ; last_step_type=%r longer=%r" % (
                    lang, last, line, text, p.last_step_type,
                    [p._has_longer_step_keyword(line, kw)
                     for kw in (u"", u"* ", kws["given"][-1], kws["and"][-1])]))
    # -- AND/BUT: Best effort with background steps (feature, rule, inherited).
    p = Parser()
    p.reset()
    p.feature = model.Feature(u"x.feature", 1, u"Feature", u"F")
    p.scenario_container = p.feature
    emit(u"  no background: %r" % p._select_last_background_step_type())
    background = model.Background(u"x.feature", 2, u"Background", u"")
    p.feature.add_background(background)
    emit(u"  empty background: %r" % p._select_last_background_step_type())
    background.steps.append(model.Step(u"x.feature", 3, u"Then", u"then", u"t"))
    emit(u"  background: %r" % p._select_last_background_step_type())
    for line in (u"And a", u"But b", u"* c"):
        p.last_step_type = None
        step = p.parse_step(line)
        emit(u"  %r -> %r/%r last_step_type=%r" % (line, step.keyword,
                                                 step.step_type, p.last_step_type))
    try:
        Parser(variant="steps").parse_step(u"Given a")
    except Exception as e:     # pylint: disable=broad-except
        emit(u"  no keywords: RAISED %s: %s" % (type(e).__name__, e))


# ---------------------------------------------------------------------------
# BEHAVE RUN (formatters/reporters that render tables and doc-strings)
# ---------------------------------------------------------------------------
RUN_FEATURE = u'''@f
Feature: Render
  Background:
    Given a table
      | name  | value with \\| pipe |
      | a     |                  |
      | bcdef | x                |
  Scenario: Texts
    When a text
      """
      line 1
        line 2 with single quotes and | pipe
      """
    Then a failing table
      | x |
      | \\\\ y |
  Scenario Outline: O <n>
    Given a <n> step
      | col <n> |
      | <n><n>  |
    Examples: E
      | n   |
      | 1   |
      | two |
'''

RUN_STEPS = u'''# -*- coding: UTF-8 -*-
from behave import step

@step(u'a table')
def step_table(ctx):
    assert ctx.table is not None

@step(u'a text')
def step_text(ctx):
    assert ctx.text

@step(u'a failing table')
def step_failing(ctx):
    assert False, u"table=%r" % [list(r) for r in ctx.table]

@step(u'a {n} step')
def step_n(ctx, n):
    ctx.execute_steps(u"""
        Given a table
          | a | b |
          | 1 | 2 |
        When a text
          \'\'\'
          nested
          \'\'\'
    """)
'''


def behave_run():
    import re
    import shutil
    import subprocess
    emit(u"#### behave run")
    here = os.path.dirname(os.path.abspath(__file__))
    workdir = os.path.join(here, "_tmp_run")
    if os.path.isdir(workdir):
        shutil.rmtree(workdir)
    os.makedirs(os.path.join(workdir, "features", "steps"))
    with io.open(os.path.join(workdir, "features", "render.feature"), "w",
                 encoding="utf8") as f:
        f.write(RUN_FEATURE)
    with io.open(os.path.join(workdir, "features", "steps", "steps.py"), "w",
                 encoding="utf8") as f:
        f.write(RUN_STEPS)
    env = dict(os.environ)
    env["PYTHONPATH"] = "/tmp/wtX/C04"
    env["PYTHONDONTWRITEBYTECODE"] = "1"
    env["PYTHONIOENCODING"] = "utf8"
    env.pop("BEHAVE_STRIP_STEPS_WITH_TRAILING_COLON", None)
    for fmt in ("plain", "pretty", "steps.code", "json.pretty"):
        cmd = [sys.executable, "-m", "behave", "-f", fmt, "--no-color", "-T",
               "--no-capture", "features"]
        if fmt == "plain":
            cmd[-1:-1] = ["--junit", "--junit-directory", "reports"]
        proc = subprocess.Popen(cmd, cwd=workdir, env=env, stdout=subprocess.PIPE,
                                stderr=subprocess.STDOUT)
        output = proc.communicate()[0].decode("utf8")
        output = re.sub(r"Took \d+m[\d.]+s", "Took <T>", output)
        output = re.sub(r'"duration": [\d.e-]+', '"duration": <T>', output)
        output = output.replace(workdir, u"<WORKDIR>")
        emit(u"== behave -f %s: rc=%s" % (fmt, proc.returncode))
        for line in output.splitlines():
            emit(u"  | " + line)
    reports = os.path.join(workdir, "reports")
    for name in sorted(os.listdir(reports)):
        with io.open(os.path.join(reports, name), encoding="utf8") as f:
            text = f.read()
        text = re.sub(r'(time|timestamp|hostname)="[^"]*"', r'\1="<X>"', text)
        text = re.sub(r" in \d+\.\d+s", " in <T>s", text)
        text = text.replace(workdir, u"<WORKDIR>")
        emit(u"== junit %s" % name)
        for line in text.splitlines():
            emit(u"  | " + line)
    shutil.rmtree(workdir)


# ---------------------------------------------------------------------------
# MAIN
# ---------------------------------------------------------------------------
def main():
    for label, text in DOCS:
        observe(u"parse_feature %s" % label, parser.parse_feature, text)
        observe(u"parse_feature+file %s" % label, parser.parse_feature, text,
                None, u"some/%s.feature" % label)
    for label, text in DOCS:
        emit(u"== describe %s" % label)
        try:
            describe_all(parser.parse_feature(text))
        except ParserError as e:
            emit(u"  (parse error)")

    emit(u"#### language argument")
    de = DOCS[[l for l, _ in DOCS].index(u"language-upper")][1]
    observe(u"lang=de arg, no header", parser.parse_feature,
            de.split(u"\n", 1)[1], u"de")
    observe(u"lang=fr arg, header de", parser.parse_feature, de, u"fr")
    observe(u"lang=unknown arg", parser.parse_feature, u"Feature: F\n", u"xx")
    observe(u"non-unicode text", parser.parse_feature, b"Feature: F\n")

    emit(u"#### parse_file")
    here = os.path.dirname(os.path.abspath(__file__))
    os.chdir(here)
    tmpdir = os.path.join(here, "_tmp_parse_file")
    if not os.path.isdir(tmpdir):
        os.mkdir(tmpdir)
    for n, (label, text) in enumerate(DOCS):
        if n % 3 and label not in (u"simple", u"rules", u"language-upper"):
            continue
        path = os.path.join(tmpdir, u"doc%02d.feature" % n)
        with open(path, "wb") as f:
            f.write(text.encode("utf8"))
        emit(u"== parse_file %s" % label)
        del LOG.records[:]
        try:
            feature = parser.parse_file(path)
            d_feature(feature)
            emit(u"  filename ok: %r" % (feature is None or feature.filename == path))
        except Exception as e:     # pylint: disable=broad-except
            emit(u"  RAISED %s: %s" % (type(e).__name__,
                                       (u"%s" % e).replace(tmpdir, u"<TMP>")))
        for rec in LOG.records:
            emit(u"  LOG %s" % rec.replace(tmpdir, u"<TMP>"))
        os.remove(path)
    os.rmdir(tmpdir)

    emit(u"#### parse_steps / parse_step")
    for label, text in STEPS_DOCS:
        observe(u"parse_steps %s" % label, parser.parse_steps, text)
        observe(u"parse_steps+file %s" % label, parser.parse_steps, text,
                None, u"steps.py")
        observe(u"parse_step %s" % label, parser.parse_step, text)
    observe(u"parse_steps de", parser.parse_steps,
            u"Angenommen a\nUnd b\n* c\nWenn d\nAber e\n", u"de")
    observe(u"parse_steps de wrong lang", parser.parse_steps,
            u"Angenommen a\n", u"en")

    emit(u"#### parse_scenario")
    for label, text in SCENARIO_DOCS:
        observe(u"parse_scenario %s" % label, parser.parse_scenario, text)
        observe(u"parse_scenario+file %s" % label, parser.parse_scenario, text,
                None, u"x.scenario")
    observe(u"parse_scenario fr", parser.parse_scenario,
            u"@t\nSc\xe9nario: S\n  Soit a\n  Et b\n", u"fr")

    emit(u"#### parse_rule")
    for label, text in RULE_DOCS:
        observe(u"parse_rule %s" % label, parser.parse_rule, text)
        observe(u"parse_rule+file %s" % label, parser.parse_rule, text,
                None, u"x.rule")

    emit(u"#### parse_tags")
    for text in TAG_TEXTS:
        observe(u"parse_tags %r" % text, parser.parse_tags, text)

    emit(u"#### traced subclass")
    by_label = dict(DOCS)
    for label in (u"simple", u"rules", u"examples-tags-multi", u"table-then-step",
                  u"two-features", u"tag-then-background", u"and-without-given",
                  u"rule-tagged-after-steps", u"table-at-eof",
                  u"scenario-before-feature"):
        observe(u"traced feature %s" % label, traced, u"feature", by_label[label])
    for label, text in STEPS_DOCS[:8]:
        observe(u"traced steps %s" % label, traced, u"steps", text)
    for label, text in SCENARIO_DOCS[:5]:
        observe(u"traced scenario %s" % label, traced, u"scenario", text)
    for label, text in RULE_DOCS[:4]:
        observe(u"traced rule %s" % label, traced, u"rule", text)

    emit(u"#### parser reuse (same Parser object, several texts)")
    p = Parser()
    for label in (u"simple", u"language-upper", u"steps-garbage", u"rules",
                  u"table-at-eof"):
        observe(u"reuse parse %s" % label, p.parse, by_label[label], u"reuse.feature")
        d_parser(p, u"  ")
    observe(u"reuse parse_steps", p.parse_steps, u"Given a\n  | x |\n  | 1 |")
    d_parser(p, u"  ")
    observe(u"reuse parse_tags", p.parse_tags, u"@a @b # c")
    observe(u"match_keyword w/o keywords", Parser(variant="tags").match_keyword,
            u"feature", u"Feature: x")
    observe(u"unknown state STEP", Parser()._parse_loop, u"Given a\n", State.STEP)

    emit(u"#### every alias of every keyword in every language")
    for lang in sorted(i18n.languages):
        text = all_aliases_document(lang)
        observe(u"aliases %s (header)" % lang, parser.parse_feature, text)
        observe(u"aliases %s (argument)" % lang, parser.parse_feature,
                text.split(u"\n", 1)[1], lang)

    emit(u"#### random documents")
    rng = random.Random(20240404)
    langs = sorted(i18n.languages)
    for n in range(240):
        lang = langs[n % len(langs)]
        with_header = bool(n % 2)
        text = rnd_document(rng, lang, with_header)
        emit(u"-- text %d: %r" % (n, text))
        if with_header:
            observe(u"random %d %s" % (n, lang), parser.parse_feature, text)
        else:
            observe(u"random %d %s" % (n, lang), parser.parse_feature, text, lang)
        if n % 8 == 0:
            try:
                describe_all(parser.parse_feature(text, None if with_header else lang))
            except ParserError:
                emit(u"  (parse error)")

    describe_direct()
    direct_parse_step()
    behave_run()

    data = u"\n".join(OUT) + u"\n"
    if sys.version_info[0] < 3:
        data = data.encode("utf8")
        sys.stdout.write(data)
    else:
        sys.stdout.buffer.write(data.encode("utf8"))


if __name__ == "__main__":
    main()
