# -*- coding: UTF-8 -*-
"""Equivalence transcript for property C19 (active tags).

Exercises behave.tag_matcher / behave.active_tag.* through their public
behaviour and prints a canonical transcript (results, call logs, log records,
exception types and messages).
"""
from __future__ import absolute_import, print_function
import sys
sys.path.insert(0, "/tmp/wtU/C19")

import itertools
import logging
import operator

import behave
assert behave.__file__.startswith("/tmp/wtU/C19/"), behave.__file__
from behave import tag_matcher as tm
from behave.tag_matcher import (
    ActiveTagMatcher, CompositeTagMatcher, PredicateTagMatcher, TagMatcher,
    ValueObject, NumberValueObject, BoolValueObject,
    ActiveTagValueProvider, CompositeActiveTagValueProvider,
    IActiveTagValueProvider, bool_to_string, setup_active_tag_values,
    print_active_tags)
from behave.active_tag import python as at_python
from behave.active_tag import python_feature as at_python_feature
from behave._types import Unknown


# ---------------------------------------------------------------------------
# SUPPORT
# ---------------------------------------------------------------------------
LOG = []


class RecordingHandler(logging.Handler):
    def emit(self, record):
        LOG.append("LOG[%s/%s] %s" % (record.name, record.levelname,
                                      record.getMessage()))


_logger = logging.getLogger("behave.active_tags")
_logger.addHandler(RecordingHandler())
_logger.propagate = False
_logger.setLevel(logging.DEBUG)


def flush_log(indent="    "):
    for line in LOG:
        print("%s%s" % (indent, line))
    del LOG[:]


def section(title):
    print()
    print("=" * 70)
    print(title)
    print("=" * 70)


def attempt(label, func, *args, **kwargs):
    try:
        result = func(*args, **kwargs)
        print("%s -> %r" % (label, result))
    except BaseException as e:     # pylint: disable=broad-except
        print("%s !! %s: %s" % (label, e.__class__.__name__, e))
    flush_log()


def show_bits(values):
    return "".join("1" if v is True else "0" if v is False else "?(%r)" % (v,)
                   for v in values)


class RecordingDict(dict):
    """dict value provider that records get() calls."""
    def __init__(self, name, *args, **kwargs):
        dict.__init__(self, *args, **kwargs)
        self.name = name

    def get(self, key, default=None):
        LOG.append("%s.get(%r, %s)" % (self.name, key,
                   "Unknown" if default is Unknown else repr(default)))
        return dict.get(self, key, default)


class GetOnlyProvider(IActiveTagValueProvider):
    """Provider w/o keys(), only with get()."""
    def __init__(self, name, data):
        self.name = name
        self._data = data

    def get(self, category, default=None):
        LOG.append("%s.get(%r, %s)" % (self.name, category,
                   "Unknown" if default is Unknown else repr(default)))
        return self._data.get(category, default)


def make_lazy(name, values):
    """Lazy callable that records its calls and cycles through values."""
    state = {"n": 0}

    def lazy():
        value = values[state["n"] % len(values)]
        state["n"] += 1
        LOG.append("lazy:%s() -> %r" % (name, value))
        return value
    lazy.__name__ = "lazy_" + name
    return lazy


# ---------------------------------------------------------------------------
# 1. EXHAUSTIVE SMALL UNIVERSE
# ---------------------------------------------------------------------------
def part1_exhaustive():
    section("1. exhaustive: tag lists of length 0..3 over a small universe")
    universe = [
        "use.with_a=x", "use.with_a=y", "not.with_a=x", "not.with_a=y",
        "active.with_b=1", "not_active.with_b=1", "only.with_b=2",
        "use.with_c=z", "not.with_c=z",
        "foo", "use.with_a", "not.with_=x", "use.with_a.b=1", "not.with_a.b=2",
        "use.with_a=", "nope.with_a=y", "use.with_n=3", "not.with_n=x3",
        "use.with_t=Yes", "not.with_t=maybe",
    ]
    providers = [
        ("P0:empty", {}),
        ("P1:a=x,b=1", {"a": "x", "b": "1"}),
        ("P2:a=y,b=2", {"a": "y", "b": "2", "a.b": "1"}),
        ("P3:a=z,c=z", {"a": "z", "c": "z", "a.b": "2"}),
        ("P4:a=None", {"a": None, "b": 1}),
        ("P5:objs", {"a": ValueObject("x", operator.ne),
                     "b": NumberValueObject(1, operator.ge),
                     "n": NumberValueObject(3),
                     "t": BoolValueObject(True),
                     "a.b": NumberValueObject(2, operator.le)}),
        ("P6:ATVP", ActiveTagValueProvider({"a": lambda: "x", "b": "2",
                                            "n": NumberValueObject(lambda: 4, operator.le),
                                            "t": BoolValueObject(False)})),
        ("P7:composite", CompositeActiveTagValueProvider([
            {"a": "y"}, ActiveTagValueProvider({"a": "x", "b": lambda: "1"}),
            {"c": "z", "a": "q"}])),
        ("P8:a=empty", {"a": "", "t": "Yes", "n": "3"}),
    ]
    matchers = []
    for name, provider in providers:
        matchers.append((name, ActiveTagMatcher(provider)))
    strict = ActiveTagMatcher({"a": "x"}, ignore_unknown_categories=False)
    matchers.append(("S:strict a=x", strict))
    reasoned = ActiveTagMatcher({"a": "x", "b": "1"})
    reasoned.use_exclude_reason = True
    matchers.append(("R:reason a=x,b=1", reasoned))
    print("MATCHERS: %s" % ", ".join(name for name, _ in matchers))

    count = 0
    for size in range(0, 4):
        if size < 3:
            tag_lists = itertools.product(universe, repeat=size)
        else:
            # -- size 3: restrict universe to keep the transcript bounded.
            tag_lists = itertools.product(universe[:14], repeat=size)
        for tags in tag_lists:
            tags = list(tags)
            excludes = []
            runs = []
            for _name, matcher in matchers:
                excludes.append(matcher.should_exclude_with(tags))
                runs.append(matcher.should_run_with(tags))
            del LOG[:]      # -- conversion errors are covered in part 2.
            count += 1
            print("%s|%s|%s reason=%s" % (" ".join(tags) or "-",
                  show_bits(excludes), show_bits(runs), reasoned.exclude_reason))
    print("COUNT: %d" % count)
    flush_log()


# ---------------------------------------------------------------------------
# 2. VALUE OBJECTS
# ---------------------------------------------------------------------------
def part2_value_objects():
    section("2. value objects")
    tag_values = ["0", "1", "2", "3", "10", "-1", " 2 ", "2.0", "", "x", "0x2",
                  "true", "True", "YES", "on", "false", "No", "OFF", "maybe",
                  u"2", u"٣", "1_0", "+3"]
    compare_funcs = [("eq", operator.eq), ("ne", operator.ne),
                     ("ge", operator.ge), ("le", operator.le),
                     ("gt", operator.gt), ("lt", operator.lt),
                     ("contains", operator.contains)]
    for cname, compare in compare_funcs:
        for cls, current in [(ValueObject, "2"), (ValueObject, 2),
                             (NumberValueObject, 2), (NumberValueObject, "2"),
                             (BoolValueObject, True), (BoolValueObject, False),
                             (BoolValueObject, 0), (ValueObject, ["1", "2"])]:
            obj = cls(current, compare)
            for tag_value in tag_values:
                attempt("%s(%r, %s).matches(%r)" % (cls.__name__, current,
                        cname, tag_value), obj.matches, tag_value)

    print("-- non-string tag values")
    for tag_value in [None, 2, 2.5, True, (1, 2), [], object]:
        for obj in [ValueObject(2), NumberValueObject(2), BoolValueObject(True),
                    BoolValueObject(False)]:
            attempt("%s.matches(%s)" % (obj.__class__.__name__,
                    getattr(tag_value, "__name__", repr(tag_value))),
                    obj.matches, tag_value)

    print("-- lazy values")
    for cls, values, tag_values2 in [
            (ValueObject, ["a", "b"], ["a", "b", "b"]),
            (NumberValueObject, [1, 2, 3], ["2", "2", "x", "2"]),
            (BoolValueObject, [True, False], ["yes", "yes", "??", "no"])]:
        obj = cls(make_lazy(cls.__name__, values))
        for tag_value in tag_values2:
            attempt("%s(lazy).matches(%r)" % (cls.__name__, tag_value),
                    obj.matches, tag_value)
        attempt("str", str, obj)
        attempt("repr", lambda o: repr(o).split(", compare=")[0], obj)

    print("-- conversions")
    attempt("int(NumberValueObject('12'))", int, NumberValueObject("12"))
    attempt("int(NumberValueObject('x'))", int, NumberValueObject("x"))
    attempt("bool(BoolValueObject(0))", bool, BoolValueObject(0))
    attempt("bool(BoolValueObject('no'))", bool, BoolValueObject("no"))
    for value in ["true", "YES", "On", "false", "NO", "oFF", "", "1", "0",
                  "maybe", None, 0, 1, [], [0], u"yes"]:
        attempt("BoolValueObject.to_bool(%r)" % (value,),
                BoolValueObject.to_bool, value)
    attempt("repr(ValueObject(1))", repr, ValueObject(1, operator.eq))
    attempt("ValueObject(1, None)", ValueObject, 1, None)

    print("-- errors raised by compare function / lazy value")
    def raiser(exc):
        def compare(current, tag_value):
            LOG.append("compare(%r, %r) raises %s" % (current, tag_value,
                                                      exc.__name__))
            raise exc("boom:%r" % (tag_value,))
        return compare
    def lazy_raiser(exc):
        def lazy():
            LOG.append("lazy raises %s" % exc.__name__)
            raise exc("lazy-boom")
        return lazy
    for exc in [ValueError, TypeError, KeyError, UnicodeDecodeError.__bases__[0],
                RuntimeError]:
        for cls in [ValueObject, NumberValueObject, BoolValueObject]:
            attempt("%s(compare raises %s).matches('1')" % (cls.__name__, exc.__name__),
                    cls(1, raiser(exc)).matches, "1")
            attempt("%s(compare raises %s).matches('bad')" % (cls.__name__, exc.__name__),
                    cls(1, raiser(exc)).matches, "bad")
            attempt("%s(lazy raises %s).matches('1')" % (cls.__name__, exc.__name__),
                    cls(lazy_raiser(exc)).matches, "1")

    print("-- non-bool compare results")
    for result in [None, 0, 1, "", "x", [], [0]]:
        for cls in [ValueObject, NumberValueObject, BoolValueObject]:
            attempt("%s(compare->%r).matches('1')" % (cls.__name__, result),
                    cls(1, lambda a, b, r=result: r).matches, "1")

    print("-- subclasses")
    class TracingNumber(NumberValueObject):
        def matches(self, tag_value):
            LOG.append("TracingNumber.matches(%r)" % (tag_value,))
            result = super(TracingNumber, self).matches(tag_value)
            LOG.append("TracingNumber.matches -> %r" % (result,))
            return result

        @staticmethod
        def on_type_conversion_error(tag_value, e):
            LOG.append("custom on_type_conversion_error(%r, %s: %s)" % (
                       tag_value, e.__class__.__name__, e))
            return "MISMATCH"

    class GermanBool(BoolValueObject):
        TRUE_STRINGS = set(["ja"])
        FALSE_STRINGS = set(["nein"])

    for tag_value in ["5", "6", "x"]:
        attempt("TracingNumber(5, ge).matches(%r)" % tag_value,
                TracingNumber(5, operator.ge).matches, tag_value)
    for tag_value in ["ja", "JA", "nein", "yes", "no"]:
        attempt("GermanBool(True).matches(%r)" % tag_value,
                GermanBool(True).matches, tag_value)


# ---------------------------------------------------------------------------
# 3. VALUE PROVIDERS
# ---------------------------------------------------------------------------
def describe_data(provider):
    parts = []
    for key in sorted(provider.data.keys()):
        value = provider.data[key]
        parts.append("%s:%s" % (key, "callable" if callable(value) else repr(value)))
    return "{%s}" % ", ".join(parts)


def part3_value_providers():
    section("3. value providers")
    lazy_os = make_lazy("os", ["linux", "win32", "darwin"])
    provider = ActiveTagValueProvider({"os": lazy_os, "browser": "chrome",
                                       "none": None, "zero": 0})
    for category in ["os", "os", "browser", "none", "zero", "missing"]:
        attempt("ATVP.get(%r)" % category, provider.get, category)
        attempt("ATVP.get(%r, 'dflt')" % category, provider.get, category, "dflt")
        attempt("ATVP[%r]" % category, provider.__getitem__, category)
    attempt("ATVP.get('missing', Unknown) is Unknown",
            lambda: provider.get("missing", Unknown) is Unknown)
    attempt("sorted(ATVP.items())", lambda: sorted(provider.items(), key=str))
    attempt("sorted(ATVP.categories())", lambda: sorted(provider.categories()))
    attempt("ATVP.values()", lambda: list(provider.values()))
    attempt("ATVP()", lambda: ActiveTagValueProvider().data)

    print("-- composite provider: discovery, caching, laziness")
    lazy_b = make_lazy("b", ["b1", "b2", "b3"])
    p1 = RecordingDict("p1", {"a": "a1"})
    p2_inner = {"b": lazy_b, "a": "a2", "n": None}
    p2 = ActiveTagValueProvider(p2_inner)
    p3 = GetOnlyProvider("p3", {"c": "c3", "a": "a3", "u": Unknown})
    p4 = RecordingDict("p4", {"d": make_lazy("d", ["d1", "d2"]), "c": "c4"})
    composite = CompositeActiveTagValueProvider([p1, p2, p3, p4])
    print("data0: %s" % describe_data(composite))
    for category in ["a", "a", "b", "b", "c", "d", "d", "n", "u", "x", "x", "c"]:
        attempt("composite.get(%r)" % category, composite.get, category)
        attempt("composite.get(%r, 'dflt')" % category, composite.get, category, "dflt")
        print("    data: %s" % describe_data(composite))
    print("-- provider changes after discovery")
    p1["a"] = "a1-changed"
    p1["x"] = "x1-late"
    p2_inner["b"] = "b-plain"
    p4["d"] = "d-plain"
    del p3._data["c"]
    for category in ["a", "b", "c", "d", "x"]:
        attempt("composite.get(%r)" % category, composite.get, category)
        attempt("composite[%r]" % category, composite.__getitem__, category)
        print("    data: %s" % describe_data(composite))
    attempt("composite['never']", composite.__getitem__, "never")
    attempt("list(composite.keys())", lambda: sorted(composite.keys()))
    attempt("list(composite.items())", lambda: sorted(composite.items(), key=str))
    attempt("list(composite.values())", lambda: sorted(composite.values(), key=str))
    attempt("cached callables distinct per category",
            lambda: len(set(id(v) for v in composite.data.values())) == len(composite.data))
    print("-- cached callable invoked directly")
    for category in sorted(composite.data.keys()):
        attempt("composite.data[%r]()" % category, composite.data[category])

    print("-- composite: empty / None / generator of providers")
    attempt("Composite().get('a')", CompositeActiveTagValueProvider().get, "a")
    attempt("Composite(None).get('a','d')", CompositeActiveTagValueProvider(None).get, "a", "d")
    attempt("Composite(gen).get('a')",
            CompositeActiveTagValueProvider(p for p in [{"a": 1}]).get, "a")
    nested = CompositeActiveTagValueProvider([
        CompositeActiveTagValueProvider([RecordingDict("in1", {"k": make_lazy("k", [1, 2, 3])})]),
        RecordingDict("out2", {"k": "shadowed", "m": "m2"})])
    for category in ["k", "k", "m", "zz"]:
        attempt("nested.get(%r)" % category, nested.get, category)

    print("-- composite provider whose member raises")
    class Exploding(object):
        def get(self, category, default=None):
            LOG.append("Exploding.get(%r)" % category)
            if category == "bad":
                raise RuntimeError("exploded:%s" % category)
            return default
    exploding = CompositeActiveTagValueProvider([Exploding(), {"bad": 1, "ok": 2}])
    attempt("exploding.get('ok')", exploding.get, "ok")
    attempt("exploding.get('bad')", exploding.get, "bad")
    print("    data: %s" % describe_data(exploding))

    print("-- matcher over composite provider with caching")
    q1 = RecordingDict("q1", {"os": make_lazy("os2", ["linux", "win32"])})
    q2 = RecordingDict("q2", {"n": NumberValueObject(make_lazy("n", [1, 5]), operator.ge)})
    matcher = ActiveTagMatcher(CompositeActiveTagValueProvider([q1, q2]))
    for tags in [["use.with_os=linux"], ["use.with_os=linux"],
                 ["use.with_n=3", "not.with_os=linux"],
                 ["use.with_n=3", "use.with_n=bad", "not.with_unknown=1"],
                 ["not.with_unknown=1"], ["not.with_unknown=1"]]:
        attempt("should_exclude_with(%r)" % (tags,), matcher.should_exclude_with, tags)

    print("-- utility functions")
    for value in [True, False, 0, 1, "", "no", None]:
        attempt("bool_to_string(%r)" % (value,), bool_to_string, value)
    values = {"a": 1, "b": 2}
    setup_active_tag_values(values, {"b": 20, "c": 30})
    print("setup_active_tag_values -> %r" % sorted(values.items()))
    print_active_tags({"os": "linux"})
    print_active_tags(ActiveTagValueProvider({"os": lambda: "lazy-linux"}), ["os", "nope"])
    print_active_tags(GetOnlyProvider("g", {"a": 1}), ["a"])
    del LOG[:]


# ---------------------------------------------------------------------------
# 4. MATCHER DETAILS
# ---------------------------------------------------------------------------
class TracingValue(ValueObject):
    def matches(self, tag_value):
        result = super(TracingValue, self).matches(tag_value)
        LOG.append("matches(%r) -> %r" % (tag_value, result))
        return result


class TracingMatcher(ActiveTagMatcher):
    def is_tag_negated(self, tag):
        result = super(TracingMatcher, self).is_tag_negated(tag)
        LOG.append("is_tag_negated(%r) -> %r" % (tag, result))
        return result

    def is_tag_group_enabled(self, group_category, group_tag_pairs):
        LOG.append("is_tag_group_enabled(%r, %r)" % (
            group_category, [tag for tag, _ in group_tag_pairs]))
        result = super(TracingMatcher, self).is_tag_group_enabled(
            group_category, group_tag_pairs)
        LOG.append("is_tag_group_enabled -> %r" % (result,))
        return result


def logging_tags(tags):
    for tag in tags:
        LOG.append("next tag: %s" % tag)
        yield tag
    LOG.append("tags exhausted")


def part4_matcher_details():
    section("4. matcher details")
    print("-- call order, evaluation of every tag, exclude reason")
    provider = RecordingDict("vp", {
        "a": TracingValue(make_lazy("a", ["x", "y", "x"])),
        "b": TracingValue("1"),
        "c": "plain"})
    matcher = TracingMatcher(provider)
    matcher.use_exclude_reason = True
    tag_lists = [
        [],
        ["foo"],
        ["use.with_a=x", "use.with_a=y", "not.with_a=x", "not.with_a=z"],
        ["not.with_a=x", "use.with_a=x", "use.with_b=1"],
        ["use.with_b=1", "use.with_a=q", "use.with_c=plain"],
        ["use.with_b=2", "use.with_a=q"],
        ["use.with_z=1", "foo", "not_active.with_b=2", "only.with_c=plain",
         "active.with_c=other"],
        ["not_active.with_c=plain", "use.with_b=1"],
        ["use.with_b=1", "use.with_b=1", "not.with_b=1", "not.with_b=1"],
    ]
    for tags in tag_lists:
        attempt("exclude(%r)" % (tags,), matcher.should_exclude_with, tags)
        print("    exclude_reason=%r" % (matcher.exclude_reason,))
        attempt("run(iter %r)" % (tags,), matcher.should_run_with, logging_tags(tags))
        print("    exclude_reason=%r" % (matcher.exclude_reason,))

    print("-- grouping and selection")
    plain = ActiveTagMatcher({"a": "x"})
    tags = ["use.with_b=1", "foo", "not.with_a=x", "use.with_b=2", "use.with_a=x",
            "only.with_a.b=1", "use.with_b=1", "@use.with_a=x", "use.with_a=x\n",
            "use.with_a=x=y", " use.with_a=x", "USE.with_a=x", "not_active.with_c="]
    groups = list(plain.group_active_tags_by_category(tags))
    for category, pairs in groups:
        print("group %r: %r" % (category, [
            (tag, m.group("prefix"), m.group("category"), m.group("value"))
            for tag, m in pairs]))
    print("selected: %r" % [(tag, m.groupdict()) for tag, m in
                            plain.select_active_tags(tags)])
    print("-- laziness of the generators")
    gen = plain.group_active_tags_by_category(logging_tags(["use.with_a=1", "foo", "use.with_b=2"]))
    print("created group generator"); flush_log()
    attempt("next(gen)", lambda: next(gen)[0])
    attempt("next(gen)", lambda: next(gen)[0])
    attempt("next(gen)", lambda: next(gen)[0])
    gen2 = plain.select_active_tags(logging_tags(["use.with_a=1", "foo", "use.with_b=2"]))
    print("created select generator"); flush_log()
    attempt("next(gen2)", lambda: next(gen2)[0])
    attempt("next(gen2)", lambda: next(gen2)[0])
    attempt("next(gen2)", lambda: next(gen2)[0])
    attempt("group(None) creation", lambda: type(plain.group_active_tags_by_category(None)).__name__)
    attempt("list(group(None))", lambda: list(plain.group_active_tags_by_category(None)))
    attempt("list(group([None]))", lambda: list(plain.group_active_tags_by_category([None])))
    attempt("list(group([1]))", lambda: list(plain.group_active_tags_by_category([1])))
    attempt("exclude(None)", plain.should_exclude_with, None)
    attempt("exclude('use.with_a=y')", plain.should_exclude_with, "use.with_a=y")
    attempt("exclude(('use.with_a=y',))", plain.should_exclude_with, ("use.with_a=y",))
    attempt("exclude(set)", plain.should_exclude_with, set(["use.with_a=y"]))
    attempt("exclude([b'..'])", plain.should_exclude_with, [b"use.with_a=y"])

    print("-- is_tag_group_enabled called directly")
    pairs_a = list(plain.select_active_tags(["use.with_a=x", "not.with_a=y"]))
    pairs_b = list(plain.select_active_tags(["use.with_b=x"]))
    attempt("enabled('a', [])", plain.is_tag_group_enabled, "a", [])
    attempt("enabled('zzz', [])", plain.is_tag_group_enabled, "zzz", [])
    attempt("enabled('a', ())", plain.is_tag_group_enabled, "a", ())
    attempt("enabled('a', pairs_a)", plain.is_tag_group_enabled, "a", pairs_a)
    attempt("enabled('a', pairs_b)", plain.is_tag_group_enabled, "a", pairs_b)
    attempt("enabled('b', pairs_a)", plain.is_tag_group_enabled, "b", pairs_a)
    attempt("enabled('b', pairs_b)", plain.is_tag_group_enabled, "b", pairs_b)
    attempt("enabled('a', iter(pairs_a))", plain.is_tag_group_enabled, "a", iter(pairs_a))
    attempt("enabled('a', pairs_a+pairs_b)", plain.is_tag_group_enabled, "a", pairs_a + pairs_b)
    traced = ActiveTagMatcher({"a": TracingValue("x")})
    attempt("traced enabled('a', pairs_b+pairs_a)", traced.is_tag_group_enabled,
            "a", list(traced.select_active_tags(["not.with_a=x"])) + pairs_b + pairs_a)
    strict = ActiveTagMatcher({"a": "x"}, ignore_unknown_categories=False)
    attempt("strict enabled('b', pairs_b)", strict.is_tag_group_enabled, "b", pairs_b)
    attempt("strict exclude use b", strict.should_exclude_with, ["use.with_b=x"])
    attempt("strict exclude not b", strict.should_exclude_with, ["not.with_b=x"])
    attempt("strict exclude use b=Unknown-str", strict.should_exclude_with,
            ["use.with_b=%s" % Unknown])
    unknown_valued = ActiveTagMatcher({"a": Unknown})
    attempt("a=Unknown value: use", unknown_valued.should_exclude_with, ["use.with_a=x"])
    none_provider = ActiveTagMatcher(None)
    attempt("provider None", none_provider.should_exclude_with, ["use.with_a=x"])
    print("    value_provider=%r" % (none_provider.value_provider,))

    print("-- non-bool / odd match results from custom value objects")
    class OddValue(ValueObject):
        def __init__(self, results):
            ValueObject.__init__(self, None)
            self.results = list(results)

        def matches(self, tag_value):
            result = self.results.pop(0)
            LOG.append("OddValue.matches(%r) -> %r" % (tag_value, result))
            return result
    for results in [[None, None], [1, 0], [0, 1], ["", "x"], ["x", ""], [[], [0]],
                    [None, 0], [2, None]]:
        for tags in [["use.with_o=1", "not.with_o=2"], ["not.with_o=1", "use.with_o=2"],
                     ["use.with_o=1", "use.with_o=2"], ["not.with_o=1", "not.with_o=2"]]:
            matcher2 = ActiveTagMatcher({"o": OddValue(results)})
            attempt("odd%r %r" % (results, tags), matcher2.should_exclude_with, tags)

    print("-- value object raising inside the group evaluation")
    class Raising(ValueObject):
        def matches(self, tag_value):
            LOG.append("Raising.matches(%r)" % tag_value)
            if tag_value == "boom":
                raise RuntimeError("boom in matches")
            return tag_value == "ok"
    matcher3 = ActiveTagMatcher({"r": Raising(None), "a": TracingValue("x")})
    for tags in [["use.with_r=ok", "use.with_r=boom", "use.with_r=ok"],
                 ["use.with_a=y", "use.with_r=boom"],
                 ["use.with_r=boom", "use.with_a=y"]]:
        attempt("raising %r" % (tags,), matcher3.should_exclude_with, tags)

    print("-- schemas, custom prefixes and separators")
    configs = [
        dict(),
        dict(tag_prefixes=["use", "not"]),
        dict(tag_prefixes=["with", "without", "notwith"]),
        dict(tag_prefixes=["only", "not_only"], value_separator=":"),
        dict(value_separator="_eq_"),
        dict(value_separator=""),
        dict(tag_prefixes=[]),
        dict(tag_prefixes=("use", "not"), value_separator=r"\."),
    ]
    probe_tags = [
        "use.with_a=x", "not.with_a=x", "active.with_a=y", "not_active.with_a=y",
        "only.with_a=x", "with.with_a=y", "without.with_a=x", "notwith.with_a=x",
        "only.with_a:y", "not_only.with_a:x", "use.with_a_eq_y", "not.with_a_eq_x",
        "use.with_ax", "not.with_ax", ".with_a=y", "use.with_a.y", "not.with_a.x",
        "use.with_a=", "use.with_a",
    ]
    for config in configs:
        matcher4 = ActiveTagMatcher({"a": "x", "ax": "", "a.y": "", "a.x": ""}, **config)
        print("CONFIG %r: pattern=%r prefixes=%r" % (
            sorted(config.items()), matcher4.tag_pattern.pattern, matcher4.tag_prefixes))
        for tag in probe_tags:
            selected = [(t, sorted(m.groupdict().items()))
                        for t, m in matcher4.select_active_tags([tag])]
            print("  %-22s exclude=%r selected=%r" % (
                tag, matcher4.should_exclude_with([tag]), selected))
        for tags in [probe_tags, list(reversed(probe_tags))]:
            print("  ALL: exclude=%r groups=%r" % (
                matcher4.should_exclude_with(tags),
                sorted((c, [t for t, _ in p]) for c, p in
                       matcher4.group_active_tags_by_category(tags))))
    attempt("make_tag_pattern(None)", lambda: ActiveTagMatcher.make_tag_pattern(None))
    attempt("make_tag_pattern([1])", lambda: ActiveTagMatcher.make_tag_pattern([1]))
    attempt("make_tag_pattern(['('])", lambda: ActiveTagMatcher.make_tag_pattern(["("]))
    attempt("make_tag_pattern(['a','b'],'~').pattern",
            lambda: ActiveTagMatcher.make_tag_pattern(["a", "b"], "~").pattern)
    for args in [("os",), ("os", "linux"), ("os", "linux", "not"),
                 ("os", "linux", None, ":"), ("os", 0), ("os", None, "only", ""),
                 (1, 2, 3, 4), ("a.b", u"\xfc")]:
        attempt("make_category_tag%r" % (args,), ActiveTagMatcher.make_category_tag, *args)

    class Schema2Matcher(ActiveTagMatcher):
        tag_prefixes = ["active", "not_active"]
        value_separator = ":"
        ignore_unknown_categories = False
        use_exclude_reason = True
    matcher5 = Schema2Matcher({"a": "x"})
    for tags in [["active.with_a:x"], ["active.with_a:y"], ["not_active.with_a:x"],
                 ["use.with_a:y"], ["active.with_q:1"], ["not_active.with_q:1"],
                 ["active.with_a=y"]]:
        attempt("Schema2 %r" % (tags,), matcher5.should_exclude_with, tags)
        print("    reason=%r" % (matcher5.exclude_reason,))
    attempt("Schema2.make_category_tag", Schema2Matcher.make_category_tag, "a", "x")

    class NegateNothing(ActiveTagMatcher):
        def is_tag_negated(self, tag):
            return False
    class NegateOnly(ActiveTagMatcher):
        def is_tag_negated(self, tag):
            return tag == "only"
    for cls in [NegateNothing, NegateOnly]:
        m = cls({"a": "x"})
        for tags in [["not.with_a=x"], ["not.with_a=y"], ["only.with_a=x"],
                     ["only.with_a=y", "use.with_a=x"], ["not.with_a=y", "use.with_a=x"]]:
            attempt("%s %r" % (cls.__name__, tags), m.should_exclude_with, tags)


# ---------------------------------------------------------------------------
# 5. COMPOSITE / PREDICATE MATCHERS
# ---------------------------------------------------------------------------
class RecordingMatcher(TagMatcher):
    def __init__(self, name, result):
        self.name = name
        self.result = result

    def should_exclude_with(self, tags):
        LOG.append("%s.should_exclude_with(%r) -> %r" % (self.name, tags, self.result))
        if isinstance(self.result, Exception):
            raise self.result
        return self.result


def part5_composites():
    section("5. composite and predicate matchers")
    attempt("TagMatcher().should_exclude_with", TagMatcher().should_exclude_with, [])
    attempt("TagMatcher().should_run_with", TagMatcher().should_run_with, [])
    results_universe = [False, True, None, 0, 1, "", "yes"]
    for size in range(0, 4):
        for results in itertools.product(results_universe[:4] if size == 3
                                         else results_universe, repeat=size):
            members = [RecordingMatcher("m%d" % i, r) for i, r in enumerate(results)]
            composite = CompositeTagMatcher(members)
            attempt("composite%r.exclude" % (results,), composite.should_exclude_with, ["t"])
            attempt("composite%r.run" % (results,), composite.should_run_with, ["t"])
    failing = CompositeTagMatcher([RecordingMatcher("ok", False),
                                   RecordingMatcher("bad", RuntimeError("member failed")),
                                   RecordingMatcher("never", True)])
    attempt("composite(failing).exclude", failing.should_exclude_with, ["t"])
    attempt("CompositeTagMatcher().tag_matchers", lambda: CompositeTagMatcher().tag_matchers)
    attempt("CompositeTagMatcher(()).tag_matchers", lambda: CompositeTagMatcher(()).tag_matchers)
    tup = (RecordingMatcher("t0", False),)
    attempt("CompositeTagMatcher(tuple) keeps object",
            lambda: CompositeTagMatcher(tup).tag_matchers is tup)

    real = CompositeTagMatcher([
        ActiveTagMatcher({"os": "linux"}),
        ActiveTagMatcher({"browser": "chrome"}, tag_prefixes=["only", "not"]),
        PredicateTagMatcher(lambda tags: "skip" in tags),
    ])
    for tags in [[], ["use.with_os=linux"], ["use.with_os=win32"],
                 ["only.with_browser=firefox"], ["use.with_browser=firefox"],
                 ["not.with_browser=chrome"], ["skip"], ["use.with_os=linux", "skip"],
                 ["not.with_os=win32", "only.with_browser=chrome", "wip"]]:
        attempt("real %r" % (tags,), real.should_exclude_with, tags)
        attempt("real run %r" % (tags,), real.should_run_with, tags)
    attempt("PredicateTagMatcher(None)", PredicateTagMatcher, None)
    attempt("Predicate returns odd", PredicateTagMatcher(lambda tags: "odd").should_exclude_with, [])
    attempt("Predicate run odd", PredicateTagMatcher(lambda tags: "odd").should_run_with, [])


# ---------------------------------------------------------------------------
# 6. behave.active_tag.*
# ---------------------------------------------------------------------------
def part6_active_tag_modules():
    section("6. behave.active_tag.python / python_feature")
    provider = at_python.ACTIVE_TAG_VALUE_PROVIDER
    print("python categories: %r" % sorted(provider.keys()))
    print("python_feature categories: %r" % sorted(at_python_feature.ACTIVE_TAG_VALUE_PROVIDER.keys()))
    major, minor = at_python.PYTHON_VERSION
    versions = ["2.7", "3.0", "%d.%d" % (major, minor), "%d.%d" % (major, minor + 1),
                "%d.%d" % (major, minor - 1), "%d" % major, "%d.%d.0" % (major, minor),
                "4", "x.y", "", "3.", "3.x"]
    matcher = ActiveTagMatcher(provider)
    for prefix in ["use", "not"]:
        for category in ["python.version", "python.min_version", "python.max_version"]:
            for version in versions:
                tags = ["%s.with_%s=%s" % (prefix, category, version)]
                attempt("exclude(%r)" % (tags,), matcher.should_exclude_with, tags)
        for category in ["python2", "python3", "pypy"]:
            for value in ["yes", "no", "true", "false", "on", "off", "maybe", ""]:
                tags = ["%s.with_%s=%s" % (prefix, category, value)]
                attempt("exclude(%r)" % (tags,), matcher.should_exclude_with, tags)
        for category, value in [("python.implementation", "cpython"),
                                ("python.implementation", "pypy"),
                                ("os", "linux"), ("os", "win32"),
                                ("platform", "linux"), ("platform", "Linux")]:
            tags = ["%s.with_%s=%s" % (prefix, category, value)]
            attempt("exclude(%r)" % (tags,), matcher.should_exclude_with, tags)
    version_object = at_python.VersionValueObject((3, 5), operator.ge)
    for value in ["3.4", "3.5", "3.6", (3, 5), (2,), "a.b", None, 3, 3.5, "", "3..5"]:
        attempt("VersionValueObject((3,5), ge).matches(%r)" % (value,),
                version_object.matches, value)
        attempt("to_version_tuple(%r)" % (value,),
                at_python.VersionValueObject.to_version_tuple, value)
    feature_matcher = ActiveTagMatcher(CompositeActiveTagValueProvider([
        at_python_feature.ACTIVE_TAG_VALUE_PROVIDER, provider]))
    for category in sorted(at_python_feature.ACTIVE_TAG_VALUE_PROVIDER.keys()):
        for prefix, value in itertools.product(["use", "not"], ["yes", "no", "bad"]):
            tags = ["%s.with_%s=%s" % (prefix, category, value)]
            attempt("feature exclude(%r)" % (tags,), feature_matcher.should_exclude_with, tags)
    mixed = ["use.with_python3=yes", "not.with_python2=yes",
             "use.with_python.min_version=3.0", "use.with_python.feature.coroutine=yes",
             "not.with_os=win32", "wip"]
    for size in range(0, len(mixed) + 1):
        for tags in itertools.combinations(mixed, size):
            attempt("mixed %r" % (tags,), feature_matcher.should_exclude_with, list(tags))


def main():
    part1_exhaustive()
    part2_value_objects()
    part3_value_providers()
    part4_matcher_details()
    part5_composites()
    part6_active_tag_modules()
    print()
    print("DONE")


if __name__ == "__main__":
    main()
