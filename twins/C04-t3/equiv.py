# -*- coding: UTF-8 -*-
"""
Equivalence transcript for property C04 (faithful Gherkin parsing).

Parses a set of representative / boundary feature texts through the public
parser entry points and the ModelDescriptor renderers, and prints a canonical
dump of everything observed: element kinds, keywords, names, line numbers,
tags (with lines), description lines, step types, doc-strings, table cells,
raised errors (type + message + line), logged warnings and parser end state.
"""
from __future__ import absolute_import, print_function, unicode_literals
import sys
sys.path.insert(0, "/tmp/wtT/C04")

import io
import logging

from behave import parser as bp
from behave import model
from behave.model_describe import ModelDescriptor, ModelPrinter

assert bp.__file__.startswith("/tmp/wtT/C04/"), bp.__file__


# -- CAPTURE: log records of the "behave" logger (malformed table rows).
class ListHandler(logging.Handler):
    def __init__(self):
        logging.Handler.__init__(self)
        self.messages = []

    def emit(self, record):
        self.messages.append("%s:%s" % (record.levelname, record.getMessage()))


LOG = ListHandler()
_logger = logging.getLogger("behave")
_logger.addHandler(LOG)
_logger.setLevel(logging.DEBUG)
_logger.propagate = False

OUT = []


def emit(text=""):
    OUT.append(text)


def dump_tags(tags):
    return "[" + ", ".join("%s@%s" % (t, getattr(t, "line", "?")) for t in tags) + "]"


def dump_table(table, indent):
    if table is None:
        emit("%stable: None" % indent)
        return
    emit("%stable line=%r headings=%r" % (indent, table.line, table.headings))
    for row in table.rows:
        emit("%s  row line=%r cells=%r" % (indent, row.line, row.cells))
    emit("%s  described=%r" % (indent, ModelDescriptor.describe_table(table)))
    emit("%s  described(ind)=%r" % (indent, ModelDescriptor.describe_table(table, "    ")))


def dump_step(step, indent):
    emit("%sSTEP line=%r keyword=%r type=%r name=%r location=%s"
         % (indent, step.line, step.keyword, step.step_type, step.name,
            step.location))
    if step.text is not None:
        emit("%s  text line=%r ctype=%r value=%r"
             % (indent, step.text.line, step.text.content_type,
                "%s" % step.text))
        emit("%s  described=%r" % (indent, ModelDescriptor.describe_docstring(step.text)))
        emit("%s  described(ind)=%r" % (indent, ModelDescriptor.describe_docstring(step.text, "  ")))
    if step.table is not None:
        dump_table(step.table, indent + "  ")


def dump_statement(stmt, indent=""):
    kind = type(stmt).__name__
    emit("%s%s line=%r keyword=%r name=%r tags=%s"
         % (indent, kind, stmt.line, stmt.keyword, stmt.name,
            dump_tags(getattr(stmt, "tags", []))))
    emit("%s  description=%r" % (indent, getattr(stmt, "description", None)))
    if isinstance(stmt, (model.Feature, model.Rule)):
        if isinstance(stmt, model.Feature):
            emit("%s  language=%r filename=%r" % (indent, stmt.language, stmt.filename))
        if stmt.background is not None:
            dump_statement(stmt.background, indent + "  ")
        for item in stmt.run_items:
            dump_statement(item, indent + "  ")
        return
    for step in getattr(stmt, "steps", []):
        dump_step(step, indent + "  ")
    if isinstance(stmt, model.ScenarioOutline):
        for examples in stmt.examples:
            emit("%s  Examples line=%r keyword=%r name=%r tags=%s"
                 % (indent, examples.line, examples.keyword, examples.name,
                    dump_tags(examples.tags)))
            dump_table(examples.table, indent + "    ")
        for scenario in stmt.scenarios:
            emit("%s  generated: line=%r name=%r tags=%s steps=%r"
                 % (indent, scenario.line, scenario.name,
                    dump_tags(scenario.tags),
                    [(s.line, s.keyword, s.step_type, s.name) for s in scenario.steps]))


def dump_parser_state(p):
    emit("  parser: state=%s line=%r last_step_type=%r tags=%s lines=%r table=%r "
         "examples=%r language=%r ml=(%r,%r,%r)"
         % (p.state.name, p.line, p.last_step_type, dump_tags(p.tags), p.lines,
            p.table, p.examples, p.language,
            p.multiline_start, p.multiline_leading, p.multiline_terminator))


def run_case(title, func):
    emit("=" * 70)
    emit("CASE: %s" % title)
    del LOG.messages[:]
    try:
        func()
    except Exception as e:  # pylint: disable=broad-except
        emit("  RAISED %s: %s" % (type(e).__name__, e))
        emit("    line=%r line_text=%r filename=%r args=%r"
             % (getattr(e, "line", None), getattr(e, "line_text", None),
                getattr(e, "filename", None), e.args))
    for message in LOG.messages:
        emit("  LOG %s" % message)


def feature_case(title, text, language=None, filename="t.feature"):
    def body():
        p = bp.Parser(language)
        try:
            feature = p.parse(text, filename)
            if feature is None:
                emit("  feature: None")
            else:
                dump_statement(feature, "  ")
        finally:
            dump_parser_state(p)
    run_case(title, body)


def steps_case(title, text, language=None):
    def body():
        p = bp.Parser(language, variant="steps")
        try:
            for step in p.parse_steps(text, "steps.txt"):
                dump_step(step, "  ")
        finally:
            dump_parser_state(p)
    run_case(title, body)


def scenario_case(title, text, language=None):
    def body():
        p = bp.Parser(language, variant="scenario")
        try:
            stmt = p.parse_scenario(text, "scenario.txt")
            if stmt is None:
                emit("  statement: None")
            else:
                dump_statement(stmt, "  ")
        finally:
            dump_parser_state(p)
    run_case(title, body)


def rule_case(title, text, language=None):
    def body():
        p = bp.Parser(language, variant="rule")
        try:
            stmt = p.parse_rule(text, "rule.txt")
            if stmt is None:
                emit("  statement: None")
            else:
                dump_statement(stmt, "  ")
        finally:
            dump_parser_state(p)
    run_case(title, body)


# ---------------------------------------------------------------------------
# INPUTS
# ---------------------------------------------------------------------------
FULL_EN = u'''
# a leading comment
@f1 @f2   # trailing comment
@f3
Feature: Full house
  As a tester
    I want everything
  # comment inside description

  Background: Common
    Some background description
    Given a background step
      And another background step

  @s1
  Scenario: First
    First description line
    Given a step
      """
      doc line 1
        indented doc line 2

      after blank
      """
    When a table step:
      | name  | value      |
      | a\\|b  | x          |
      |       | with space |
    Then a result
    But not this
    * star step

  @o1 @o2
  Scenario Outline: Outline <x>
    Given a <x> thing
    When <y> happens
    Then ok

    @e1
    Examples: First set
      | x | y |
      | 1 | 2 |
      | 3 | 4 |

    Examples:
      | x | y |
      | 5 | 6 |

  Example: Alias example
    * starts with star
    And then and
    Given given after

  Scenario Template: Alias template <a>
    Given <a>
    Scenarios: Alias examples
      | a |
      | q |

  @r1
  Rule: A rule
    Rule description

    Background: Rule background
      Given rule bg step

    @rs1
    @rs2
    Scenario: In rule
      And inherits from background
      Then done
        \'\'\'
        single-quoted doc
        \'\'\'

  Rule: Second rule
    Example: Without background
      When only when
'''

GERMAN = u'''# language: de
@wip
Funktionalit\xe4t: Deutsche Sprache
  Beschreibung

  Grundlage:
    Angenommen ein Hintergrund

  Szenario: Erstes
    Gegeben sei etwas
    Wenn ich etwas tue
    Dann passiert etwas
    Und noch etwas
    Aber nicht das

  Szenariogrundriss: Grundriss <n>
    Gegeben seien <n> Dinge
    Beispiele:
      | n |
      | 1 |
'''

FRENCH = u'''# language: fr
Fonctionnalit\xe9: Langue fran\xe7aise
  Sc\xe9nario: Premier
    Soit un contexte
    Etant donn\xe9 qu'un autre contexte
    Quand j'agis
    Lorsqu'il pleut
    Alors un r\xe9sultat
    Et un autre
    Mais pas celui-ci
'''

CHINESE = u'''# language: zh-CN
\u529f\u80fd: \u4e2d\u6587
  \u573a\u666f: \u7b2c\u4e00
    \u5047\u5982\u6211\u6709\u4e00\u4e2a\u6b65\u9aa4
    \u5f53\u6211\u505a\u67d0\u4e8b
    \u90a3\u4e48\u6709\u7ed3\u679c
    \u800c\u4e14\u8fd8\u6709
    \u4f46\u662f\u6ca1\u6709
'''

feature_case("full english feature", FULL_EN)
feature_case("german via language comment", GERMAN)
feature_case("german via parser language", GERMAN.split("\n", 1)[1], language="de")
feature_case("french aliases", FRENCH)
feature_case("chinese (no space after keywords)", CHINESE)
feature_case("empty text", u"")
feature_case("only comments", u"# one\n   # two\n")
feature_case("tags only", u"@a @b\n@c\n")
feature_case("CRLF line endings and tabs",
             u"Feature: CRLF\r\n\tScenario: S\r\n\t\tGiven x\r\n\t\t\t\"\"\"\r\n\t\t\ttext  \r\n\t\t\t\"\"\"\r\n\t\tThen y\r\n")
feature_case("lowercase step keywords",
             u"Feature: lower\n  Scenario: s\n    given lower given\n    WHEN upper when\n    then lower then\n    and lower and\n")
feature_case("comment before language + tags before language comment",
             u"@t\n# language: de\nFeature: still english\n")
feature_case("unknown language", u"# language: xx-none\nFeature: F\n")
feature_case("language comment uppercase",
             u"#   LANGUAGE:   de  \nFunktionalit\xe4t: x\n")
feature_case("table at end of file",
             u"Feature: F\n  Scenario: S\n    Given t\n      | a | b |\n      | 1 | 2 |")
feature_case("examples at end of file, tags between",
             u"Feature: F\n  Scenario Outline: S\n    Given <a>\n  @x\n  @y @z # c\n  Examples: E\n    | a |\n    | 1 |")
feature_case("malformed table row (warning)",
             u"Feature: F\n  Scenario: S\n    Given t\n      | a | b \n      | 1 | 2 |\n")
feature_case("malformed table (cell count)",
             u"Feature: F\n  Scenario: S\n    Given t\n      | a | b |\n      | 1 |\n")
feature_case("escaped pipes, backslashes and empty cells",
             u"Feature: F\n  Scenario: S\n    Given t\n      | a\\|b | c\\\\ | |\n      | \\| | \\\\| x | y |\n      ||||\n")
feature_case("table before any step",
             u"Feature: F\n  Scenario: S\n    Given t\n  Scenario: T\n    Given u\n  Scenario Outline: X\n    | a |\n")
feature_case("table directly in steps state w/o step",
             u"Feature: F\n  Background:\n    Given b\n  Scenario: S\n    Given s\n    | a |\n    | 1 |\n    Then z\n")
feature_case("docstring bad indent",
             u"Feature: F\n  Scenario: S\n    Given t\n      \"\"\"\n    bad\n      \"\"\"\n")
feature_case("docstring unterminated",
             u"Feature: F\n  Scenario: S\n    Given t\n      \"\"\"\n      open\n")
feature_case("docstring with other quote kind inside and keywords inside",
             u"Feature: F\n  Scenario: S\n    Given t\n      '''\n      \"\"\"\n      Scenario: not one\n      # not a comment\n      @nottag\n\n      | not | table |\n      '''\n    Then u\n")
feature_case("docstring terminator with trailing text",
             u"Feature: F\n  Scenario: S\n    Given t\n      \"\"\"text/x\n      body\n      \"\"\" trailing\n    Then u\n")
feature_case("and without previous step",
             u"Feature: F\n  Scenario: S\n    And orphan\n")
feature_case("but without previous step, background without steps",
             u"Feature: F\n  Background: B\n  Scenario: S\n    But orphan\n")
feature_case("and inherits from feature background",
             u"Feature: F\n  Background: B\n    When bg\n  Scenario: S\n    And inherits\n    * star\n")
feature_case("star first (no previous type)",
             u"Feature: F\n  Scenario: S\n    * star first\n    And then what\n")
feature_case("second feature", u"Feature: A\nFeature: B\n")
feature_case("scenario before feature", u"Scenario: S\n  Given x\n")
feature_case("scenario outline before feature", u"Scenario Outline: S\n")
feature_case("rule before feature", u"Rule: R\n")
feature_case("background before feature", u"Background: B\n")
feature_case("junk before feature", u"Some junk\n")
feature_case("background after scenario",
             u"Feature: F\n  Scenario: S\n    Given x\n  Background: B\n")
feature_case("background with tags",
             u"Feature: F\n  @t\n  Background: B\n")
feature_case("second background",
             u"Feature: F\n  Background: A\n    Given a\n  Background: B\n")
feature_case("second background, first without steps",
             u"Feature: F\n  Background: A\n  Background: B\n    Given b\n  Scenario: S\n    Then t\n")
feature_case("examples outside outline",
             u"Feature: F\n  Scenario: S\n    Given x\n    Examples: E\n      | a |\n")
feature_case("examples in feature state", u"Feature: F\n  Examples: E\n")
feature_case("tags then junk",
             u"Feature: F\n  @t\n  junk line\n")
feature_case("bad tag", u"Feature: F\n  @good bad\n  Scenario: S\n")
feature_case("rule in steps, nested rule backgrounds",
             u"Feature: F\n  Background:\n    Given fb\n  Rule: R1\n    Background:\n    Scenario: S1\n      And from inherited\n  Rule: R2\n    desc\n    Scenario Outline: O\n      Given <a>\n      Examples:\n        | a |\n        | 1 |\n  @t\n  Rule: R3\n")
feature_case("keyword without colon is description / keyword as step text",
             u"Feature: F\n  Scenario S\n  Scenario: Real\n    Scenario without colon is description\n    Given Scenario: as text\n    Givenx no space\n")
feature_case("indentation extremes",
             u"      Feature: F\nScenario: S\n                Given deep\n@t\nScenario: T\nThen shallow\n|h|\n|v|\n")

steps_case("parse_steps simple",
           u"Given a\nWhen b\nThen c\nAnd d\nBut e\n* f\n")
steps_case("parse_steps with text and table",
           u"Given a:\n  \"\"\"\n  text\n  \"\"\"\nWhen b:\n  | x |\n  | 1 |\n")
steps_case("parse_steps german", u"Angenommen a\nUnd b\nDann c\n", language="de")
steps_case("parse_steps junk", u"Given a\njunk\n")
steps_case("parse_steps and first", u"And a\n")
steps_case("parse_steps table first", u"| a |\n")
steps_case("parse_steps docstring first", u'"""\nx\n"""\n')
steps_case("parse_steps empty", u"")
scenario_case("parse_scenario", u"@a\nScenario: S\n  desc\n  Given x\n  And y\n")
scenario_case("parse_scenario outline",
              u"Scenario Outline: S <a>\n  Given <a>\n  Examples:\n    | a |\n    | 1 |\n")
scenario_case("parse_scenario junk", u"junk\n")
rule_case("parse_rule", u"@r\nRule: R\n  desc\n  Background:\n    Given b\n  Scenario: S\n    And x\n")
rule_case("parse_rule junk", u"junk\n")


def tags_cases():
    for text in (u"", u"@a", u"@a @b  @c", u"@a #c @b", u"@a\n@b", u"  @a:1 @b=2,3 ",
                 u"@a b", u"#x @a", u"@", u"@@x"):
        try:
            emit("  parse_tags(%r) -> %s" % (text, dump_tags(bp.parse_tags(text))))
        except Exception as e:  # pylint: disable=broad-except
            emit("  parse_tags(%r) RAISED %s: %s" % (text, type(e).__name__, e))


run_case("parse_tags", tags_cases)


def match_keyword_cases():
    p = bp.Parser()
    emit("  keywords before: %r language=%r" % (p.keywords is None, p.language))
    for kw, line in (("feature", u"Feature: x"), ("feature", u"Feature x"),
                     ("scenario", u"Example: x"), ("scenario", u"Scenario: x"),
                     ("scenario", u"Scenario Outline: x"),
                     ("scenario_outline", u"Scenario Template: x"),
                     ("examples", u"Scenarios: x"), ("rule", u"Rule:"),
                     ("background", u" Background:"), ("feature", u"")):
        emit("  match_keyword(%r, %r) -> %r" % (kw, line, p.match_keyword(kw, line)))
    emit("  keywords after: %r language=%r" % (p.keywords is None, p.language))
    try:
        p.match_keyword("nokey", u"x")
    except Exception as e:  # pylint: disable=broad-except
        emit("  match_keyword(nokey) RAISED %s: %s" % (type(e).__name__, e))
    p2 = bp.Parser("de")
    emit("  de: %r" % p2.match_keyword("scenario", u"Szenario: x"))
    emit("  de: %r" % p2.match_keyword("scenario", u"Scenario: x"))


run_case("match_keyword", match_keyword_cases)


def oracle_cases():
    for text in (u"Feature: x", u"Rule: x", u"Background: x", u"Scenario: x",
                 u"Scenario Outline: x", u"other"):
        p = bp.Parser()
        emit("  oracle(fresh, %r) -> %r" % (text, p.ask_parse_failure_oracle(text)))
        p = bp.Parser(variant="steps")
        p.tags = [model.Tag(u"t", 1)]
        emit("  oracle(steps+tags, %r) -> %r" % (text, p.ask_parse_failure_oracle(text)))
        p = bp.Parser()
        p.parse(u"Feature: F\n  Scenario: S\n", "o.feature")
        emit("  oracle(parsed, %r) -> %r" % (text, p.ask_parse_failure_oracle(text)))


run_case("ask_parse_failure_oracle", oracle_cases)


def describe_cases():
    t = model.Table([u"a", u"long heading", u""],
                    rows=[[u"x|y", u"1", u"\\"], [u"line\nbreak", u"", u"zz"]], line=3)
    dump_table(t, "  ")
    dump_table(model.Table([u"only"]), "  ")
    dump_table(model.Table([]), "  ")
    ragged = model.Table([u"a", u"b"])
    ragged.rows.append(model.Row(ragged.headings, [u"1"], 9))
    try:
        dump_table(ragged, "  ")
    except Exception as e:  # pylint: disable=broad-except
        emit("  ragged RAISED %s: %s" % (type(e).__name__, e))
    wide = model.Table([u"a"])
    wide.rows.append(model.Row(wide.headings, [u"1", u"22"], 9))
    try:
        dump_table(wide, "  ")
    except Exception as e:  # pylint: disable=broad-except
        emit("  wide RAISED %s: %s" % (type(e).__name__, e))
    for doc in (u"", u"one", u"a\n  b\n", u'with """ quotes', u"\n\n"):
        emit("  docstring(%r) -> %r | %r" % (doc, ModelDescriptor.describe_docstring(doc),
                                         ModelDescriptor.describe_docstring(doc, u"    ")))
    stream = io.StringIO()
    printer = ModelPrinter(stream)
    printer.print_table(t, u"  ")
    printer.print_docstring(u"x\ny", u"  ")
    emit("  printed=%r" % stream.getvalue())


run_case("model_describe", describe_cases)


def strip_colon_case():
    class ColonParser(bp.Parser):
        STRIP_STEPS_WITH_TRAILING_COLON = True
    p = ColonParser()
    feature = p.parse(u"Feature: F\n  Scenario: S\n    Given a:\n      | x |\n    When b:\n      \"\"\"\n      t\n      \"\"\"\n    Then c:\n", "c.feature")
    dump_statement(feature, "  ")


run_case("strip trailing colon", strip_colon_case)


def every_language_case():
    # -- Every language, every alias: one tiny feature per alias combination.
    from behave import i18n
    for lang in sorted(i18n.languages):
        kws = i18n.languages[lang]
        lines = [u"# language: %s" % lang, u"%s: F" % kws["feature"][0]]
        for alias in kws["background"][:1]:
            lines.append(u"%s: B" % alias)
            lines.append(u"%sbg" % kws["given"][-1])
        for alias in kws["scenario"]:
            lines.append(u"@t")
            lines.append(u"%s: S" % alias)
            for step_type in ("given", "when", "then", "and", "but"):
                for kw in kws[step_type]:
                    lines.append(u"%sx %s" % (kw, step_type))
        for alias in kws["scenario_outline"]:
            lines.append(u"%s: O" % alias)
            lines.append(u"%s<a>" % kws["given"][-1])
            for ex_alias in kws["examples"]:
                lines.append(u"%s: E" % ex_alias)
                lines.append(u"| a |")
                lines.append(u"| 1 |")
        for alias in kws.get("rule", []):
            lines.append(u"%s: R" % alias)
            lines.append(u"%s: RS" % kws["scenario"][0])
            lines.append(u"%sy" % kws["when"][-1])
        text = u"\n".join(lines)
        try:
            feature = bp.parse_feature(text, filename="%s.feature" % lang)
        except Exception as e:  # pylint: disable=broad-except
            emit("  %s RAISED %s: %s" % (lang, type(e).__name__, e))
            continue
        rows = []
        for item in feature.walk_scenarios(with_outlines=True):
            rows.append((type(item).__name__, item.line, item.keyword,
                         [(s.line, s.keyword, s.step_type) for s in item.steps]))
        emit("  %s: feature=%r/%r bg=%r rules=%r" % (
            lang, feature.keyword, feature.line,
            feature.background and [(s.line, s.keyword, s.step_type)
                                    for s in feature.background.steps],
            [(r.keyword, r.line) for r in feature.rules]))
        for row in rows:
            emit("    %r" % (row,))


run_case("every language / every alias", every_language_case)

text = u"\n".join(OUT) + u"\n"
if sys.version_info[0] < 3:
    text = text.encode("utf-8")
    sys.stdout.write(text)
else:
    sys.stdout.buffer.write(text.encode("utf-8"))
