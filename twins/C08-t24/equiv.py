# -*- coding: utf-8 -*-
"""Equivalence transcript for the C08 twins (v1 tag expressions / dialect auto-detection)."""
from __future__ import print_function
import sys
sys.path.insert(0, "/tmp/wtX/C08")
import itertools

from behave.tag_expression import make_tag_expression, TagExpressionProtocol
from behave.tag_expression.v1 import TagExpression as TagExpressionV1
from behave.tag_expression.builder import TagExpressionProtocol as TEP2
assert TEP2 is TagExpressionProtocol

UNIVERSE = ["a", "b", "c"]
ALL_TAG_SETS = [list(c) for n in range(len(UNIVERSE) + 1)
                for c in itertools.combinations(UNIVERSE, n)]
EXTRA_TAG_SETS = [["foo"], ["foo", "bar"], ["for"], ["order"], ["not"], ["a.b"],
                  ["foo.bar"], ["foo", "a"], ("a", "a", "b"), set(["b", "c"]),
                  frozenset(["a"]), iter(["a", "c"]), ["-a"], ["@a"], ["a:1"], [""]]


def describe(exc):
    return "%s: %s" % (type(exc).__name__, exc)


def truth_table(expr, tag_sets):
    out = []
    for tags in tag_sets:
        try:
            out.append("1" if expr.check(tags) else "0")
        except Exception as e:  # noqa
            out.append("E(%s)" % describe(e))
    return "".join(out)


def show(label, text_or_seq, protocol):
    head = "%s | %s | %r" % (label, protocol.name if protocol is not None else None,
                             text_or_seq)
    try:
        expr = make_tag_expression(text_or_seq, protocol)
    except Exception as e:  # noqa
        print(head, "=> RAISED", describe(e))
        return
    kind = type(expr).__module__.rsplit(".", 1)[-1] + "." + type(expr).__name__
    details = []
    if isinstance(expr, TagExpressionV1):
        details.append("ands=%r limits=%r len=%d" %
                       (expr.ands, sorted(expr.limits.items()), len(expr)))
        details.append("to_string=%r" % expr.to_string())
    try:
        details.append("str=%r repr=%r" % (str(expr), repr(expr)))
    except Exception as e:  # noqa
        details.append("str/repr RAISED %s" % describe(e))
    extra = [list(x) if not isinstance(x, (list, tuple, set, frozenset)) else x
             for x in EXTRA_TAG_SETS]
    print(head, "=>", kind, "|", " ".join(details),
          "| tt=", truth_table(expr, ALL_TAG_SETS),
          "| xt=", truth_table(expr, extra))


# ---------------------------------------------------------------------------
# 1. CNF formulas, all renderings, protocols v1 and auto_detect
# ---------------------------------------------------------------------------
NEG = ["", "-", "~"]
AT = ["", "@"]
literals = ["%s%s%s" % (n, a, t) for t in UNIVERSE for n in NEG for a in AT]
print("== SECTION 1: one-literal / two-literal clauses")
for lit in literals:
    for proto in (TagExpressionProtocol.V1, TagExpressionProtocol.AUTO_DETECT):
        show("lit-seq", [lit], proto)
        show("lit-str", lit, proto)
sample = ["a", "-a", "~@a", "@b", "-@b", "~c", "@c"]
for x, y in itertools.product(sample, repeat=2):
    for proto in (TagExpressionProtocol.V1, TagExpressionProtocol.AUTO_DETECT):
        show("or2", ["%s,%s" % (x, y)], proto)
        show("and2-seq", [x, y], proto)
        show("and2-str", "%s %s" % (x, y), proto)
        show("and2-tuple", (x, y), proto)

print("== SECTION 2: CNF 1..3 groups x 1..3 alternatives")
short = ["a", "-b", "~@c", "@a", "-@c", "b"]
count = 0
for ngroups in (1, 2, 3):
    for nalts in (1, 2, 3):
        pool = list(itertools.islice(itertools.cycle(short), count, count + ngroups * nalts))
        count += 1
        groups = [",".join(pool[i * nalts:(i + 1) * nalts]) for i in range(ngroups)]
        for proto in (TagExpressionProtocol.V1, TagExpressionProtocol.AUTO_DETECT):
            show("cnf-seq", groups, proto)
            show("cnf-str", " ".join(groups), proto)
            show("cnf-str-ws", "  " + "   ".join(groups) + " ", proto)

print("== SECTION 3: limits")
LIMITS = [
    ["a:1"], ["-a:2"], ["~@a:3"], ["@a:1,b:2"], ["a:1", "a:1"], ["a:1", "a:2"],
    ["a:1", "-a:2"], ["-a:1", "~a:1"], ["a:1,b", "a:1,c:4"], ["a:1:2"], ["a:"],
    ["a:x"], [":3"], ["-:3"], ["a:01"], ["a: 2"], ["a:-1"], ["a:1,a:2"],
    ["a:0", "a:0"], ["a:0", "a:1"], ["b", "a:1", "c", "a:3"], ["a:1.5"],
    ["@a:1", "~@a:1", "-a:7"],
]
for parts in LIMITS:
    for proto in (TagExpressionProtocol.V1, TagExpressionProtocol.AUTO_DETECT):
        show("limit-seq", parts, proto)
        show("limit-str", " ".join(parts), proto)

print("== SECTION 4: odd shapes / boundaries")
ODD = [
    "", " ", [], (), [""], ["", ""], [" "], ",", ["a,"], [",a"], ["a,,b"], ["-"], ["~"],
    ["@"], ["-@"], ["~@"], ["--a"], ["~-a"], ["-~a"], ["@@a"], ["@-a"], ["-@@a"],
    [" a , -b "], ["a , b"], "a , b", "a, b", ["a", ""], "foo", "@foo", "-foo", "~foo",
    "-@foo", "~@foo", "for", "order", "@order", "-order", "nothing", "-nothing", "android",
    "or", "and", "not", "-or", "~not", "not-a", "a-b", "a~b", "foo.bar", "a.*", "a*", "?a",
    "[ab]", "-a*", "~a?", "a* b", "a,b*", ["a*", "b"], ["a", "b"], ["a", "-b"],
    "a b", "a -b", "-a -b", "a,b c", "a,-b c", "@a,@b @c", "a and b", "a or b", "not a",
    "a and not b", "(a)", "(a or b) and c", "not (a or b)", "-a and b", "~a or b",
    "not -a", "a and -b", "(a) -b", "(-a)", "( ~a )", "-a,b and c", "a,b and c", "a,b or c",
    "a, b or c", "a and", "and a", "a or", "a not b", "a b and", "( a", "a )", "()",
    ["a and b", "c"], ["a or b", "not c"], ["not a", "b"], ["-a", "b or c"],
    ["a", "(b)"], "a  and   b", "@a and @b", "not @a or @b", "a(b)", "-a(b)", "a) (b",
    u"ä", u"-ä", u"ä,b", u"ä and b", None, 1, 1.5, {"a": 1}, set(["a"]),
    b"a", [b"a"], [1], ["a", None],
]
for item in ODD:
    for proto in (TagExpressionProtocol.V1, TagExpressionProtocol.AUTO_DETECT,
                  TagExpressionProtocol.V2, None):
        show("odd", item, proto)

print("== SECTION 5: v2 renderings under auto_detect")
V2 = []
for x, y, z in itertools.product(["a", "not a", "@a"], ["b", "not b"], ["c", "not @c"]):
    V2.append("%s and %s and %s" % (x, y, z))
    V2.append("%s or %s or %s" % (x, y, z))
    V2.append("(%s or %s) and %s" % (x, y, z))
    V2.append("%s or (%s and %s)" % (x, y, z))
    V2.append("not (%s and %s) or %s" % (x, y, z))
    V2.append("(%s or %s)and(%s)" % (x, y, z))
for text in V2:
    show("v2", text, TagExpressionProtocol.AUTO_DETECT)
    show("v2-seq", [text], TagExpressionProtocol.AUTO_DETECT)

print("== SECTION 6: v1 class used directly")
for tag in ["a", "@a", "-a", "~a", "-@a", "~@a", " a ", " @a", "@ a", "- a", "-@ a", "",
            " ", "@", "-", "~", "-@", "~@", "@@a", "@-a", "@~a", "--a", "~~a", "~-a", "-~a",
            "-@@a", "~@-a", "\t-@a\n", "a:1", "~a:1", u"ä", u"~@ä"]:
    print("normalize_tag", repr(tag), "=>", repr(TagExpressionV1.normalize_tag(tag)))
for arg in [None, 1, b"-@a", b"@a", b"a"]:
    try:
        print("normalize_tag", repr(arg), "=>", repr(TagExpressionV1.normalize_tag(arg)))
    except Exception as e:  # noqa
        print("normalize_tag", repr(arg), "=> RAISED", describe(e))
for expr in ["a,b", " a , ~@b,-c ", "", ",", "a:1,~b:2"]:
    gen = TagExpressionV1.normalized_tags_from_or(expr)
    print("normalized_tags_from_or", repr(expr), type(gen).__name__, list(gen))
te = TagExpressionV1([])
print("empty:", te.ands, te.limits, len(te), repr(str(te)), repr(te),
      te.check([]), te.check(None), te.check(["a"]))
te = TagExpressionV1(["a:1"])
te.store_and_extract_limits(iter(["-b:2", "c", "~d:3"]))
te.store_and_extract_limits([])
te.store_and_extract_limits(iter([]))
print("manual:", te.ands, sorted(te.limits.items()), len(te), str(te), repr(te))
for bad in (["a:2"], ["-a:2"], ["x", "y:z"], ["b:2", "b:3"]):
    try:
        te.store_and_extract_limits(bad)
        print("manual-add", bad, "ok")
    except Exception as e:  # noqa
        print("manual-add", bad, "RAISED", describe(e))
    print("  state:", te.ands, sorted(te.limits.items()))
te.limits["c"] = None
try:
    te.store_and_extract_limits(["c:5"])
except Exception as e:  # noqa
    print("limit-None RAISED", describe(e))
print("  state:", te.ands, sorted(te.limits.items()))
te = TagExpressionV1(["a,-b", "c"])
for tags in ([], None, "abc", "ac", ["a", "c"], ("b", "c"), iter(["c"]), [["x"]], 5):
    try:
        print("check", repr(tags) if not hasattr(tags, "__next__") else "<iter>",
              "=>", te.check(tags))
    except Exception as e:  # noqa
        print("check RAISED", describe(e))

print("== SECTION 7: protocol dispatch")
for name in ["v1", "V2", "auto_detect", "strict", "STRICT", "default", "any", ""]:
    try:
        member = TagExpressionProtocol.from_name(name)
        print("from_name", name, "=>", member, member.parse("a,b").__class__.__name__,
              member.parse(["-a", "b"]).__class__.__name__ if member.name != "V2" else "-")
    except Exception as e:  # noqa
        print("from_name", name, "RAISED", describe(e))
print("choices", TagExpressionProtocol.choices(), "current", TagExpressionProtocol.current())
for member in TagExpressionProtocol:
    TagExpressionProtocol.use(member)
    for text in ["-a", "a b", "a and b", "-a and b", "a", "a,b"]:
        try:
            e = make_tag_expression(text)
            print("use", member.name, repr(text), "=>", type(e).__name__, str(e))
        except Exception as e:  # noqa
            print("use", member.name, repr(text), "RAISED", describe(e))
TagExpressionProtocol.use("auto_detect")
print("current", TagExpressionProtocol.current())

print("== SECTION 8: auto-detect word predicates (module-private helpers, same names in both trees)")
from behave.tag_expression import builder as _b
WORDLISTS = [[], ["a"], ["and"], ["android"], ["a", "or"], ["(", "a", ")"], ["-a"], ["a-"],
             ["~a", "b"], ["a,b"], [","], ["a*"], ["?"], ["[a]"], ["a", "b", "c"], ("x", "not"),
             ["", ""], ["--"], ["a~"], [u"ä*"]]
for words in WORDLISTS:
    print(repr(words),
          "is_kw=%r" % _b._any_word_is_keyword(words, ["and", "or", "not", "(", ")"]),
          "is_kw0=%r" % _b._any_word_is_keyword(words, []),
          "has_kw=%r" % _b._any_word_contains_keyword(words, [","]),
          "has_kw2=%r" % _b._any_word_contains_keyword(words, ("or", "x")),
          "has_kw0=%r" % _b._any_word_contains_keyword(words, []),
          "wild=%r" % _b._any_word_contains_wildcards(words),
          "starts=%r" % _b._any_word_starts_with(words, ["~", "-"]),
          "starts1=%r" % _b._any_word_starts_with(words, ("a",)),
          "starts0=%r" % _b._any_word_starts_with(words, []))
