# -*- coding: utf-8 -*-
# Shared part of the equiv.py scripts (copied verbatim into each of them).
from __future__ import print_function
import io, os, re, shutil, subprocess, sys, tempfile
WORKTREE = "/tmp/wtX/C17"
sys.path.insert(0, WORKTREE)

ALPHA = u'''\
Feature: Alpha

  Scenario: A1 passes
    Given a step passes

  Scenario: A2 fails
    Given a step passes
    When a step fails
    Then a step passes

  Scenario: A3 errors
    Given a step raises an error

  Scenario: A4 undefined
    Given a step that does not exist

  @skip
  Scenario: A5 skipped
    Given a step fails

  Scenario Outline: A6 outline <outcome>
    Given a step <outcome>

    Examples: first
      | outcome |
      | passes  |
      | fails   |

    Examples: second
      | outcome         |
      | raises an error |
      | passes          |

  Scenario: A7 passes again
    Given a step passes
'''

BETA = u'''\
Feature: Beta (all good)

  Scenario: B1 passes
    Given a step passes

  Scenario: B2 passes
    Given a step passes
'''

GAMMA = u'''\
Feature: Gamma with rules

  Scenario: G1 errors first
    Given a step raises an error

  Rule: R1
    Scenario: G2 passes
      Given a step passes

    @hook_error
    Scenario: G3 hook error
      Given a step passes

    Scenario Outline: G4 <outcome>
      Given a step <outcome>

      Examples:
        | outcome |
        | fails   |
        | passes  |

  Rule: R2
    Scenario: G5 fails
      Given a step fails

    @skip
    Scenario: G6 skipped
      Given a step passes
'''

DELTA = u'''\
Feature: Delta skipped only
  @skip
  Scenario: D1 skipped
    Given a step fails
'''

STEPS = u'''\
from behave import given, when, then, step

@step(u'a step passes')
def step_passes(ctx):
    pass

@step(u'a step fails')
def step_fails(ctx):
    assert False, "XFAIL-STEP"

@step(u'a step raises an error')
def step_errors(ctx):
    raise RuntimeError("XERROR-STEP")
'''

ENVIRONMENT = u'''\
def before_scenario(ctx, scenario):
    if "skip" in scenario.tags:
        scenario.skip("SKIPPED-BY-HOOK")
    if "hook_error" in scenario.tags:
        raise RuntimeError("XHOOK-ERROR")
'''

def write_file(path, text):
    dirname = os.path.dirname(path)
    if dirname and not os.path.isdir(dirname):
        os.makedirs(dirname)
    with io.open(path, "w", encoding="utf-8") as f:
        f.write(text)

def make_project(workdir):
    write_file(os.path.join(workdir, "features/alpha.feature"), ALPHA)
    write_file(os.path.join(workdir, "features/beta.feature"), BETA)
    write_file(os.path.join(workdir, "features/sub/gamma.feature"), GAMMA)
    write_file(os.path.join(workdir, "features/sub/delta.feature"), DELTA)
    write_file(os.path.join(workdir, "features/steps/steps.py"), STEPS)
    write_file(os.path.join(workdir, "features/environment.py"), ENVIRONMENT)
    write_file(os.path.join(workdir, "behave.ini"),
               u"[behave]\nshow_timings = false\ncolor = false\nshow_skipped = true\n")

def normalize(text, workdir):
    text = text.replace(os.path.realpath(workdir), "<WORKDIR>")
    text = text.replace(workdir, "<WORKDIR>")
    text = re.sub(r"\b\d+m?\d*\.\d+s\b", "<T>s", text)
    text = re.sub(r'File "[^"]*", line \d+', 'File "<F>", line <N>', text)
    return text

def run_behave(args, workdir):
    env = dict(os.environ)
    env["PYTHONPATH"] = WORKTREE
    env["PYTHONDONTWRITEBYTECODE"] = "1"
    env.pop("COLUMNS", None)
    proc = subprocess.Popen([sys.executable, "-m", "behave"] + list(args),
                            cwd=workdir, env=env, stdout=subprocess.PIPE,
                            stderr=subprocess.STDOUT)
    output = proc.communicate()[0].decode("utf-8", "replace")
    print("$ behave %s" % " ".join(args))
    print("exit-code: %d" % proc.returncode)
    print(normalize(output, workdir))
    print("$ --end")

def show_file(path, workdir):
    relname = os.path.relpath(path, workdir)
    if not os.path.exists(path):
        print("FILE %s: <missing>" % relname)
        return
    if os.path.isdir(path):
        print("FILE %s: <directory>" % relname)
        return
    with io.open(path, encoding="utf-8") as f:
        print("FILE %s:" % relname)
        for line in f.read().splitlines(True):
            print("  | %r" % normalize(line, workdir))

def describe_exception(e):
    return "%s: %s" % (e.__class__.__name__, e)

def show_selection(paths, workdir, strict=True):
    """Closed loop: paths -> collect_feature_locations -> parse_features."""
    from behave.runner_util import collect_feature_locations, parse_features
    print("SELECT %r strict=%r" % (paths, strict))
    try:
        locations = collect_feature_locations(paths, strict=strict)
    except Exception as e:  # noqa
        print("  collect raised %s" % normalize(describe_exception(e), workdir))
        return
    for location in locations:
        print("  location: %s" % normalize(repr(location), workdir))
    try:
        features = parse_features(locations)
    except Exception as e:  # noqa
        print("  parse raised %s" % normalize(describe_exception(e), workdir))
        return
    for feature in features:
        print("  feature: %s should_run=%s" % (normalize(str(feature.location), workdir),
                                              feature.should_run()))
        for scenario in feature.walk_scenarios():
            print("    %-32s %-10s should_run=%s" % (
                normalize(str(scenario.location), workdir), scenario.status.name,
                scenario.should_run()))

def end_to_end(workdir):
    rerun = os.path.join(workdir, "rerun.txt")
    print("=== E2E 1: first run over all features")
    run_behave(["-f", "rerun", "-o", "rerun.txt", "-f", "plain", "features"], workdir)
    show_file(rerun, workdir)
    print("=== E2E 2: selection from rerun file (in-process)")
    show_selection(["@rerun.txt"], workdir)
    print("=== E2E 3: second run from rerun file, writes rerun2.txt")
    run_behave(["-f", "rerun", "-o", "rerun2.txt", "-f", "plain", "@rerun.txt"], workdir)
    show_file(os.path.join(workdir, "rerun2.txt"), workdir)
    print("=== E2E 4: all-passing run removes the stale rerun file")
    shutil.copy(rerun, os.path.join(workdir, "stale.txt"))
    run_behave(["-f", "rerun", "-o", "stale.txt", "-f", "plain", "features/beta.feature"], workdir)
    show_file(os.path.join(workdir, "stale.txt"), workdir)
    print("=== E2E 5: all-passing run without previous file")
    run_behave(["-f", "rerun", "-o", "none.txt", "features/beta.feature",
                "features/sub/delta.feature"], workdir)
    show_file(os.path.join(workdir, "none.txt"), workdir)
    print("=== E2E 6: only feature with error first, in subdir outfile")
    run_behave(["-f", "rerun", "-o", "out/dir/rerun3.txt", "features/sub/gamma.feature"], workdir)
    show_file(os.path.join(workdir, "out/dir/rerun3.txt"), workdir)
    show_selection(["@out/dir/rerun3.txt"], workdir)
    print("=== E2E 7: rerun formatter with descriptions on stdout")
    run_behave(["-f", "rerun", "-D", "x=1", "features/alpha.feature:7", "features/sub/gamma.feature:3"], workdir)

def main(specific):
    workdir = tempfile.mkdtemp(prefix="c17twin_")
    olddir = os.getcwd()
    try:
        make_project(workdir)
        os.chdir(workdir)
        specific(workdir)
        end_to_end(workdir)
    finally:
        os.chdir(olddir)
        shutil.rmtree(workdir, ignore_errors=True)

# ---------------------------------------------------------------------------
# SPECIFIC PART: FileLocationParser.parse and collect_feature_locations
# ---------------------------------------------------------------------------
def specific(workdir):
    from behave.runner_util import FileLocationParser, collect_feature_locations
    from behave.model_core import FileLocation

    print("=== T24.1: FileLocationParser.parse(text)")
    texts = [
        u"alice.feature", u"alice.feature:10", u"  alice.feature:10  ", u"\talice.feature : 10\n",
        u"alice.feature:0", u"alice.feature:007", u"alice.feature:123456789012345678901234567890",
        u"alice.feature:", u"alice.feature:-3", u"alice.feature:+3", u"alice.feature:1.5",
        u"alice.feature:3:4", u"a:b:c.feature:12", u":12", u"::12", u"12", u"", u"   ", u":",
        u"C:\\dir\\alice.feature:5", u"C:/dir/alice.feature", u"dir with space/a b.feature:9",
        u"alice.feature:10 # comment", u"alice.feature:1 0", u"alice.feature:\u0663",
        u"alice.feature:\u0661\u0662", u"alice.feature:\xb2", u"\xe4\xf6\xfc.feature:77",
        u"alice.feature:10\n", u"alice.feature:10\nbob.feature:3", u"\nalice.feature:10",
        u"features/", u"features/:3", u"@rerun.txt", u"@rerun.txt:4",
    ]
    for text in texts:
        try:
            location = FileLocationParser.parse(text)
            print("parse(%r) -> %s filename=%r line=%r type(line)=%s str=%r" % (
                text, type(location).__name__, location.filename, location.line,
                type(location.line).__name__, u"%s" % location))
        except Exception as e:  # noqa
            print("parse(%r) -> raised %s" % (text, describe_exception(e)))
    for bad in (None, 5, b"alice.feature:10", ["alice.feature:10"], FileLocation("alice.feature", 10)):
        try:
            location = FileLocationParser.parse(bad)
            print("parse(%r) -> filename=%r line=%r" % (bad, location.filename, location.line))
        except Exception as e:  # noqa
            print("parse(%r) -> raised %s" % (bad, describe_exception(e)))

    class OtherPatternParser(FileLocationParser):
        pattern = re.compile(r"^(?P<filename>[^#]*)#L(?P<line>\d+)$")
    for text in (u"alice.feature#L10", u"alice.feature:10", u" a.feature #L3"):
        location = OtherPatternParser.parse(text)
        print("OtherPatternParser.parse(%r) -> filename=%r line=%r" % (text, location.filename, location.line))

    print("=== T24.2: collect_feature_locations(paths, strict)")
    minimal = u"Feature: %s\n  Scenario: S\n    Given a step passes\n"
    for name in ("tree/zeta.feature", "tree/alpha.feature", "tree/Beta.feature", "tree/_x.feature",
                 "tree/10.feature", "tree/9.feature", "tree/readme.txt", "tree/x.feature.bak",
                 "tree/.hidden.feature", "tree/.feature", "tree/feature", "tree/UPPER.FEATURE",
                 "tree/b/two.feature", "tree/b/one.feature", "tree/b/deep/er/x.feature",
                 "tree/a/only.txt", "tree/a.b/dot.feature", "tree/B/upper_dir.feature",
                 "tree/steps/steps.py", "tree/c.feature/inside_dir_named_feature.feature",
                 "@atdir/in_at_dir.feature", "flat/one.feature", "emptydir/.keep"):
        write_file(name, minimal % name)
    os.remove("emptydir/.keep")
    os.symlink(os.path.join(workdir, "flat"), "tree/linked")
    os.symlink("nowhere", "tree/dangling.feature")
    write_file("list.txt", u"features/alpha.feature:6\nflat/one.feature\n")
    write_file("flat/list_in_flat.txt", u"one.feature:2\n")

    def collect(paths, **kwargs):
        shown = kwargs.pop("shown", None) or repr(paths)
        label = "collect(%s%s)" % (shown, "".join(", %s=%r" % kv for kv in sorted(kwargs.items())))
        try:
            locations = collect_feature_locations(paths, **kwargs)
        except Exception as e:  # noqa
            print("%s -> raised %s" % (normalize(label, workdir), normalize(describe_exception(e), workdir)))
            return
        print("%s -> %s, %d location(s)" % (normalize(label, workdir), type(locations).__name__, len(locations)))
        for location in locations:
            print("    %s" % normalize(repr(location), workdir))

    path_cases = [
        [], ["tree"], ["tree/"], ["./tree"], [os.path.join(workdir, "tree")], ["tree/b"], ["tree/a"],
        ["emptydir"], ["flat", "tree/b", "flat"], ["features"], ["features", "tree/b/one.feature"],
        ["features/alpha.feature"], ["features/alpha.feature:6"], ["features/alpha.feature:6", "features/alpha.feature:11"],
        ["  features/alpha.feature:6  "], ["features/alpha.feature:0"], ["features/alpha.feature:"],
        ["features/missing.feature"], ["features/missing.feature:4"], ["features/missing.feature", "features/beta.feature"],
        ["features/beta.feature", "features/missing.feature", "features/alpha.feature:3"],
        ["tree/readme.txt"], ["tree/readme.txt:3"], ["tree/missing.txt"], ["tree/x.feature.bak"],
        ["tree/UPPER.FEATURE"], ["tree/feature"], ["tree/.feature"], ["tree/dangling.feature"],
        ["tree/c.feature"], ["tree/c.feature:3"], ["nodir"], ["nodir/"], [""], [" "],
        ["@list.txt"], ["@flat/list_in_flat.txt"], ["@missing_list.txt"], ["@"], ["@atdir"], ["@@list.txt"],
        ["features/beta.feature", "@list.txt", "tree/b"], ["@list.txt", "@list.txt"],
        ["tree/linked"], ["tree/linked/one.feature:2"],
    ]
    for paths in path_cases:
        collect(paths)
        collect(paths, strict=False)
    collect(iter(["features/beta.feature", "tree/b"]), shown="iter([beta, tree/b])")
    collect("ab")
    collect(None)
    collect([None])
    collect([5])
    collect([FileLocation("features/beta.feature")])

    print("=== T24.3: order of os.walk pruning (dirnames sorted in place)")
    real_walk = os.walk
    def traced_walk(top, *args, **kwargs):
        for dirpath, dirnames, filenames in real_walk(top, *args, **kwargs):
            dirnames.sort(reverse=True)
            filenames.sort(reverse=True)
            print("    walk yields %s dirs=%r files=%r" % (normalize(dirpath, workdir), dirnames, filenames))
            yield dirpath, dirnames, filenames
            print("    walk resumed: dirs=%r files=%r" % (dirnames, filenames))
    os.walk = traced_walk
    try:
        collect(["tree", "flat"])
    finally:
        os.walk = real_walk

    print("=== T24.4: closed loop with directories and locations")
    show_selection(["tree/b", "features/alpha.feature:27", "features/alpha.feature:6", "@list.txt"], workdir)
    show_selection(["features/missing.feature", "features/beta.feature:6"], workdir, strict=False)
    show_selection(["features/missing.feature", "features/beta.feature:6"], workdir, strict=True)
    print("=== T24.5: behave command line with missing and invalid paths")
    run_behave(["-f", "rerun", "features/missing.feature"], workdir)
    run_behave(["-f", "rerun", "tree/readme.txt"], workdir)
    run_behave(["-f", "rerun", "-o", "rerun_t24.txt", "features/sub", "features/alpha.feature:12"], workdir)
    show_file(os.path.join(workdir, "rerun_t24.txt"), workdir)


if __name__ == "__main__":
    main(specific)
