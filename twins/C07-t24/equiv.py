# -*- coding: UTF-8 -*-
"""
Equivalence transcript for property C07 (tag expressions v2):
truth tables, printing, re-parsing, error messages, {config.tags} substitution.
Prints a canonical transcript on stdout.
"""
from __future__ import absolute_import, print_function
import sys
sys.path.insert(0, "/tmp/wtX/C07")

import itertools
import random
import re
import os
import tempfile

import behave
assert behave.__file__.startswith("/tmp/wtX/C07/"), behave.__file__
from behave.tag_expression import make_tag_expression, TagExpressionProtocol
from behave.tag_expression.builder import (
    _parse_tag_expression_v2, _select_tag_expression_parser4auto,
)
from behave.tag_expression.parser import TagExpressionParser
from behave.tag_expression.model import (
    Expression, Literal, And, Or, Not, True_, Matcher, Never
)
from behave.configuration import Configuration


_ADDRESS = re.compile(r"0x[0-9a-fA-F]+")


def out(*args):
    print(_ADDRESS.sub("0xADDR", " | ".join(str(a) for a in args)))


def guarded(func, *args, **kwargs):
    try:
        return "OK", func(*args, **kwargs)
    except BaseException as e:  # noqa
        return "EXC", "%s: %s" % (type(e).__name__, e)


def subsets(universe):
    for n in range(len(universe) + 1):
        for combo in itertools.combinations(universe, n):
            yield list(combo)


def truth_table(expr, universe):
    bits = []
    for tags in subsets(universe):
        status, value = guarded(expr.check, tags)
        if status == "OK":
            bits.append({True: "1", False: "0"}.get(value, repr(value)))
        else:
            bits.append("<%s>" % value)
    return "".join(bits)


def describe(expr, universe):
    parts = [type(expr).__name__, repr(expr), "str=%r" % str(expr)]
    if hasattr(expr, "to_string"):
        parts.append("pretty=%r" % expr.to_string())
        parts.append("plain=%r" % expr.to_string(pretty=False))
        parts.append("pretty0=%r" % expr.to_string(0))
        parts.append("pretty1=%r" % expr.to_string("yes"))
    parts.append("tt=" + truth_table(expr, universe))
    return parts


# ---------------------------------------------------------------------------
# 1. exhaustive expression trees (depth <= 2) x renderings x full truth table
# ---------------------------------------------------------------------------
UNIVERSE = ["a", "b", "a.x", "A"]
LEAVES = ["a", "b", "a.*", "?", "[ab]"]


def trees(depth):
    if depth == 0:
        for leaf in LEAVES:
            yield ("leaf", leaf)
        return
    for sub in trees(depth - 1):
        yield sub
    smaller = list(trees(depth - 1))
    for sub in smaller:
        yield ("not", sub)
    for op in ("and", "or"):
        for left in smaller:
            for right in smaller:
                yield (op, left, right)


def render(tree, style):
    kind = tree[0]
    if kind == "leaf":
        text = tree[1]
        if style in (1, 3):
            text = "@" + text
        if style == 2:
            text = "(" + text + ")"
        return text
    if kind == "not":
        inner = render(tree[1], style)
        if style == 3:
            return "not  ( %s )" % inner
        return "not (%s)" % inner
    left = render(tree[1], style)
    right = render(tree[2], style)
    if style == 3:
        return "( %s  %s  %s )" % (left, kind, right)
    return "(%s %s %s)" % (left, kind, right)


def semantic(tree, tags):
    from fnmatch import fnmatchcase
    kind = tree[0]
    if kind == "leaf":
        return any(fnmatchcase(t, tree[1]) for t in tags)
    if kind == "not":
        return not semantic(tree[1], tags)
    if kind == "and":
        return semantic(tree[1], tags) and semantic(tree[2], tags)
    return semantic(tree[1], tags) or semantic(tree[2], tags)


out("== SECTION 1: exhaustive trees")
seen = set()
count = 0
for tree in trees(2):
    if tree in seen:
        continue
    seen.add(tree)
    count += 1
    expected = "".join("1" if semantic(tree, tags) else "0"
                       for tags in subsets(UNIVERSE))
    row = []
    for style in (0, 1, 2, 3):
        text = render(tree, style)
        for protocol in (TagExpressionProtocol.V2, None):
            status, expr = guarded(make_tag_expression, text, protocol)
            if status != "OK":
                row.append("EXC " + expr)
                continue
            tt = truth_table(expr, UNIVERSE)
            printed = str(expr)
            pretty = expr.to_string()
            plain = expr.to_string(pretty=False)
            status2, expr2 = guarded(make_tag_expression, pretty,
                                     TagExpressionProtocol.V2)
            tt2 = truth_table(expr2, UNIVERSE) if status2 == "OK" else expr2
            status3, expr3 = guarded(make_tag_expression, printed,
                                     TagExpressionProtocol.V2)
            tt3 = truth_table(expr3, UNIVERSE) if status3 == "OK" else expr3
            row.append("%s|%s|%s|%s|%s|%s|%s|%s" % (
                tt == expected, tt, printed, pretty, plain, repr(expr),
                tt2 == tt, tt3 == tt))
    out(render(tree, 0), expected, *row)
out("trees", count)

# ---------------------------------------------------------------------------
# 2. random larger trees
# ---------------------------------------------------------------------------
out("== SECTION 2: random trees")
rnd = random.Random(20240707)
UNIVERSE2 = ["a", "b", "a.x", "a-b", "k=v", "A"]
LEAVES2 = ["a", "b", "a.x", "a-b", "k=v", "a*", "*=*", "?-?", "[a-b]", "A",
           "[!a]", "*"]


def random_tree(depth):
    if depth == 0 or rnd.random() < 0.2:
        return ("leaf", rnd.choice(LEAVES2))
    pick = rnd.random()
    if pick < 0.3:
        return ("not", random_tree(depth - 1))
    op = "and" if pick < 0.65 else "or"
    return (op, random_tree(depth - 1), random_tree(depth - 1))


for i in range(150):
    tree = random_tree(rnd.randint(2, 5))
    style = rnd.randint(0, 3)
    text = render(tree, style)
    expected = "".join("1" if semantic(tree, tags) else "0"
                       for tags in subsets(UNIVERSE2))
    status, expr = guarded(make_tag_expression, text, TagExpressionProtocol.V2)
    if status != "OK":
        out(i, text, "EXC", expr)
        continue
    tt = truth_table(expr, UNIVERSE2)
    pretty = expr.to_string()
    expr2 = make_tag_expression(pretty, TagExpressionProtocol.V2)
    out(i, text, tt == expected, tt, str(expr), pretty, repr(expr),
        truth_table(expr2, UNIVERSE2) == tt, expr2.to_string() == pretty)

# ---------------------------------------------------------------------------
# 3. fixed texts: boundary forms, list forms, errors, all protocols
# ---------------------------------------------------------------------------
out("== SECTION 3: fixed inputs")
TEXTS = [
    "", " ", "  ", "a", "@a", "@@a", "a@b", "not a", "not @a", "not not a",
    "not (a and b)", "not (a or b)", "not (not a)", "not a.*", "not (a.*)",
    "a and b", "a  and  b", "a   and   b", "a and b and a.x",
    "a or b or a.x", "a and b or a.x", "a or b and a.x",
    "(a)", "((a))", "( a )", "(a and (b or (a.x)))",
    "@a and @b", "@a.* or @*.x", "a.? and not [ab]", "[!a]", "[a", "a]",
    "*", "?", "a*b", "k=v", "k=*", "a-b", "-a", "~a", "~@a", "-@a",
    "a,b", "@a,@b", "a b", "@a @b", "~a b", "a,b c",
    "a and", "and", "or", "not", "a not b", "a b and c", "(a", "a)", "()",
    "( )", "a and ()", "not ()", "a or or b", "a and and b",
    "a\\ b", "a\\(b\\)", "\\(a", "a\\", "a\\b",
    "not a and ~b", "a.* -b", "a* ~b", "(a) ~b",
    u"ä and b", u"@ä.*",
    "A", "a and A", "not A",
    "true", "false", "never", "True",
    "a and\tb", "a\nand\nb", " a ", "  a  and  b  ",
    "a  b", "@a  @b",
]
PROTOCOLS = [None, TagExpressionProtocol.V1, TagExpressionProtocol.V2,
             TagExpressionProtocol.AUTO_DETECT, TagExpressionProtocol.STRICT]
UNIVERSE3 = ["a", "b", "a.x", "A"]
for text in TEXTS:
    for protocol in PROTOCOLS:
        status, expr = guarded(make_tag_expression, text, protocol)
        if status != "OK":
            out(repr(text), protocol, "EXC", expr)
            continue
        out(repr(text), protocol, *describe(expr, UNIVERSE3))
    status, func = guarded(_select_tag_expression_parser4auto, text)
    out(repr(text), "auto-select", status,
        getattr(func, "__name__", func))

out("== SECTION 3b: sequence forms and bad types")
SEQS = [
    [], (), ["a"], ("a",), ["@a"], ["a", "b"], ("a", "b"), ["@a", "@b"],
    ["a or b", "a.x"], ["a or b", "not a.x"], ["not a", "not b"],
    ["a.*", "@b"], ["@a  or  @b"], ["a", ""], [""], ["a b"], ["a,b", "c"],
    ["~a", "b"], ["-a"], ["a and", "b"], ["(a", "b)"], ["a)", "(b"],
    [1], ["a", 2], [None], [["a"]], [("a", "b")],
    None, 1, 1.5, b"a", b"a and b", {"a"}, {"a": 1}, iter(["a"]), object,
    bytearray(b"a"),
]
for seq in SEQS:
    for protocol in PROTOCOLS:
        shown = repr(seq) if not hasattr(seq, "__next__") else "<iterator>"
        if hasattr(seq, "__next__"):
            seq = iter(["a"])
        before = repr(seq)
        status, expr = guarded(make_tag_expression, seq, protocol)
        unchanged = (repr(seq) == before) or hasattr(seq, "__next__")
        if status != "OK":
            out(shown, protocol, "EXC", expr, "arg-unchanged=%s" % unchanged)
            continue
        out(shown, protocol, "arg-unchanged=%s" % unchanged,
            *describe(expr, UNIVERSE3))
    status, expr = guarded(_parse_tag_expression_v2, seq)
    out(shown, "direct-v2", status,
        expr if status != "OK" else describe(expr, UNIVERSE3))


class MyText(str):
    def replace(self, *args):
        LOG.append(("MyText.replace",) + args)
        return MyText(str.replace(self, *args))


class MyList(list):
    pass


class MyTuple(tuple):
    pass


LOG = []
for value in [MyText("@a and @b"), MyText("a and b"), MyText("a  or  b"),
              MyList(["@a", "b or a.x"]), MyTuple(("a", "not b"))]:
    del LOG[:]
    for protocol in PROTOCOLS:
        status, expr = guarded(make_tag_expression, value, protocol)
        out(type(value).__name__, repr(value), protocol, status,
            expr if status != "OK" else describe(expr, UNIVERSE3))
    out("direct-v2", type(value).__name__,
        describe(_parse_tag_expression_v2(value), UNIVERSE3))

# ---------------------------------------------------------------------------
# 4. model classes used directly
# ---------------------------------------------------------------------------
out("== SECTION 4: model classes")
MODELS = [
    Literal("a"), Literal("a b"), Literal("a(b)"), Literal("a\\b"),
    Matcher("a.*"), Matcher("*"), Matcher("?"), Matcher("[ab]"),
    Matcher("[!a]"), Matcher("a"), Matcher(""), Matcher("A*"),
    True_(), Never(),
    Not(Literal("a")), Not(Matcher("a.*")), Not(True_()), Not(Never()),
    Not(Not(Literal("a"))), Not(Not(Not(Matcher("?")))),
    Not(And(Literal("a"), Literal("b"))), Not(Or(Literal("a"), Matcher("b*"))),
    Not(And()), Not(Or()), Not(And(Literal("a"))),
    And(), Or(), And(Literal("a")), Or(Literal("a")),
    And(Not(Literal("a")), Not(And(Literal("b"), Literal("a.x")))),
    Or(Not(Or(Literal("a"), Literal("b"))), Not(True_())),
    And(Literal("a"), Literal("b"), Matcher("a.?")),
    Not("plain-text"), Not(None), Not(42), Not(("a", "b")), Not(["a"]),
]


class MyAnd(And):
    pass


class MyOr(Or):
    def __str__(self):
        return "<<%s>>" % "|".join(str(t) for t in self.terms)


class Odd(Expression):
    def evaluate(self, values):
        return len(list(values)) % 2 == 1

    def __str__(self):
        return "( odd )"

    def __format__(self, spec):
        return "FORMATTED-ODD"


MODELS += [Not(MyAnd(Literal("a"), Literal("b"))),
           Not(MyOr(Literal("a"), Literal("b"))),
           Not(Odd()), And(Odd(), Not(Odd()))]

for model in MODELS:
    status, parts = guarded(describe, model, UNIVERSE3)
    out(status, parts)
    out("  call", guarded(model, ["a"]), guarded(model, []),
        "name", guarded(getattr, model, "name", "<none>"))


class Noisy(object):
    """Iterable that logs how far it is consumed."""
    def __init__(self, items):
        self.items = items
        self.log = []

    def __iter__(self):
        for item in self.items:
            self.log.append(item)
            yield item


out("== SECTION 4b: Matcher.evaluate details")
for pattern in ["a*", "*", "?", "zzz", "[ab]", "", "A*", "a.\\*", "[", "[]]",
                "a[", "**", "*.*", "[a-c]x", "[!a-c]x"]:
    matcher = Matcher(pattern)
    for values in (["b", "a1", "a2", "c"], [], ["A1"], ["zzz"], [""], ["["],
                   ["]"], ["a["], ["a.*"], ["bx", "dx"], ("a",), {"a1"},
                   "abc", "", ["a", 1], [1, "a"], [None], None, 5,
                   [b"a"], [u"ä"]):
        noisy = None
        if isinstance(values, list):
            noisy = Noisy(values)
        status, value = guarded(matcher.evaluate,
                                noisy if noisy is not None else values)
        out(repr(pattern), repr(values), status, repr(value),
            "consumed=%r" % (noisy.log if noisy is not None else None),
            "check", guarded(matcher.check, values),
            "call", guarded(matcher, values))
    out(repr(pattern), "wild=%r" % Matcher.contains_wildcards(pattern),
        "inst-wild=%r" % matcher.contains_wildcards(pattern),
        type(TagExpressionParser.make_operand(pattern)).__name__,
        repr(TagExpressionParser.make_operand(pattern)),
        str(matcher), repr(matcher), matcher.name, matcher.pattern)
for bad in [None, 1, b"a*", b"a", ["a*"], ("a",)]:
    out("contains_wildcards", repr(bad),
        guarded(Matcher.contains_wildcards, bad),
        "make_operand", guarded(
            lambda: repr(TagExpressionParser.make_operand(bad))))
gen = (x for x in ["q", "a1", "zz", "a2"])
out("generator", Matcher("a*").evaluate(gen), "rest", list(gen))
gen = (x for x in ["q", "zz"])
out("generator", Matcher("a*").evaluate(gen), "rest", list(gen))
matcher = Matcher("a*")
matcher.pattern = "b*"
out("re-pattern", matcher.evaluate(["a1"]), matcher.evaluate(["b1"]),
    str(matcher), repr(matcher), matcher.name)


class SubMatcher(Matcher):
    def evaluate(self, values):
        return "sub:%s" % super(SubMatcher, self).evaluate(values)


out("submatcher", SubMatcher("a*").evaluate(["a1"]),
    SubMatcher("a*").check(["b"]), SubMatcher("a*")(["b"]),
    Not(SubMatcher("a*")).evaluate(["a1"]), str(Not(SubMatcher("a*"))))


class SubParser(TagExpressionParser):
    @classmethod
    def make_operand(cls, text):
        operand = super(SubParser, cls).make_operand(text)
        return Not(operand)


expr = SubParser.parse("a.* and b")
out("subparser", repr(expr), str(expr), truth_table(expr, UNIVERSE3))
out("parser.parse", repr(TagExpressionParser.parse("a.* or not b")),
    repr(TagExpressionParser().parse("x?")))

# ---------------------------------------------------------------------------
# 5. protocol state: use()/current()
# ---------------------------------------------------------------------------
out("== SECTION 5: TagExpressionProtocol state")
out("initial", TagExpressionProtocol.current(),
    "_current" in TagExpressionProtocol.__dict__)
for name in ["v1", "V2", "auto_detect", "strict", "Strict", "default",
             "bogus", "", TagExpressionProtocol.V1, TagExpressionProtocol.V2,
             TagExpressionProtocol.AUTO_DETECT, None, 1]:
    status, value = guarded(TagExpressionProtocol.use, name)
    out("use", repr(name), status, value, "current",
        TagExpressionProtocol.current(),
        [repr(guarded(lambda t=t: describe(make_tag_expression(t), UNIVERSE3)))
         for t in ("a b", "a and b", "-a", "a*")])
out("choices", TagExpressionProtocol.choices(),
    [m.name for m in TagExpressionProtocol])
TagExpressionProtocol.use(TagExpressionProtocol.DEFAULT)

# ---------------------------------------------------------------------------
# 6. Configuration.setup_tag_expression with {config.tags}
# ---------------------------------------------------------------------------
out("== SECTION 6: Configuration")
workdir = tempfile.mkdtemp()
os.chdir(workdir)


def show_config(config):
    expr = config.tag_expression
    return ["tags=%r" % (config.tags,), type(config.tags).__name__,
            "config_tags=%r" % (config.config_tags,),
            "default_tags=%r" % (config.default_tags,),
            type(expr).__name__, "str=%r" % str(expr),
            "pretty=%r" % (expr.to_string() if hasattr(expr, "to_string")
                           else None),
            "tt=" + truth_table(expr, UNIVERSE3),
            "current=%s" % TagExpressionProtocol.current()]


CONFIG_TAGS = [None, "", "a", "@a", "not a", "a and b", "a or b",
               "not (a or b)", "a.* and not b", ["a", "b"], ["a or b", "a.x"],
               "a b", "-a", "a and", "a,b"]
CMD_TAGS = [
    None, "", "b", "{config.tags}", "{config.tags} and b",
    "not {config.tags}", "not ({config.tags})", "({config.tags}) or A",
    "{config.tags} or {config.tags}", "x{config.tags}", "{config.tags",
    "{config.tags} -b",
    ["{config.tags}"], ["{config.tags}", "b"], ["b", "not ({config.tags})"],
    ["A", "b"], [], ["{config.tags} or A", "{config.tags}"],
    ("b", "A"), ("{config.tags}", "b"), (), ("b",),
    MyText("{config.tags} and b"), MyText("b"),
    MyList(["{config.tags}", "b"]), MyTuple(("b", "a")),
    [MyText("{config.tags}"), MyText("b")],
    ["b", 1], [1, "b"], ["{config.tags}", None], 5, {"b"},
]
for protocol_name in ["auto_detect", "strict", "v1"]:
    for config_tags in CONFIG_TAGS:
        status, config = guarded(
            Configuration, [], load_config=False, config_tags=config_tags,
            tag_expression_protocol=TagExpressionProtocol.from_name(
                protocol_name))
        if status != "OK":
            out("Configuration()", protocol_name, repr(config_tags), "EXC",
                config)
            continue
        out("Configuration()", protocol_name, repr(config_tags),
            *show_config(config))
        for tags in CMD_TAGS:
            del LOG[:]
            if isinstance(tags, list):
                tags = type(tags)(tags)     # fresh copy per run
            original = tags
            shown = repr(tags)
            config.tags = None
            status, value = guarded(config.setup_tag_expression, tags)
            if status != "OK":
                out("  setup", protocol_name, repr(config_tags), shown, "EXC",
                    value, "arg-after=%r" % (original,),
                    "tags=%r" % (config.tags,), "log=%r" % LOG)
                continue
            out("  setup", protocol_name, repr(config_tags), shown,
                "same-object=%s" % (config.tags is original),
                "arg-after=%r" % (original,),
                "item-types=%r" % ([type(x).__name__ for x in config.tags]
                                   if isinstance(config.tags, (list, tuple))
                                   else None),
                "log=%r" % LOG, *show_config(config))

out("== SECTION 6b: command line")
CMDLINES = [
    [], ["--tags", "a"], ["--tags=@a and @b"], ["--tags", "a", "--tags", "b"],
    ["--tags=a or b", "--tags=not a.x"], ["--tags=~a"], ["--tags=a,b"],
    ["--tags={config.tags} and b"], ["--tags={config.tags}", "--tags=b"],
    ["--tags=not ({config.tags})"], ["--tags=a and"], ["--tags=-a and b"],
    ["--wip"], ["--tags=a*"],
]
for config_tags in [None, "a or A", ["a", "A"], "not a"]:
    for default_tags in ["", "not b", None]:
        for args in CMDLINES:
            status, config = guarded(Configuration, list(args),
                                     load_config=False,
                                     config_tags=config_tags,
                                     default_tags=default_tags)
            if status != "OK":
                out(repr(config_tags), repr(default_tags), args, "EXC", config)
                continue
            out(repr(config_tags), repr(default_tags), args,
                *show_config(config))

out("== SECTION 6c: config file")
with open(os.path.join(workdir, "behave.ini"), "w") as f:
    f.write("[behave]\ntags = @a or @A\ntag_expression_protocol = strict\n")
for args in CMDLINES:
    status, config = guarded(Configuration, list(args))
    if status != "OK":
        out("ini", args, "EXC", config)
        continue
    out("ini", args, *show_config(config))
os.remove(os.path.join(workdir, "behave.ini"))
TagExpressionProtocol.use(TagExpressionProtocol.DEFAULT)
out("== DONE")
