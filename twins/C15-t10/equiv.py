# -*- coding: utf-8 -*-
# Equivalence transcript for a behaviour-preserving refactoring (property C15).
# Self-contained: builds a feature tree in a scratch directory, runs behave as
# a subprocess (PYTHONPATH=/tmp/wtV/C15) with many formatter combinations and
# prints every report, the event log of a recording formatter and the model
# read back from the JSON report; then runs direct in-process probes.
from __future__ import print_function, unicode_literals
import sys
sys.path.insert(0, "/tmp/wtV/C15")
import io
import json
import os
import re
import shutil
import subprocess
import tempfile

WORKTREE = "/tmp/wtV/C15"
PYTHON = "/venv/bin/python"

FILES = {}
FILES["features/basic.feature"] = u'''
@feat @smoke
Feature: Basic fäature ☃
  A description line.
  Second description line.

  Background: common
    Given a passing step
    And a step with number 7

  @one
  Scenario: All pass with table and text
    Given a table step
      | name  | value |
      | Älice | 1     |
      | Bob   | a\\|b  |
    When a docstring step
      """
      first line
        indented ü line
      last "quoted" line
      """
    Then a step with number 42 and word "hello"
    And a step with custom type <3,4>

  @two
  Scenario: Failing in the middle
    Given a passing step
    When a failing step
    Then a passing step
    And an undefined step here

  Scenario: Error with traceback
    Given a step that raises an error
    Then a passing step

  Scenario: Undefined first
    Given some completely unknown step
    Then a passing step

  @skip
  Scenario: Skipped by tag
    Given a passing step
    When a failing step

  @hook_skip
  Scenario: Skipped by hook
    Given a passing step

  Scenario: Skips itself in step
    Given a passing step
    When the step skips the scenario
    Then a failing step

  Scenario: Pending step
    Given a pending step
    Then a passing step

  Scenario: Multi-line failure
    Given a step failing with multi-line message
    Then a passing step

  Scenario: Attachment
    Given a step that attaches data
    Then a passing step

  @wip
  Scenario: Wip pending
    Given a pending step
    Then a passing step

  Scenario:
    Given a passing step
'''

FILES["features/rules.feature"] = u'''
@rules
Feature: Rules and backgrounds

  Background: feature background
    Given a passing step

  Scenario: Before any rule
    When a step with number 1

  @r1
  Rule: First rule
    Some rule description.

    Background: rule one background
      Given a step with number 2

    Scenario: R1 first
      When a passing step
      Then a table step
        | a |
        | 1 |

    @two
    Scenario: R1 failing
      When a failing step
      Then a passing step

    Scenario Outline: R1 outline <word>
      When a step with number <num> and word "<word>"

      Examples: Good
        | num | word  |
        | 1   | one   |
        | 2   | zwölf |

      @skip
      Examples: Skipped
        | num | word |
        | 3   | tri  |

  Rule: Second rule without background

    Scenario: R2 first
      When a docstring step
        """
        only line
        """

    @skip
    Scenario: R2 skipped
      When a passing step

  Rule: Third rule background only

    Background:
      Given a failing step

    Scenario: R3 background fails
      When a passing step

    Scenario: R3 again
      When a passing step
'''

FILES["features/outline.feature"] = u'''
Feature: Outlines

  Scenario Outline: Compute <a> plus <b>
    Given a step with number <a>
    When a step with number <b> and word "<w>"
    Then a table step
      | col     | other |
      | <a>     | <w>   |

    @ex1
    Examples: First
      | a | b | w    |
      | 1 | 2 | x    |
      | 3 | 4 | fail |

    @ex2 @two
    Examples: Second ☃
      | a  | b  | w |
      | 10 | 20 | y |

  Scenario: After outline
    Given a passing step
'''

FILES["features/empty.feature"] = u'''
Feature: Empty feature without scenarios
  Nothing here.
'''

FILES["features/zz_all_skipped.feature"] = u'''
@skip
Feature: Everything skipped

  Background:
    Given a passing step

  Scenario: S1
    When a failing step

  Scenario: S2
    When a passing step
'''

FILES["features/steps/steps.py"] = u'''# -*- coding: utf-8 -*-
from __future__ import unicode_literals
from behave import given, when, then, step, register_type
from behave.api.pending_step import StepNotImplementedError


class Point(object):
    def __init__(self, x, y):
        self.x = x
        self.y = y


def parse_point(text):
    x, y = text.split(",")
    return Point(int(x), int(y))

register_type(Point=parse_point)


@step("a passing step")
def step_pass(ctx):
    pass

@step("a failing step")
def step_fail(ctx):
    assert False, "XFAIL: expected ä failure"

@step("a step failing with multi-line message")
def step_fail_ml(ctx):
    assert False, "line one\\nline two ☃\\nline three"

@step("a step that raises an error")
def step_error(ctx):
    raise RuntimeError("boom ü")

@step("a pending step")
def step_pending(ctx):
    raise StepNotImplementedError("not yet")

@step("a table step")
def step_table(ctx):
    assert ctx.table is not None
    if any(cell == "fail" for row in ctx.table for cell in row):
        assert False, "table asked to fail"

@step("a docstring step")
def step_text(ctx):
    assert ctx.text

@step("a step with number {n:d}")
def step_number(ctx, n):
    assert isinstance(n, int)

@step('a step with number {n:d} and word "{word}"')
def step_number_word(ctx, n, word):
    if word == "fail":
        assert False, "word asked to fail"

@step("a step with custom type <{point:Point}>")
def step_point(ctx, point):
    assert point.x == 3

@step("the step skips the scenario")
def step_skip(ctx):
    ctx.scenario.skip("skipped in step")

@step("a step that attaches data")
def step_attach(ctx):
    ctx.attach("text/plain", b"hello bytes")
    ctx.attach("image/png", b"\\x89PNG\\x00\\x01")
'''

FILES["features/environment.py"] = u'''# -*- coding: utf-8 -*-
def before_scenario(ctx, scenario):
    if "hook_skip" in scenario.effective_tags:
        scenario.skip("by hook")
'''

FILES["recfmt.py"] = u'''# -*- coding: utf-8 -*-
from __future__ import unicode_literals
from behave.formatter.base import Formatter


class Recorder(Formatter):
    """Records the formatter event stream, one line per event."""
    name = "recorder"

    def __init__(self, stream_opener, config):
        super(Recorder, self).__init__(stream_opener, config)
        self.stream = self.open()

    def _w(self, text):
        self.stream.write(text + "\\n")

    def uri(self, uri):
        self._w("uri %s" % uri)

    def feature(self, feature):
        self._w("feature %s [%s] tags=%s" % (feature.name, feature.location,
                                            ",".join(feature.tags)))

    def rule(self, rule):
        self._w("rule %s [%s]" % (rule.name, rule.location))

    def background(self, background):
        self._w("background %r [%s] steps=%d" % (background.name,
                background.location, len(background.steps)))

    def scenario(self, scenario):
        self._w("scenario %s [%s] tags=%s" % (scenario.name, scenario.location,
                                             ",".join(scenario.tags)))

    def step(self, step):
        self._w("  step %s %s [%s] status=%s text=%r table=%r" % (
            step.keyword, step.name, step.location, step.status.name,
            step.text, step.table and [step.table.headings] +
            [list(r) for r in step.table.rows]))

    def match(self, match):
        args = [(a.name, a.original, repr(a.value) if isinstance(a.value, (int, str)) else type(a.value).__name__)
                for a in (match.arguments or [])]
        self._w("  match %s loc=%s args=%r" % (type(match).__name__,
                                              match.location, args))

    def result(self, step):
        self._w("  result %s [%s] %s err=%r" % (step.name, step.location,
                step.status.name, step.error_message))

    def embedding(self, mime_type, data):
        self._w("  embedding %s %r" % (mime_type, data))

    def eof(self):
        self._w("eof")

    def close(self):
        self._w("close")
        self.close_stream()
'''


def normalize(text, workdir):
    text = text.replace(workdir, "<WORK>")
    text = re.sub(r"\b\d+\.\d{3}s\b", "N.NNNs", text)
    text = re.sub(r"\b\d+m\d+\.\d{3}s\b", "NmN.NNNs", text)
    text = re.sub(r"line \d+", "line N", text)
    text = re.sub(r'("duration": )[-+0-9.e]+', r"\g<1>0", text)
    text = re.sub(r"0x[0-9a-fA-F]+", "0xADDR", text)
    # -- Python traceback caret/underline lines differ in nothing, keep them.
    return text


def write_tree(workdir):
    for relpath, content in sorted(FILES.items()):
        path = os.path.join(workdir, relpath)
        dirname = os.path.dirname(path)
        if not os.path.isdir(dirname):
            os.makedirs(dirname)
        with io.open(path, "w", encoding="utf-8") as f:
            f.write(content.lstrip("\n"))


ALL_FORMATS = ["plain", "progress", "progress2", "progress3", "json",
               "json.pretty", "pretty", "recfmt:Recorder", "behave.formatter.plain:Plain0Formatter", "null", "steps.usage",
               "steps.doc", "tags", "rerun"]


def run_behave(workdir, title, formats, extra_args, paths=("features",)):
    print("=" * 78)
    print("RUN: %s" % title)
    print("  formats: %s" % " ".join(formats))
    print("  args   : %s" % " ".join(extra_args))
    outdir = os.path.join(workdir, "out")
    if os.path.isdir(outdir):
        shutil.rmtree(outdir)
    os.makedirs(outdir)
    cmd = [PYTHON, "-m", "behave"]
    outfiles = []
    for i, fmt in enumerate(formats):
        outfile = os.path.join("out", "%02d_%s.txt" % (i, fmt.replace(":", "_")))
        outfiles.append((fmt, outfile))
        cmd += ["-f", fmt, "-o", outfile]
    cmd += list(extra_args) + list(paths)
    env = dict(os.environ)
    env["PYTHONPATH"] = WORKTREE + os.pathsep + workdir
    env["PYTHONIOENCODING"] = "utf-8"
    env["PYTHONDONTWRITEBYTECODE"] = "1"
    env.pop("BEHAVE_ARGS", None)
    proc = subprocess.Popen(cmd, cwd=workdir, env=env, stdout=subprocess.PIPE,
                            stderr=subprocess.PIPE)
    out, err = proc.communicate()
    print("  exit   : %s" % proc.returncode)
    print("--- stdout")
    print(normalize(out.decode("utf-8", "replace"), workdir))
    print("--- stderr")
    print(normalize(err.decode("utf-8", "replace"), workdir))
    for fmt, outfile in outfiles:
        path = os.path.join(workdir, outfile)
        print("--- report[%s]" % fmt)
        if not os.path.exists(path):
            print("<MISSING>")
            continue
        with io.open(path, "r", encoding="utf-8") as f:
            content = f.read()
        print(normalize(content, workdir))
        if fmt.startswith("json"):
            describe_json(path, content)


def loc(x):
    return "%s:%s" % (x.location.filename, x.location.line)


def describe_json(path, content):
    """Load the JSON report, and read it back with behave.json_parser."""
    print("--- json structure[%s]" % os.path.basename(path))
    try:
        data = json.loads(content)
    except ValueError as e:
        print("INVALID JSON: %s" % e)
        return
    for feature in data:
        print("F %s|%s|%s|%s|%s" % (feature.get("keyword"), feature.get("name"),
              feature.get("status"), feature.get("tags"), feature.get("location")))
        for element in feature.get("elements", []):
            print(" E %s|%s|%s|%s|%s|%s" % (element.get("type"),
                  element.get("keyword"), element.get("name"),
                  element.get("status", "<none>"), element.get("tags"),
                  element.get("location")))
            for st in element["steps"]:
                result = st.get("result")
                status = result and result["status"]
                err = result and result.get("error_message")
                if isinstance(err, list):
                    err = [re.sub(r"line \d+", "line N", x) for x in err]
                elif err:
                    err = re.sub(r"line \d+", "line N", err)
                match = st.get("match")
                print("  S %s|%s|%s|%s|keys=%s" % (st["keyword"], st["name"],
                      st["step_type"], status, sorted(st.keys())))
                if match:
                    print("    match.args=%s loc?=%s" % (
                        json.dumps(match["arguments"], sort_keys=True),
                        bool(match["location"])))
                if err:
                    print("    err=%s" % json.dumps(err)[:300].replace(
                        os.path.dirname(os.path.dirname(path)), "<WORK>"))
                if "text" in st:
                    print("    text=%s" % json.dumps(st["text"]))
                if "table" in st:
                    print("    table=%s" % json.dumps(st["table"], sort_keys=True))
                if "embeddings" in st:
                    print("    embeddings=%s" % json.dumps(st["embeddings"], sort_keys=True))
    print("--- json read back with behave.json_parser")
    from behave import json_parser
    try:
        features = json_parser.parse(path)
    except Exception as e:  # pylint: disable=broad-except
        print("json_parser: %s: %s" % (type(e).__name__, e))
        return
    for feature in features:
        print("F %s|%s|%s|%s|%s|bg=%s" % (feature.keyword, feature.name,
              feature.tags, feature.description, loc(feature),
              feature.background and (feature.background.name,
                                      len(feature.background.steps))))
        for scenario in feature.scenarios:
            print(" SC %s|%s|%s|%s|%s" % (scenario.keyword, scenario.name,
                  scenario.tags, scenario.description, loc(scenario)))
            for st in scenario.steps:
                print("  ST %s|%s|%s|%s|%s|text=%r|table=%s" % (
                    st.keyword, st.step_type, st.name, st.status.name,
                    loc(st), st.text,
                    st.table and ([st.table.headings] +
                                  [list(r) for r in st.table.rows])))


def standard_runs(workdir):
    base = ["--no-color", "--no-summary"]
    run_behave(workdir, "all formatters, defaults", ALL_FORMATS,
               ["--no-color", "--tags=not @skip"])
    run_behave(workdir, "show-skipped + timings",
               ["plain", "json.pretty", "progress3", "recfmt:Recorder", "progress2", "pretty"],
               base + ["--show-skipped", "--show-timings", "--tags=not @skip"])
    run_behave(workdir, "no-skipped, no timings, no multiline",
               ["recfmt:Recorder", "progress2", "plain", "json", "progress3", "pretty", "progress"],
               base + ["--no-skipped", "--no-timings", "--no-multiline", "--tags=not @skip"])
    run_behave(workdir, "dry-run",
               ["json.pretty", "plain", "recfmt:Recorder", "progress3", "progress2", "pretty"],
               base + ["--dry-run"])
    run_behave(workdir, "dry-run, no-skipped, tag two",
               ["plain", "recfmt:Recorder", "json", "progress3"],
               base + ["--dry-run", "--no-skipped", "--tags=@two"])
    run_behave(workdir, "colour on",
               ["pretty", "plain", "progress3", "json", "recfmt:Recorder"],
               ["--color=always", "--no-summary", "--tags=not @skip", "--no-timings"],
               paths=("features/rules.feature", "features/outline.feature"))
    run_behave(workdir, "stop at first failure",
               ["progress3", "plain", "json.pretty", "recfmt:Recorder", "progress2"],
               base + ["--stop", "--tags=not @skip"])
    run_behave(workdir, "only one formatter json",
               ["json"], base + ["--tags=@rules and not @skip"])
    run_behave(workdir, "name selection, no capture",
               ["plain", "json", "recfmt:Recorder", "progress3"],
               base + ["--no-capture", "-n", "R1", "--show-skipped"])
    run_behave(workdir, "no feature selected",
               ["json", "plain", "progress2", "progress3", "recfmt:Recorder"],
               base + ["--tags=@nonexistent", "--no-skipped"])
    run_behave(workdir, "wip mode",
               ["plain", "json", "recfmt:Recorder"],
               ["--no-summary", "--wip"])
    run_behave(workdir, "stdout formatter w/o outfile ordering",
               ["plain", "progress3"], base + ["--tags=@ex2"])


def main(twin_id, probes):
    workdir = os.path.join(WORKTREE, "_twins", twin_id, "_work")
    if os.path.isdir(workdir):
        shutil.rmtree(workdir)
    os.makedirs(workdir)
    try:
        write_tree(workdir)
        standard_runs(workdir)
        print("=" * 78)
        print("DIRECT PROBES")
        probes(workdir)
    finally:
        shutil.rmtree(workdir, ignore_errors=True)


# -----------------------------------------------------------------------------
# DIRECT PROBES: ModelDescriptor.describe_table / ModelPrinter.print_table
# -----------------------------------------------------------------------------
def probes(workdir):
    from behave.model_describe import ModelDescriptor, ModelPrinter, escape_cell
    from behave.model import Table, Row

    class FakeTable(object):
        def __init__(self, headings, rows):
            self.headings = headings
            self.rows = rows

    class CountingStr(str):
        """String that logs how it is used (only type-level behaviour)."""

    def attempt(label, func, *args, **kwargs):
        try:
            value = func(*args, **kwargs)
            print("%s ->\n%s<END> %r" % (label, value, value))
        except Exception as e:  # pylint: disable=broad-except
            print("%s -> %s: %s" % (label, type(e).__name__, e))

    tables = [
        ("simple", Table([u"a", u"b"], rows=[[u"1", u"2"], [u"333", u"4"]])),
        ("headings only", Table([u"name", u"value"])),
        ("one column", Table([u"x"], rows=[[u"long value"], [u""], [u"é"]])),
        ("unicode", Table([u"näme", u"☃"], rows=[[u"Älice", u"ü"],
                                                  [u"日本語", u"x"]])),
        ("escapes", Table([u"a|b", u"c\\d"], rows=[[u"line1\nline2", u"|"],
                                                     [u"\\|", u"\\n"]])),
        ("wide heading", Table([u"a very wide heading", u"b"],
                               rows=[[u"1", u"22"]])),
        ("empty cells", Table([u"", u""], rows=[[u"", u""], [u"", u"x"]])),
        ("no headings no rows", FakeTable([], [])),
        ("no headings, rows", FakeTable([], [[u"a"], []])),
        ("row longer than headings", FakeTable([u"h"], [[u"a", u"bbb"], [u"cc"]])),
        ("row shorter than headings", FakeTable([u"h1", u"h2"], [[u"a"]])),
        ("second row shorter", FakeTable([u"h1", u"h2"], [[u"a", u"b"], [u"c"]])),
        ("tuples", FakeTable((u"h1", u"h2"), [(u"a", u"b")])),
        ("non-string cell", FakeTable([u"h"], [[1]])),
        ("none cell", FakeTable([u"h"], [[None]])),
        ("none headings", FakeTable(None, [[u"a"]])),
        ("none rows", FakeTable([u"h"], None)),
        ("str subclass", FakeTable([CountingStr("h|")], [[CountingStr("v\n")]])),
        ("many columns", Table([u"c%d" % i for i in range(12)],
                               rows=[[u"x" * ((i * j) % 7) for i in range(12)]
                                     for j in range(6)])),
    ]
    for label, table in tables:
        for indentation in (None, "", u"      ", u"\t", 4):
            attempt("describe_table[%s, indent=%r]" % (label, indentation),
                    ModelDescriptor.describe_table, table, indentation)

    # -- ROW OBJECTS: As used by the parser.
    table = Table([u"a", u"bb"])
    table.add_row([u"1", u"2"], line=3)
    table.add_row([u"333", u"4|4"], line=4)
    print([type(r).__name__ for r in table.rows])
    attempt("rows objects", ModelDescriptor().describe_table, table, u"  ")

    stream = io.StringIO()
    printer = ModelPrinter(stream)
    printer.print_table(table)
    printer.print_table(table, u"    ")
    printer.print_docstring(u'some """quoted""" text\nsecond', u"  ")
    printer.print_docstring(u"", None)
    print(stream.getvalue())

    for text in (u"", u"a|b", u"\\", u"\n", u"\\n|\\|"):
        print("escape_cell(%r) = %r" % (text, escape_cell(text)))


main("C15-t10", probes)
