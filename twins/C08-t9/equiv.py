# -*- coding: utf-8 -*-
"""Equivalence transcript for C08 twins: v1 tag expressions and dialect auto-detection."""
from __future__ import print_function
import sys
sys.path.insert(0, "/tmp/wtV/C08")
import itertools
import behave
assert behave.__file__.startswith("/tmp/wtV/C08/"), behave.__file__
from behave.tag_expression import builder
from behave.tag_expression.builder import make_tag_expression, TagExpressionProtocol
from behave.tag_expression.v1 import TagExpression

UNIVERSE = ["a", "b", "c"]
ASSIGNMENTS = [[t for t, bit in zip(UNIVERSE, bits) if bit]
               for bits in itertools.product([0, 1], repeat=len(UNIVERSE))]
EXTRA_TAGS = [[], ["foo"], ["foo", "bar"], ["-a"], ["@a"], ["a", "a"], ["or"], ["fast", "slow"],
              ("a", "c"), set(["b"]), ["a:1"], [""], ["x*"], ["not"]]


def show_exc(e):
    return "%s: %s" % (type(e).__name__, e.args)


def truth_table(expr, assignments=ASSIGNMENTS):
    out = []
    for tags in assignments:
        try:
            out.append("1" if expr.check(tags) else "0")
        except Exception as e:  # pragma: no cover
            out.append("E(%s)" % show_exc(e))
    return "".join(out)


def describe(expr):
    parts = [type(expr).__module__ + "." + type(expr).__name__]
    if isinstance(expr, TagExpression):
        parts.append("ands=%r" % (expr.ands,))
        parts.append("limits=%r" % (sorted(expr.limits.items()),))
        parts.append("len=%d" % len(expr))
    parts.append("str=%r" % str(expr))
    parts.append("repr=%r" % repr(expr))
    parts.append("tt=%s" % truth_table(expr))
    parts.append("tx=%s" % truth_table(expr, EXTRA_TAGS))
    return " | ".join(parts)


def observe(label, text_or_seq, protocol):
    try:
        expr = make_tag_expression(text_or_seq, protocol)
        print("%s %r [%s] => %s" % (label, text_or_seq, protocol and protocol.name, describe(expr)))
    except Exception as e:
        print("%s %r [%s] => RAISED %s" % (label, text_or_seq, protocol and protocol.name, show_exc(e)))


V1 = TagExpressionProtocol.V1
V2 = TagExpressionProtocol.V2
AUTO = TagExpressionProtocol.AUTO_DETECT

# -- 1. CNF formulas: groups x alternatives, all decorations
print("== CNF formulas")
PREFIXES = ["", "@", "-", "~", "-@", "~@"]
literals = [p + t for t in UNIVERSE[:2] for p in PREFIXES]
groups = []
for lit in literals:
    groups.append(lit)
for l1, l2 in itertools.product(literals[:6], literals[6:]):
    groups.append(l1 + "," + l2)
groups.append("a,b,c")
groups.append("-a,~b,@c")
groups.append("~@a,-@b,-c")
formulas = [[g] for g in groups]
for g1, g2 in itertools.product(groups[::5], groups[3::7]):
    formulas.append([g1, g2])
formulas.append(["a", "b", "c"])
formulas.append(["-a", "b,c", "~@c,a"])
formulas.append(["a,b", "-a,-b", "c,~c"])
for formula in formulas:
    for protocol in (V1, AUTO):
        observe("seq", formula, protocol)
        observe("tup", tuple(formula), protocol)
        observe("txt", " ".join(formula), protocol)

# -- 2. limits
print("== limits")
LIMITS = [
    ["a:1"], ["@a:3"], ["-a:2"], ["~a:2"], ["-@a:2"], ["~@a:2"], ["a:1,b:2"], ["a:1,b"], ["a,b:2"],
    ["a:1", "b:2"], ["a:1", "a:1"], ["a:1", "-a:1"], ["a:1", "a:2"], ["a:1", "~a:2"], ["a:1,a:2"],
    ["a:1", "b", "@a:3"], ["a:0"], ["a:00"], ["a:-1"], ["a:+1"], ["a: 1"], ["a:1 "], ["a:"], ["a:x"],
    ["a:1:2"], ["a:1:x"], ["a::1"], [":1"], ["-:1"], ["~:1"], ["@:1"], ["a:1.5"], ["a:1", "b:x"],
    ["-a:1,-a:1"], ["a:1", "@a:1", "-@a:1", "~a:1"], ["a:1_0"], ["a:\t7\n"], ["a:1:", "a:1::"],
    ["a:2", "b:2", "a:3"], ["b:1,-b:2"], ["--a:1", "-a:1"], ["--a:1", "-a:2"], ["a:1", "--a:2"],
]
for formula in LIMITS:
    for protocol in (V1, AUTO):
        observe("seq", formula, protocol)
        observe("txt", " ".join(formula), protocol)

# -- 3. boundary / odd shapes
print("== boundary")
ODD = [
    [], [""], [" "], ["", ""], [","], [",,"], ["a,"], [",a"], ["a,,b"], [" a , b "], ["a ,b"], ["@"], ["-"], ["~"],
    ["-@"], ["~@"], ["@@a"], ["--a"], ["~~a"], ["-~a"], ["~-a"], ["@-a"], ["@~a"], ["-@@a"], ["a@"], ["a-b"],
    ["a~b"], ["-a-b"], ["a b"], ["a  b"], ["\ta\n"], ["a", ""], ["", "a"], ["a,b c,d"], ["-a,-b -c"],
    ["or"], ["and"], ["not"], ["-or"], ["~not"], ["fork"], ["-fork"], ["~android"], ["nothing"], ["order,band"],
    ["a", "or", "b"], ["a", "and", "b"], ["not", "a"], ["a or b"], ["a and b"], ["not a"], ["not a", "b or c"],
    ["(a)"], ["(a or b)", "c"], ["(", ")"], ["-a", "or", "b"], ["~a and b"], ["not -a"], ["-a or -b"],
    ["(-a)"], ["-(a)"], ["~(a or b)"], ["a*"], ["-a*"], ["~a?"], ["a[bc]"], ["-a[bc]"], ["a*,b"], ["a,b*"],
    ["a* b"], ["a,b", "c or a"], ["a,b or c"], ["-a,b or c"], ["a, b"], ["a ,b"], ["@a,@b", "not @c"],
    ["a.b"], ["a=1"], ["a:b=c"], ["-a.b"], ["a", "b", "c", "-a"], ["-a", "-b", "-c"], ["~a", "~b", "~c"],
    [u"\xe4", u"-\xf6"], [u"a,\xfc"],
]
for formula in ODD:
    for protocol in (V1, AUTO, None):
        observe("seq", formula, protocol)
        observe("txt", " ".join(formula), protocol)
observe("txt", "a  and   b", AUTO)
observe("txt", "  -a  ", AUTO)
observe("txt", "@a or @b", V2)
observe("seq", ["a", "b"], V2)

# -- 4. pure v2 renderings under auto-detect
print("== v2 renderings")
V2_TEXTS = [
    "a", "@a", "not a", "not @a", "a or b", "a and b", "a and not b", "not a and not b", "not (a or b)",
    "(a or b) and c", "(a or b) and (not c or a)", "a and b and c", "a or b or c", "not not a", "(a)", "((a))",
    "( a )", "(a or b)and(c)", "not(a)", "a* and b", "?", "[ab]", "order", "band or fork", "nota", "a or",
    "or a", "and", "a b or c", "a not b", "()", "(", ")", "a ) (", "@a and @b", "a and  b",
]
for text in V2_TEXTS:
    observe("txt", text, AUTO)
    observe("seq", [text], AUTO)
    observe("seq", text.split(), AUTO)

# -- 5. type errors
print("== types")
for bad in [None, 1, 1.5, {"a": 1}, set(["a"]), iter(["a"]), [1], ["a", None], [["a"]], (b"a",), b"a", object]:
    for protocol in (V1, V2, AUTO):
        try:
            expr = make_tag_expression(bad, protocol)
            print("bad %s [%s] => %s" % (type(bad).__name__, protocol.name, describe(expr)))
        except Exception as e:
            args = tuple(a if isinstance(a, (str, int, float, type(None))) else type(a).__name__
                         for a in e.args)
            print("bad %s [%s] => RAISED %s: %r" % (type(bad).__name__, protocol.name, type(e).__name__, args))

# -- 6. class-level API of the v1 TagExpression
print("== v1 API")
for raw in ["a", " a ", "@a", "-a", "~a", "-@a", "~@a", "@-a", "@~a", "@@a", "--a", "~~a", "-~a", "~-a", "", " ", "@", "-", "~",
            "-@", "~@", "a:1", "~a:1", "~@a:1", "\t~@a\n", "@ a", "- a", "~ @a", "-@ a", u"~\xe4"]:
    print("normalize_tag(%r) = %r" % (raw, TagExpression.normalize_tag(raw)))
for raw in ["a,b", " a , ~b ", "", ",", "@a,-@b,~@c,~d", "a:1,-b:2", " ~a", "a,,~"]:
    gen = TagExpression.normalized_tags_from_or(raw)
    print("normalized_tags_from_or(%r): %s %r" % (raw, type(gen).__name__, list(gen)))
for bad in [None, 3, ["a"]]:
    try:
        gen = TagExpression.normalized_tags_from_or(bad)
        print("normalized_tags_from_or(%r) created %s" % (bad, type(gen).__name__))
        print("  ->", list(gen))
    except Exception as e:
        print("  RAISED", type(e).__name__)
for bad in [None, 3]:
    try:
        print(TagExpression.normalize_tag(bad))
    except Exception as e:
        print("normalize_tag(%r) RAISED %s" % (bad, type(e).__name__))

expr = TagExpression([])
print("empty:", expr.ands, expr.limits, len(expr), repr(str(expr)), repr(expr))
for bad_tags in [None, 5, ["a"], "ab"]:
    try:
        print("empty.check(%r) = %r" % (bad_tags, expr.check(bad_tags)))
    except Exception as e:
        print("empty.check(%r) RAISED %s" % (bad_tags, type(e).__name__))
expr = TagExpression(["a,-b"])
for bad_tags in [None, 5, ["a"], "ab", "b", [["x"]], iter(["a", "b"]), (t for t in ["b"])]:
    try:
        print("check(%s) = %r" % (type(bad_tags).__name__, expr.check(bad_tags)))
    except Exception as e:
        print("check(%s) RAISED %s" % (type(bad_tags).__name__, type(e).__name__))
# -- direct, incremental use of store_and_extract_limits
expr = TagExpression(["a:1"])
steps = [["b", "-c:2"], [], iter(["-a:1", "d:4:5"]), ["e:3", "a:7", "f:9"], ["g"], ["-:3", ":4"],
         ["h:1", "h:x"], (t for t in ["i:2", "-i:2", "i:3", "j:1"]), [5], None]
for step in steps:
    try:
        result = expr.store_and_extract_limits(step)
        print("store(%s) -> %r" % (type(step).__name__, result))
    except Exception as e:
        print("store(%s) RAISED %s" % (type(step).__name__, show_exc(e)))
    print("   ands=%r limits=%r" % (expr.ands, sorted(expr.limits.items())))


class Noisy(str):
    """Tag whose methods log their use (subclass hooks seen by the code under test)."""
    log = []

    def startswith(self, *args):
        Noisy.log.append(("startswith", str(self)))
        return str.startswith(self, *args)


expr = TagExpression([])
expr.store_and_extract_limits([Noisy("-k:2"), Noisy("m")])
print("noisy:", expr.ands, sorted(expr.limits.items()), Noisy.log)
del Noisy.log[:]
expr.ands.append([Noisy("-k"), Noisy("z")])
print("noisy check:", expr.check(["z"]), expr.check(["k"]), expr.check([]), Noisy.log)


class SubExpr(TagExpression):
    calls = []

    @staticmethod
    def normalize_tag(tag):
        SubExpr.calls.append(("normalize_tag", tag))
        return TagExpression.normalize_tag(tag).upper()

    def store_and_extract_limits(self, tags):
        tags = list(tags)
        SubExpr.calls.append(("store", tags))
        return TagExpression.store_and_extract_limits(self, tags)


sub = SubExpr(["a,~b", "-@c:2"])
print("subclass:", sub.ands, sub.limits, SubExpr.calls, truth_table(sub, [["A"], ["B"], ["C"], ["A", "C"], []]))
print("subclass repr:", repr(sub), str(sub), sub.to_string(), sub.to_string(pretty=False))

# -- 7. auto-detect parser selection and its helpers
print("== select")
select = builder._select_tag_expression_parser4auto
SELECT = ["a", "-a", "~a", "@a", "a b", "a,b", "a or b", "-a or b", "a*", "-a*", "~a and", "or", "-or", "fork", "",
          " ", "(a)", "(-a)", "-(a", "a)", "a(b", "-a(b", "a,b or c", "not", "a,not", "a ,", ",", "- a", "a -", "a ~b",
          "a?", "[", "[a]", "a[", "-[a]", "x,[a]", ["a", "b"], ["a"], ["-a"], [], [""], ("a", "~b"), ("a or b", "-c"),
          ["a b", "c"], None, 3, [3], b"a" if str is not bytes else u"a"]
for item in SELECT:
    try:
        print("select(%r) = %s" % (item, select(item).__name__))
    except Exception as e:
        args = tuple(a if isinstance(a, (str, int, type(None))) else type(a).__name__ for a in e.args)
        print("select(%r) RAISED %s: %r" % (item, type(e).__name__, args))
WORDS = [[], ["a"], ["a", "or"], ["or", "a"], ["fork"], ["-a"], ["a", "~b"], ["a-"], ["a,b"], [","], ["a*"], ["?"],
         ["[a]"], ["a", "b", "not"], ["", ""], ("and", "x"), ["(", "a", ")"]]
KEYS = [[], ["or"], ["and", "or", "not", "(", ")"], [","], ["~", "-"], ("-",), ["a", "b"], [""]]
for words in WORDS:
    print("wildcards(%r) = %r" % (words, builder._any_word_contains_wildcards(words)))
    for keys in KEYS:
        print("helpers(%r, %r) = %r %r %r" % (
            words, keys, builder._any_word_is_keyword(words, keys),
            builder._any_word_contains_keyword(words, keys),
            builder._any_word_starts_with(words, keys)))
for helper in (builder._any_word_is_keyword, builder._any_word_contains_keyword,
               builder._any_word_starts_with):
    for words, keys in [(None, ["a"]), (["a"], None), ([1], ["a"]), (["a"], [1]), (None, []), ([], None)]:
        try:
            print("%s(%r, %r) = %r" % (helper.__name__, words, keys, helper(words, keys)))
        except Exception as e:
            print("%s(%r, %r) RAISED %s" % (helper.__name__, words, keys, type(e).__name__))

# -- 8. protocol object
print("== protocol")
print(TagExpressionProtocol.choices(), [m.name for m in TagExpressionProtocol],
      TagExpressionProtocol.STRICT is V2, TagExpressionProtocol.DEFAULT is AUTO)
for name in ["v1", "V2", "auto_detect", "strict", "Strict", "default", "any", ""]:
    try:
        print("from_name(%r) = %s" % (name, TagExpressionProtocol.from_name(name)))
    except Exception as e:
        print("from_name(%r) RAISED %s" % (name, show_exc(e)))
print("current:", TagExpressionProtocol.current())
for member in ["v1", V2, "auto_detect"]:
    TagExpressionProtocol.use(member)
    print("use(%s) -> current %s" % (member, TagExpressionProtocol.current()))
    observe("cur", "-a b,c", None)
    observe("cur", "a or b", None)
for protocol in TagExpressionProtocol:
    for text in ["a", "-a", "a b", "a or b", "-a or b", ["a,b", "-c"]]:
        try:
            expr = protocol.parse(text)
            print("parse %s %r => %s" % (protocol.name, text, describe(expr)))
        except Exception as e:
            print("parse %s %r => RAISED %s" % (protocol.name, text, show_exc(e)))
