# -*- coding: UTF-8 -*-
"""
Equivalence transcript for property C19 (active-tag exclusion logic).
Exercises behave.tag_matcher through its public behaviour and prints a
canonical transcript (results, call logs, cache state, log records, outputs).
"""
from __future__ import print_function
import sys
sys.path.insert(0, "/tmp/wtT/C19")

import logging
import operator
import os
import re
import shutil
import subprocess

import behave
from behave._types import Unknown
from behave.tag_matcher import (
    ActiveTagMatcher, ActiveTagValueProvider, BoolValueObject,
    CompositeActiveTagValueProvider, CompositeTagMatcher, NumberValueObject,
    PredicateTagMatcher, TagMatcher, ValueObject,
)
from behave.active_tag.python import VersionValueObject

assert behave.__file__.startswith("/tmp/wtT/C19/"), behave.__file__
HERE = os.path.dirname(os.path.abspath(__file__))


def section(title):
    print()
    print("=== %s" % title)


def show(value):
    if value is Unknown:
        return "<Unknown>"
    if callable(value) and not isinstance(value, ValueObject):
        return "<callable>"
    return repr(value)


# -- CAPTURE: Log records of "behave.active_tags"
class ListHandler(logging.Handler):
    def __init__(self):
        logging.Handler.__init__(self)
        self.records = []

    def emit(self, record):
        self.records.append("%s:%s" % (record.levelname, record.getMessage()))


LOG = ListHandler()
_logger = logging.getLogger("behave.active_tags")
_logger.addHandler(LOG)
_logger.propagate = False
_logger.setLevel(logging.DEBUG)


def flush_log(prefix="    "):
    for text in LOG.records:
        print("%slog: %s" % (prefix, text))
    del LOG.records[:]


CALLS = []


def flush_calls(prefix="    "):
    for text in CALLS:
        print("%scall: %s" % (prefix, text))
    del CALLS[:]


class LoggingProvider(object):
    """Mapping-like value provider that records each get()."""
    def __init__(self, name, data):
        self.name = name
        self.data = data

    def get(self, category, default=None):
        CALLS.append("%s.get(%r, %s)" % (self.name, category, show(default)))
        return self.data.get(category, default)

    def keys(self):
        CALLS.append("%s.keys()" % self.name)
        return list(self.data.keys())


class NoKeysProvider(object):
    def __init__(self, data):
        self.data = data

    def get(self, category, default=None):
        CALLS.append("nokeys.get(%r, %s)" % (category, show(default)))
        return self.data.get(category, default)


class LoggingValueObject(ValueObject):
    def matches(self, tag_value):
        outcome = super(LoggingValueObject, self).matches(tag_value)
        CALLS.append("matches(%r) -> %r" % (tag_value, outcome))
        return outcome


class LoggingMatcher(ActiveTagMatcher):
    def is_tag_negated(self, tag):
        outcome = super(LoggingMatcher, self).is_tag_negated(tag)
        CALLS.append("is_tag_negated(%r) -> %r" % (tag, outcome))
        return outcome


def raising_compare(exc_class):
    def compare(current, tag_value):
        raise exc_class("compare(%r, %r)" % (current, tag_value))
    return compare


def attempt(func, *args, **kwargs):
    try:
        return "-> %s" % show(func(*args, **kwargs))
    except BaseException as e:  # noqa
        return "!! %s: %s" % (e.__class__.__name__, e)


# ---------------------------------------------------------------------------
# 1. VALUE OBJECTS
# ---------------------------------------------------------------------------
section("ValueObject.matches")
lazy_counter = []


def lazy_value():
    lazy_counter.append(1)
    return "lazy%d" % len(lazy_counter)


value_objects = [
    ("eq:chrome", ValueObject("chrome")),
    ("ne:chrome", ValueObject("chrome", operator.ne)),
    ("contains", ValueObject("a,b,c", operator.contains)),
    ("lazy", ValueObject(lazy_value)),
    ("none", ValueObject(None)),
    ("truthy-compare", ValueObject("x", lambda a, b: [a, b])),
    ("falsy-compare", ValueObject("x", lambda a, b: "")),
    ("raise-value-error", ValueObject("x", raising_compare(ValueError))),
]
for name, vo in value_objects:
    for tag_value in ["chrome", "firefox", "", "a", "lazy2", "None"]:
        print("  %s.matches(%r) %s" % (name, tag_value, attempt(vo.matches, tag_value)))
print("  lazy evaluations: %d" % len(lazy_counter))
print("  str/repr: %s | %r" % (ValueObject("chrome"), ValueObject(42, operator.ge)))

section("NumberValueObject.matches")
number_objects = [
    ("eq5", NumberValueObject(5)),
    ("ge5", NumberValueObject(5, operator.ge)),
    ("le5", NumberValueObject(5, operator.le)),
    ("lt5", NumberValueObject(5, operator.lt)),
    ("lazy-ge", NumberValueObject(lambda: 7, operator.ge)),
    ("raise-value-error", NumberValueObject(5, raising_compare(ValueError))),
    ("raise-type-error", NumberValueObject(5, raising_compare(TypeError))),
]
for name, vo in number_objects:
    for tag_value in ["4", "5", "6", " 7 ", "-1", "+5", "0x5", "5.0", "", "abc", "1_0"]:
        print("  %s.matches(%r) %s" % (name, tag_value, attempt(vo.matches, tag_value)))
        flush_log()
print("  int: %d" % int(NumberValueObject(lambda: "12")))

section("BoolValueObject.matches / to_bool")
bool_objects = [
    ("true", BoolValueObject(True)),
    ("false", BoolValueObject(False)),
    ("ne-true", BoolValueObject(True, operator.ne)),
    ("lazy-false", BoolValueObject(lambda: False)),
]
for name, vo in bool_objects:
    for tag_value in ["true", "True", "YES", "on", "false", "No", "OFF", "1", "0",
                      "", "maybe", " yes"]:
        print("  %s.matches(%r) %s" % (name, tag_value, attempt(vo.matches, tag_value)))
        flush_log()
for raw in ["true", "yes", "ON", "false", "no", "Off", "", "x", u"Yes", b"yes",
            0, 1, 2, None, [], [0], True, False, 0.0]:
    print("  to_bool(%r) %s" % (raw, attempt(BoolValueObject.to_bool, raw)))


class GermanBool(BoolValueObject):
    TRUE_STRINGS = set(["ja"])
    FALSE_STRINGS = set(["nein"])


for raw in ["ja", "NEIN", "yes", "no"]:
    print("  GermanBool.to_bool(%r) %s" % (raw, attempt(GermanBool.to_bool, raw)))
    print("  GermanBool(True).matches(%r) %s" % (raw, attempt(GermanBool(True).matches, raw)))
    flush_log()
print("  bool: %r %r" % (bool(BoolValueObject(True)), bool(BoolValueObject(lambda: 0))))

section("VersionValueObject.matches")
for name, vo in [("ge3.8", VersionValueObject((3, 8), operator.ge)),
                 ("le3.8", VersionValueObject((3, 8), operator.le)),
                 ("eq3.8", VersionValueObject((3, 8)))]:
    for tag_value in ["3.8", "3.7", "3.10", "2", "3.x", "", (3, 8), 3]:
        print("  %s.matches(%r) %s" % (name, tag_value, attempt(vo.matches, tag_value)))
        flush_log()

# ---------------------------------------------------------------------------
# 2. ACTIVE TAG MATCHER
# ---------------------------------------------------------------------------
section("ActiveTagMatcher: pattern / select / group")
provider_data = {
    "browser": "chrome",
    "os": "linux",
    "count": NumberValueObject(5, operator.ge),
    "flag": BoolValueObject(True),
    "lazy": ValueObject(lambda: "x"),
    "none": None,
    "python.version": "3.12",
    "logged": LoggingValueObject("v1"),
}
matcher = ActiveTagMatcher(provider_data)
print("  pattern: %s" % matcher.tag_pattern.pattern)
print("  pattern2: %s" % ActiveTagMatcher.make_tag_pattern(["a", "b"], ":").pattern)
print("  category_tag: %s | %s" % (
    ActiveTagMatcher.make_category_tag("os", "linux"),
    ActiveTagMatcher.make_category_tag("os", None, "not", ":")))

TAG_SETS = [
    [],
    ["foo", "bar", "wip"],
    ["use.with_browser=chrome"],
    ["use.with_browser=firefox"],
    ["use.with_browser=firefox", "use.with_browser=chrome"],
    ["use.with_browser=firefox", "use.with_browser=safari"],
    ["not.with_browser=chrome"],
    ["not.with_browser=firefox"],
    ["not.with_browser=firefox", "not.with_browser=chrome"],
    ["use.with_browser=chrome", "not.with_browser=chrome"],
    ["use.with_browser=chrome", "not.with_browser=firefox"],
    ["use.with_browser=firefox", "not.with_browser=safari"],
    ["active.with_browser=chrome"],
    ["active.with_browser=firefox"],
    ["not_active.with_browser=chrome"],
    ["not_active.with_browser=firefox"],
    ["only.with_browser=chrome"],
    ["only.with_browser=firefox"],
    ["use.with_browser=chrome", "use.with_os=win32"],
    ["use.with_os=win32", "use.with_browser=firefox"],
    ["use.with_os=linux", "use.with_browser=chrome", "foo"],
    ["use.with_unknown=1"],
    ["not.with_unknown=1"],
    ["use.with_unknown=1", "use.with_browser=firefox"],
    ["use.with_unknown=1", "use.with_browser=chrome"],
    ["use.with_count=4"], ["use.with_count=5"], ["use.with_count=6"],
    ["use.with_count=abc"], ["not.with_count=abc"], ["not.with_count=3"],
    ["use.with_count=abc", "use.with_count=2"],
    ["use.with_flag=yes"], ["use.with_flag=no"], ["not.with_flag=on"],
    ["use.with_flag=maybe"], ["not.with_flag=maybe"],
    ["use.with_lazy=x"], ["use.with_lazy=y"],
    ["use.with_none=None"], ["not.with_none=None"], ["use.with_none="],
    ["use.with_browser="], ["not.with_browser="],
    ["use.with_browser=chrome=1"],
    ["use.with_python.version=3.12"], ["use.with_python.version=2.7"],
    ["not.with_python.version=3.12"],
    ["use.with_python..version=3.12"], ["use.with_.version=3.12"],
    ["use.with_browser"], ["use_with_browser=firefox"], ["xuse.with_browser=firefox"],
    ["use.with_browser=firefox\n"], ["use.with_browser=fire\nfox"],
    ["@use.with_browser=firefox"], ["USE.with_browser=firefox"],
    ["nothing.with_browser=chrome"], ["notx.with_browser=chrome"],
    ["use.with_bröwser=chrome"],
    ["use.with_browser=firefox", "use.with_browser=firefox"],
    ["not.with_os=linux", "use.with_browser=chrome", "use.with_count=9"],
    ["use.with_count=9", "use.with_browser=opera", "not.with_os=linux"],
    ("use.with_browser=firefox",),
]


def describe_groups(a_matcher, tags):
    parts = []
    for category, pairs in a_matcher.group_active_tags_by_category(tags):
        pair_texts = []
        for tag, match in pairs:
            pair_texts.append("(%r, %s)" % (tag, sorted(match.groupdict().items())))
        parts.append("%r: [%s]" % (category, ", ".join(pair_texts)))
    return "{%s}" % "; ".join(parts)


for tags in TAG_SETS:
    print("  tags=%r" % (tags,))
    print("    select: %r" % [(t, m.group("prefix"), m.group("category"), m.group("value"))
                             for t, m in matcher.select_active_tags(tags)])
    print("    groups: %s" % describe_groups(matcher, tags))
    print("    exclude: %s | run: %s" % (attempt(matcher.should_exclude_with, tags),
                                         attempt(matcher.should_run_with, tags)))
    print("    exclude_reason: %r" % matcher.exclude_reason)
    flush_log()
    flush_calls()

# -- GENERATOR LAZINESS: nothing happens before first next()
gen = matcher.group_active_tags_by_category(iter(["use.with_os=a", "use.with_os=b"]))
print("  generator: %s" % type(gen).__name__)
print("  generator items: %d" % len(list(gen)))
print("  bad tags: %s" % attempt(lambda: list(matcher.group_active_tags_by_category([1]))))
print("  bad tags2: %s" % attempt(matcher.should_exclude_with, None))

section("ActiveTagMatcher: exclude_reason, strict unknown categories, call order")
for strict in (None, True, False):
    m2 = LoggingMatcher(LoggingProvider("vp", provider_data),
                        ignore_unknown_categories=strict)
    m2.use_exclude_reason = True
    for tags in TAG_SETS:
        verdict = attempt(m2.should_exclude_with, tags)
        print("  ignore_unknown=%r tags=%r exclude %s reason=%r" % (
            strict, tags, verdict, m2.exclude_reason))
        flush_calls()
        flush_log()

section("ActiveTagMatcher: is_tag_group_enabled directly")
m3 = LoggingMatcher(LoggingProvider("vp", provider_data))


def pairs_for(tags):
    return list(m3.select_active_tags(tags))


DIRECT = [
    ("browser", []),
    ("unknown", []),
    ("browser", ["use.with_browser=chrome"]),
    ("browser", ["not.with_browser=chrome", "use.with_browser=chrome"]),
    ("unknown", ["use.with_unknown=chrome"]),
    ("os", ["use.with_browser=chrome"]),         # category mismatch => AssertionError
    ("logged", ["use.with_logged=v0", "not.with_logged=v1", "use.with_logged=v1",
                "not.with_logged=v2"]),
    ("count", ["use.with_count=x", "not.with_count=y"]),
]
for category, tags in DIRECT:
    print("  %s %r %s" % (category, tags,
                           attempt(m3.is_tag_group_enabled, category, pairs_for(tags))))
    flush_calls()
    flush_log()
m3.ignore_unknown_categories = False
print("  strict unknown %s" % attempt(m3.is_tag_group_enabled, "unknown",
                                      pairs_for(["use.with_unknown=chrome"])))
flush_calls()
print("  strict unknown2 %s" % attempt(m3.is_tag_group_enabled, "unknown",
                                       pairs_for(["not.with_unknown=chrome"])))
flush_calls()

section("ActiveTagMatcher: errors propagate from compare")
m4 = LoggingMatcher({"boom": ValueObject("x", raising_compare(TypeError)),
                     "vboom": NumberValueObject(1, raising_compare(ValueError)),
                     "ok": "1"})
m4.use_exclude_reason = True
for tags in [["use.with_ok=2", "use.with_boom=1"], ["use.with_boom=1", "use.with_ok=2"],
             ["not.with_boom=1"], ["use.with_vboom=1"], ["not.with_vboom=1"]]:
    print("  tags=%r exclude %s reason=%r" % (
        tags, attempt(m4.should_exclude_with, tags), m4.exclude_reason))
    flush_calls()
    flush_log()

section("ActiveTagMatcher: custom prefixes / separator / None provider")
m5 = ActiveTagMatcher(None)
print("  none-provider: %r %s" % (m5.value_provider,
                                  attempt(m5.should_exclude_with, ["use.with_os=x"])))
m6 = ActiveTagMatcher({"os": "linux"}, tag_prefixes=["require", "notrequire"],
                      value_separator=":")
for tags in [["require.with_os:linux"], ["require.with_os:win"], ["notrequire.with_os:linux"],
             ["notrequire.with_os:win"], ["use.with_os=win"], ["require.with_os=win"]]:
    print("  tags=%r groups=%s exclude %s" % (tags, describe_groups(m6, tags),
                                              attempt(m6.should_exclude_with, tags)))
print("  base: %s" % attempt(TagMatcher().should_exclude_with, []))
print("  base: %s" % attempt(TagMatcher().should_run_with, []))

# ---------------------------------------------------------------------------
# 3. COMPOSITE TAG MATCHER
# ---------------------------------------------------------------------------
section("CompositeTagMatcher")


def predicate(name, outcome):
    def func(tags):
        CALLS.append("%s(%r)" % (name, tags))
        if isinstance(outcome, BaseException):
            raise outcome
        return outcome
    return PredicateTagMatcher(func)


COMPOSITES = [
    [],
    [predicate("p1", False)],
    [predicate("p1", True)],
    [predicate("p1", False), predicate("p2", True), predicate("p3", True)],
    [predicate("p1", False), predicate("p2", False)],
    [predicate("p1", 0), predicate("p2", "yes"), predicate("p3", False)],
    [predicate("p1", None), predicate("p2", [])],
    [predicate("p1", False), predicate("p2", KeyError("boom")), predicate("p3", True)],
    [predicate("p1", True), predicate("p2", KeyError("boom"))],
    [ActiveTagMatcher({"os": "linux"}), ActiveTagMatcher({"browser": "chrome"})],
    [CompositeTagMatcher([ActiveTagMatcher({"os": "linux"})]), predicate("p9", False)],
]
for index, members in enumerate(COMPOSITES):
    composite = CompositeTagMatcher(members)
    for tags in [[], ["use.with_os=win32"], ["use.with_os=linux", "not.with_browser=chrome"],
                 ["use.with_os=linux", "use.with_browser=chrome"]]:
        print("  composite[%d] tags=%r exclude %s | run %s" % (
            index, tags, attempt(composite.should_exclude_with, tags),
            attempt(composite.should_run_with, tags)))
        flush_calls()
print("  default members: %r" % CompositeTagMatcher().tag_matchers)
print("  tuple members: %s" % attempt(
    CompositeTagMatcher((predicate("t1", 1),)).should_exclude_with, ["x"]))
flush_calls()

# ---------------------------------------------------------------------------
# 4. VALUE PROVIDERS
# ---------------------------------------------------------------------------
section("ActiveTagValueProvider")
counter = []


def counted():
    counter.append(1)
    return "call%d" % len(counter)


avp = ActiveTagValueProvider({"a": "1", "lazy": counted, "none": None,
                              "vo": NumberValueObject(3)})
for category in ["a", "lazy", "lazy", "none", "vo", "missing"]:
    print("  get(%r) %s | get(.., 'dflt') %s" % (
        category, attempt(avp.get, category), attempt(avp.get, category, "dflt")))
print("  getitem: %s %s" % (attempt(avp.__getitem__, "lazy"),
                            attempt(avp.__getitem__, "missing")))
print("  items: %r" % sorted((k, show(v)) for k, v in avp.items()))
print("  categories: %r" % sorted(avp.categories()))
print("  default-callable: %s" % attempt(avp.get, "missing", counted))

section("CompositeActiveTagValueProvider")
counter2 = []


def counted2():
    counter2.append(1)
    return "dyn%d" % len(counter2)


def make_composite():
    p1 = LoggingProvider("p1", {"os": "linux", "shared": "from-p1", "none": None})
    p2 = LoggingProvider("p2", {"browser": "chrome", "shared": "from-p2",
                                "dyn": counted2})
    p3 = ActiveTagValueProvider({"lazy3": counted2, "shared": "from-p3",
                                 "count": NumberValueObject(5, operator.ge)})
    p4 = NoKeysProvider({"nokeys": "nk"})
    return CompositeActiveTagValueProvider([p1, p2, p3, p4]), (p1, p2, p3, p4)


cvp, members = make_composite()
print("  initial cache: %r" % sorted(cvp.data.keys()))
QUERIES = [("os", None), ("os", "d"), ("browser", None), ("shared", None),
           ("missing", None), ("missing", "dflt"), ("missing", Unknown),
           ("none", "dflt"), ("none", "dflt"), ("dyn", None), ("dyn", None),
           ("lazy3", None), ("lazy3", None), ("count", None), ("nokeys", None),
           ("nokeys", None), ("missing", counted2)]
for category, default in QUERIES:
    if default is None:
        outcome = attempt(cvp.get, category)
    else:
        outcome = attempt(cvp.get, category, default)
    print("  get(%r, %s) %s" % (category, show(default), outcome))
    flush_calls()
    print("    cache: %r" % sorted((k, show(v)) for k, v in cvp.data.items()))

# -- CHANGE NESTED VALUES: cached lookups must stay current
members[0].data["os"] = "win32"
members[1].data["shared"] = "changed-p2"
del members[0].data["shared"]
for category in ["os", "shared", "browser"]:
    print("  after-change get(%r) %s" % (category, attempt(cvp.get, category)))
    flush_calls()
del members[0].data["os"]
print("  after-delete get('os') %s | %s" % (attempt(cvp.get, "os"),
                                            attempt(cvp.get, "os", "dflt")))
flush_calls()
print("  keys: %s" % attempt(lambda: list(cvp.keys())))
flush_calls()
print("  items: %s" % attempt(lambda: list(cvp.items())))
flush_calls()
print("  values: %s" % attempt(lambda: list(cvp.values())))
flush_calls()
print("  empty: %s %s" % (attempt(CompositeActiveTagValueProvider().get, "x"),
                          attempt(CompositeActiveTagValueProvider().get, "x", 1)))
print("  preset cache: %s" % attempt(
    lambda: (lambda c: (c.data.__setitem__("pre", counted2), c.get("pre"), c.get("pre")))(
        CompositeActiveTagValueProvider([]))[1:]))


class BrokenProvider(object):
    def get(self, category, default=None):
        CALLS.append("broken.get(%r)" % category)
        raise RuntimeError("broken:%s" % category)


cvp2 = CompositeActiveTagValueProvider([LoggingProvider("q1", {"a": "1"}), BrokenProvider(),
                                        LoggingProvider("q3", {"z": "26"})])
for category in ["a", "z", "a"]:
    print("  broken-chain get(%r) %s cache=%r" % (category, attempt(cvp2.get, category),
                                                   sorted(cvp2.data.keys())))
    flush_calls()

section("ActiveTagMatcher with CompositeActiveTagValueProvider")
cvp3, members3 = make_composite()
m7 = LoggingMatcher(cvp3)
m7.use_exclude_reason = True
for tags in [["use.with_os=linux", "use.with_browser=firefox"],
             ["use.with_os=linux", "use.with_browser=chrome", "not.with_shared=from-p1"],
             ["use.with_count=6"], ["use.with_count=5", "use.with_missing=1"],
             ["use.with_dyn=dyn1"], ["use.with_none=None"]]:
    print("  tags=%r exclude %s reason=%r" % (tags, attempt(m7.should_exclude_with, tags),
                                              m7.exclude_reason))
    flush_calls()
    flush_log()
    print("    cache: %r" % sorted(cvp3.data.keys()))

# ---------------------------------------------------------------------------
# 5. END-TO-END: python -m behave
# ---------------------------------------------------------------------------
section("behave run with active tags")
workdir = os.path.join(HERE, "_work")
if os.path.isdir(workdir):
    shutil.rmtree(workdir)
os.makedirs(os.path.join(workdir, "features", "steps"))
with open(os.path.join(workdir, "features", "steps", "steps.py"), "w") as f:
    f.write("from behave import step\n\n@step(u'a step passes')\ndef step_passes(ctx):\n    pass\n")
with open(os.path.join(workdir, "features", "environment.py"), "w") as f:
    f.write('''
import operator
from behave.tag_matcher import (ActiveTagMatcher, CompositeActiveTagValueProvider,
    ActiveTagValueProvider, NumberValueObject, BoolValueObject, CompositeTagMatcher,
    PredicateTagMatcher, print_active_tags)
values1 = {"browser": "chrome", "os": "linux"}
values2 = ActiveTagValueProvider({"level": NumberValueObject(3, operator.ge),
                                  "fast": BoolValueObject(lambda: True)})
provider = CompositeActiveTagValueProvider([values1, values2])
active_tag_matcher = ActiveTagMatcher(provider)
active_tag_matcher.use_exclude_reason = True
matcher = CompositeTagMatcher([active_tag_matcher,
                               PredicateTagMatcher(lambda tags: "never" in tags)])

def before_all(ctx):
    print_active_tags(provider, ["browser", "os", "level", "fast", "nope"])

def before_feature(ctx, feature):
    if matcher.should_exclude_with(feature.tags):
        feature.skip(reason="FEATURE-EXCLUDED: %s" % active_tag_matcher.exclude_reason)

def before_scenario(ctx, scenario):
    if matcher.should_exclude_with(scenario.effective_tags):
        scenario.skip(reason="EXCLUDED: %s" % active_tag_matcher.exclude_reason)
''')
with open(os.path.join(workdir, "features", "one.feature"), "w") as f:
    f.write('''
@use.with_os=linux
Feature: One

  @use.with_browser=chrome
  Scenario: S1 runs
    Given a step passes

  @use.with_browser=firefox
  Scenario: S2 excluded
    Given a step passes

  @not.with_browser=chrome
  Scenario: S3 excluded
    Given a step passes

  @use.with_browser=firefox @use.with_browser=chrome @not.with_os=win32
  Scenario: S4 runs
    Given a step passes

  @use.with_level=2 @use.with_fast=yes
  Scenario: S5 runs
    Given a step passes

  @use.with_level=4
  Scenario: S6 excluded
    Given a step passes

  @use.with_level=high @use.with_unknown=1
  Scenario: S7 excluded (malformed)
    Given a step passes

  @use.with_unknown=1 @wip
  Scenario: S8 runs (unknown category)
    Given a step passes

  @never
  Scenario: S9 excluded by predicate
    Given a step passes

  @only.with_fast=no
  Scenario Outline: S10 excluded <x>
    Given a step passes

    Examples:
      | x |
      | 1 |
      | 2 |
''')
with open(os.path.join(workdir, "features", "two.feature"), "w") as f:
    f.write('''
@active.with_os=win32
Feature: Two (excluded)

  Scenario: T1
    Given a step passes
''')
env = dict(os.environ)
env["PYTHONPATH"] = "/tmp/wtT/C19"
env.pop("BEHAVE_STAGE", None)
for fmt in ["plain", "progress3"]:
    proc = subprocess.Popen(
        [sys.executable, "-m", "behave", "-f", fmt, "--no-timings", "--no-color",
         "--no-capture", "--show-skipped", "features"],
        cwd=workdir, env=env, stdout=subprocess.PIPE, stderr=subprocess.STDOUT)
    output = proc.communicate()[0].decode("utf-8")
    output = re.sub(r"Took \d+m[\d.]+s", "Took XmX.XXXs", output)
    output = re.sub(r"Took [\d.]+min? [\d.]+s|Took [\d.]+s", "Took X.XXXs", output)
    output = re.sub(r"\d+\.\d+s", "X.XXXs", output)
    print("  -- format=%s returncode=%d" % (fmt, proc.returncode))
    for line in output.splitlines():
        print("  | %s" % line.rstrip())
shutil.rmtree(workdir)
print()
print("DONE")
