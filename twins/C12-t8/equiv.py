# -*- coding: utf-8 -*-
"""
Equivalence transcript for property C12 (hooks: nested order, pairing,
fault containment).  Self-contained: runs behave IN-PROCESS from the worktree
/tmp/wtU/C12 through its public runner API (parser + ModelRunner + hooks dict +
formatter/reporter protocol) and prints a canonical transcript.

For each feature tree and each configuration variation:
  * the fault-free run is recorded in full,
  * EVERY hook invocation k of the fault-free run is used as injection point
    (Exception / AssertionError / AssertionError without args), in full,
  * pairs of injection points are recorded (digest of the full record),
  * a few KeyboardInterrupt injections (BaseException path) are recorded.
Only implementation line numbers, durations and object addresses are
normalised away.
"""
from __future__ import print_function
import sys
sys.path.insert(0, "/tmp/wtU/C12")

import hashlib
import io
import logging
import re
import warnings
import contextlib

import behave
assert behave.__file__.startswith("/tmp/wtU/C12/"), behave.__file__
from behave.parser import parse_feature
from behave.runner import ModelRunner, Context
from behave.configuration import Configuration
from behave.step_registry import StepRegistry
from behave.model import ScenarioOutline, Scenario, Rule
from behave.api.pending_step import StepNotImplementedError

FOCUS = "Step.run capture try/finally as context manager"

# ---------------------------------------------------------------------------
# FEATURE TREES
# ---------------------------------------------------------------------------
TREE_BASIC = u"""
@f1 @f2
Feature: Alpha
  Background: B
    Given a passing step

  @s1
  Scenario: A1
    When a passing step
    Then a passing step

  @s2 @wip
  Scenario: A2
    When a failing step
    Then a passing step

  Scenario: A3
    When a passing step
"""

TREE_RULES = u"""
@fr
Feature: Beta
  @r1 @r1b
  Rule: R1
    Background: RB
      Given a passing step

    @rs1
    Scenario: B1
      When a passing step

    Scenario: B2
      When an undefined step
      Then a passing step

  Rule: R2
    @x
    Scenario: B3
      When a passing step
      And an erroring step
      And a passing step

  @r3
  Rule: R3 empty
"""

TREE_OUTLINE = u"""
Feature: Gamma
  @o1
  Scenario Outline: G-<name>
    Given a passing step
    When a <kind> step

    @e1
    Examples: E1
      | name | kind    |
      | one  | passing |
      | two  | failing |

    Examples: E2
      | name  | kind    |
      | three | passing |

  @last
  Scenario: G-last
    Given a step that prints
    When a pending step
    Then a passing step
"""

TREE_SKIPS = u"""
@fs
Feature: Delta
  @hookskip
  Scenario: D1 skipped by hook
    Given a passing step

  @sel
  Scenario: D2
    Given a step that skips the scenario
    Then a passing step

  Scenario: D3 no steps

  @sel @t1 @t2 @t3
  Scenario: D4
    Given a passing step
    When a step that peeks
"""

TREE_EMPTY = u"""
@lonely
Feature: Epsilon without scenarios
"""

TREE_SECOND = u"""
@z
Feature: Zeta
  Scenario: Z1
    Given a passing step
  @zz
  Scenario: Z2
    Given a failing step
  @sub
  Scenario: Z3 with substeps
    Given a step with passing substeps
    When a step with a failing substep
"""

PROGRAMS = [
    ("basic", [("alpha.feature", TREE_BASIC)]),
    ("rules", [("beta.feature", TREE_RULES)]),
    ("outline", [("gamma.feature", TREE_OUTLINE)]),
    ("skips", [("delta.feature", TREE_SKIPS)]),
    ("multi", [("epsilon.feature", TREE_EMPTY), ("zeta.feature", TREE_SECOND),
               ("alpha.feature", TREE_BASIC)]),
]

VARIATIONS = {
    "basic": [[], ["--stop"], ["--dry-run"], ["--tags=@s1 or @s2"],
              ["--verbose"], ["--no-skipped", "--tags=not @s2"],
              ["--no-capture"]],
    "rules": [[], ["--stop"], ["--tags=@r1"], ["--tags=@x", "--no-skipped"],
              ["--dry-run"]],
    "outline": [[], ["--stop"], ["--tags=@e1"], ["--dry-run"],
                ["--name=G-t"]],
    "skips": [[], ["--tags=@sel"], ["--stop", "--tags=not @t2"]],
    "multi": [[], ["--stop"], ["--tags=@zz or @lonely"], ["--dry-run"]],
}

HOOK_NAMES = ["before_all", "after_all", "before_feature", "after_feature",
              "before_rule", "after_rule", "before_scenario", "after_scenario",
              "before_step", "after_step", "before_tag", "after_tag"]


# ---------------------------------------------------------------------------
# NORMALISATION
# ---------------------------------------------------------------------------
_RE_LINE = re.compile(r'(File "[^"]*/behave/[^"]*", line )\d+')
_RE_ADDR = re.compile(r"0x[0-9a-fA-F]+")
_RE_BLINE = re.compile(r"(behave/\w+\.py:)\d+")


def norm(text):
    if text is None:
        return u"<None>"
    text = u"%s" % (text,)
    text = _RE_LINE.sub(r"\1N", text)
    text = _RE_BLINE.sub(r"\1N", text)
    text = _RE_ADDR.sub("0xX", text)
    return text


# ---------------------------------------------------------------------------
# RECORDERS
# ---------------------------------------------------------------------------
class FullFormatter(object):
    name = "full"

    def __init__(self, log):
        self.log = log

    def _add(self, what):
        self.log.append(u"fmt.%s %s" % (self.name, what))

    def uri(self, uri):
        self._add(u"uri %s" % uri)

    def feature(self, feature):
        self._add(u"feature %s" % feature.name)

    def rule(self, rule):
        self._add(u"rule %s" % rule.name)

    def rule_finished(self):
        self._add(u"rule_finished")

    def background(self, background):
        self._add(u"background %s" % background.name)

    def scenario(self, scenario):
        self._add(u"scenario %s" % scenario.name)

    def step(self, step):
        self._add(u"step %s" % step.name)

    def match(self, match):
        self._add(u"match %s" % type(match).__name__)

    def result(self, step):
        self._add(u"result %s %s hook_failed=%s" %
                  (step.name, step.status.name, step.hook_failed))

    def eof(self):
        self._add(u"eof")

    def close(self):
        self._add(u"close")


class MinimalFormatter(FullFormatter):
    """Formatter without the optional rule()/rule_finished() callbacks."""
    name = "mini"
    rule = None
    rule_finished = None


class RecordingReporter(object):
    def __init__(self, log):
        self.log = log

    def feature(self, feature):
        self.log.append(u"reporter.feature %s %s" %
                        (feature.name, feature.status.name))

    def end(self):
        self.log.append(u"reporter.end")


# ---------------------------------------------------------------------------
# ONE RUN
# ---------------------------------------------------------------------------
def make_registry(log):
    registry = StepRegistry()

    def passing(context):
        pass

    def failing(context):
        assert False, "step fails"

    def erroring(context):
        raise RuntimeError("step errors")

    def printing(context):
        print("printed by step")
        logging.getLogger("equiv").warning("logged by step")

    def pending(context):
        raise StepNotImplementedError("todo")

    def skipping(context):
        context.scenario.skip("because")

    def peeking(context):
        log.append(u"step.peek tags=%s text=%r table=%r scenario=%s" % (
            sorted(context.tags), context.text, context.table,
            context.scenario.name))

    def substeps_ok(context):
        context.execute_steps(u"Given a passing step\nWhen a step that prints")

    def substeps_bad(context):
        context.execute_steps(u"Given a passing step\nWhen a failing step")

    for keyword in ("given", "when", "then"):
        registry.add_step_definition(
            keyword, u"a step with passing substeps", substeps_ok)
        registry.add_step_definition(
            keyword, u"a step with a failing substep", substeps_bad)
        registry.add_step_definition(keyword, u"a passing step", passing)
        registry.add_step_definition(keyword, u"a failing step", failing)
        registry.add_step_definition(keyword, u"an erroring step", erroring)
        registry.add_step_definition(keyword, u"a step that prints", printing)
        registry.add_step_definition(keyword, u"a pending step", pending)
        registry.add_step_definition(
            keyword, u"a step that skips the scenario", skipping)
        registry.add_step_definition(keyword, u"a step that peeks", peeking)
    return registry


def describe_hook_arg(name, args):
    if not args:
        return u"-"
    arg = args[0]
    if "tag" in name:
        return u"tag=%s" % arg
    return u"%s:%s" % (type(arg).__name__, arg.name)


def make_exception(kind, k):
    if kind == "E":
        return Exception("boom %d" % k)
    if kind == "A":
        return AssertionError("assert %d" % k)
    if kind == "A0":
        return AssertionError()
    if kind == "U":
        return ValueError(u"unicode \xe4\xf6 %d" % k)
    if kind == "K":
        return KeyboardInterrupt()
    raise ValueError(kind)


def walk(entity, depth, out):
    indent = u"  " * depth
    line = u"%s%s %r status=%s hook_failed=%s" % (
        indent, type(entity).__name__, entity.name, entity.status.name,
        getattr(entity, "hook_failed", "-"))
    should_skip = getattr(entity, "should_skip", None)
    if should_skip is not None:
        line += u" should_skip=%s skip_reason=%s" % (
            should_skip, getattr(entity, "skip_reason", None))
    if getattr(entity, "was_dry_run", None) is not None:
        line += u" was_dry_run=%s" % entity.was_dry_run
    out.append(line)
    message = getattr(entity, "error_message", None)
    if message:
        for part in norm(message).splitlines():
            out.append(u"%s  | %s" % (indent, part))
    exception = getattr(entity, "exception", None)
    if exception is not None:
        out.append(u"%s  exception=%s(%s)" % (
            indent, type(exception).__name__, norm(exception)))
    if isinstance(entity, ScenarioOutline):
        for scenario in entity.scenarios:
            walk(scenario, depth + 1, out)
    elif isinstance(entity, Scenario):
        for step in entity.all_steps:
            walk(step, depth + 1, out)
    elif hasattr(entity, "run_items"):
        for item in entity.run_items:
            walk(item, depth + 1, out)


def run_once(program, args, inject, mutate_tags=False, cleanups=False):
    """Run the program once; inject = {k: kind}. Returns (lines, n_hook_calls)."""
    log = []
    counter = [0]

    def make_hook(name):
        def hook(context, *args_):
            counter[0] += 1
            k = counter[0]
            scenario = getattr(context, "scenario", None)
            peek = u""
            if args_ and "tag" not in name:
                element = args_[0]
                status = getattr(element, "status", None)
                peek = u" status=%s hook_failed=%s" % (
                    getattr(status, "name", status), element.hook_failed)
            log.append(u"hook#%d %s %s aborted=%s scenario=%s tags=%s%s" % (
                k, name, describe_hook_arg(name, args_), context.aborted,
                getattr(scenario, "name", None),
                sorted(getattr(context, "tags", [])), peek))
            if name == "before_scenario" and "hookskip" in args_[0].tags:
                args_[0].mark_skipped()
            if mutate_tags and name in ("before_scenario", "after_scenario",
                                        "after_feature"):
                # -- REBIND the tag list from inside the element hook:
                #    after_tag hooks must see the NEW list.
                args_[0].tags = list(args_[0].tags) + [u"added_by_%s" % name]
            if cleanups and name in ("before_all", "before_feature",
                                     "before_rule", "before_scenario"):
                # -- CLEANUPS: Registered for the layer of this element;
                #    the failing one makes Context._pop()/_do_cleanups() raise.
                def good_cleanup(k=k):
                    log.append(u"cleanup.good registered by hook#%d" % k)

                def bad_cleanup(k=k):
                    log.append(u"cleanup.bad registered by hook#%d" % k)
                    raise RuntimeError("cleanup %d fails" % k)
                context.add_cleanup(good_cleanup)
                if cleanups == "all" or name == cleanups:
                    context.add_cleanup(bad_cleanup)
            if name == "before_step":
                print("print from before_step %s" % args_[0].name)
            if k in inject:
                raise make_exception(inject[k], k)
        hook.__name__ = name
        return hook

    config = Configuration(command_args=list(args), load_config=False)
    config.reporters = [RecordingReporter(log)]
    features = []
    for filename, text in program:
        features.append(parse_feature(text.lstrip(), filename=filename))
    runner = ModelRunner(config, features=features,
                         step_registry=make_registry(log))
    runner.formatters = [FullFormatter(log), MinimalFormatter(log)]
    runner.hooks = dict((name, make_hook(name)) for name in HOOK_NAMES)

    real_stdout, real_stderr = sys.stdout, sys.stderr
    stream = io.StringIO()
    outcome = None
    with warnings.catch_warnings(record=True) as caught:
        warnings.simplefilter("always")
        sys.stdout = stream
        try:
            try:
                outcome = u"returned %r" % (runner.run(),)
            except BaseException as e:  # pylint: disable=broad-except
                outcome = u"RAISED %s: %s" % (type(e).__name__, norm(e))
        finally:
            restored = (sys.stdout is stream, sys.stderr is real_stderr)
            sys.stdout, sys.stderr = real_stdout, real_stderr

    out = []
    out.append(u"outcome: %s" % outcome)
    out.append(u"stdout/stderr restored after run: %s %s" % restored)
    out.append(u"hook_failures=%s aborted=%s undefined=%s failed_attr=%s" % (
        runner.hook_failures, runner.aborted,
        [s.name for s in runner.undefined_steps],
        getattr(runner.context, "failed", None)))
    out.append(u"-- call log:")
    out.extend(u"  " + norm(line) for line in log)
    out.append(u"-- printed:")
    out.extend(u"  > " + line for line in norm(stream.getvalue()).splitlines())
    out.append(u"-- warnings: %s" % sorted(
        set(norm(w.message) for w in caught)))
    out.append(u"-- model:")
    for feature in features:
        walk(feature, 1, out)
    return out, counter[0]


def digest(lines):
    data = u"\n".join(lines).encode("utf-8")
    return hashlib.sha1(data).hexdigest()


def emit(title, lines, full=True, brief=False):
    print(u"=== %s" % title)
    if full:
        for line in lines:
            print(line)
    else:
        # -- COMPACT: verdict lines + element statuses; digest covers the rest.
        print(lines[0])
        print(lines[2])
        for line in lines[lines.index(u"-- model:"):]:
            if u" status=" in line and not brief:
                print(line)
    print(u"sha1=%s" % digest(lines))


def main():
    print(u"# C12 equivalence transcript, focus=%s" % FOCUS)
    for prog_name, program in PROGRAMS:
        for args in VARIATIONS[prog_name]:
            base = u"%s %s" % (prog_name, u" ".join(args) or u"(default)")
            lines, n = run_once(program, args, {})
            emit(u"%s :: fault-free (hook calls=%d)" % (base, n), lines)
            # -- SINGLE INJECTIONS: every hook call, three kinds.
            for k in range(1, n + 1):
                for kind in ("E", "A", "A0"):
                    lines, _ = run_once(program, args, {k: kind})
                    emit(u"%s :: inject %s@%d" % (base, kind, k), lines,
                         full=(kind == "E"))
            # -- UNICODE message and KeyboardInterrupt: sampled points.
            for k in range(1, n + 1, 3):
                lines, _ = run_once(program, args, {k: "U"})
                emit(u"%s :: inject U@%d" % (base, k), lines, full=False)
                lines, _ = run_once(program, args, {k: "K"})
                emit(u"%s :: inject K@%d" % (base, k), lines)
            # -- PAIRS (digest only; all pairs for small n, strided otherwise).
            stride = 1 if n <= 24 else (2 if n <= 40 else 3)
            for k1 in range(1, n + 1, stride):
                for k2 in range(k1 + 1, n + 1, stride):
                    kinds = ("E", "A") if (k1 + k2) % 2 else ("A", "E")
                    lines, _ = run_once(program, args,
                                        {k1: kinds[0], k2: kinds[1]})
                    emit(u"%s :: inject pair %s@%d+%s@%d" % (
                        base, kinds[0], k1, kinds[1], k2), lines, full=False,
                         brief=True)
        # -- CLEANUP ERRORS: per layer kind (all / run / feature / scenario).
        for mode in ("all", "before_all", "before_feature", "before_rule",
                     "before_scenario"):
            for args in ([], ["--stop"]):
                base = u"%s %s cleanups-failing-for=%s" % (
                    prog_name, u" ".join(args) or u"(default)", mode)
                lines, n = run_once(program, args, {}, cleanups=mode)
                emit(u"%s :: fault-free (hook calls=%d)" % (base, n), lines)
                for k in range(1, n + 1, 4):
                    lines, _ = run_once(program, args, {k: "E"}, cleanups=mode)
                    emit(u"%s :: inject E@%d" % (base, k), lines, full=False)
        # -- HOOKS THAT REBIND element.tags (laziness of the tag loops).
        lines, n = run_once(program, [], {}, mutate_tags=True)
        emit(u"%s :: tags rebound by hooks (hook calls=%d)" % (prog_name, n),
             lines)
        for k in range(1, n + 1, 2):
            lines, _ = run_once(program, [], {k: "E"}, mutate_tags=True)
            emit(u"%s :: tags rebound by hooks, inject E@%d" % (prog_name, k),
                 lines, full=False, brief=True)


if __name__ == "__main__":
    main()
