# -*- coding: UTF-8 -*-
"""
Equivalence transcript for property C07 (tag expressions v2).
Prints a canonical transcript of everything observed through the public API:
  make_tag_expression(text, protocol).check(tags), str()/to_string()/repr(),
  re-parsing of the printed text, error types/messages, dialect selection,
  Configuration.setup_tag_expression() with the {config.tags} placeholder.
"""
from __future__ import absolute_import, print_function
import sys
sys.path.insert(0, "/tmp/wtW/C07")

import itertools
import random

import behave
assert behave.__file__.startswith("/tmp/wtW/C07/"), behave.__file__
from behave.tag_expression import TagExpressionProtocol, make_tag_expression
from behave.tag_expression.builder import (
    _parse_tag_expression_v2, _select_tag_expression_parser4auto
)
from behave.tag_expression.model import (
    Expression, Literal, And, Or, Not, True_, Matcher, Never
)
from behave.tag_expression.parser import TagExpressionParser
from behave.configuration import Configuration


def out(*parts):
    print(" | ".join(str(p) for p in parts))


def guarded(func, *args, **kwargs):
    try:
        return "OK", func(*args, **kwargs)
    except BaseException as e:  # noqa: B902
        return "EXC", "%s: %s" % (type(e).__name__, e)


def subsets(universe):
    for size in range(len(universe) + 1):
        for combo in itertools.combinations(universe, size):
            yield list(combo)


def truth_table(expression, universe):
    bits = []
    for tags in subsets(universe):
        status, value = guarded(expression.check, tags)
        if status == "OK":
            bits.append("1" if value is True else "0" if value is False else "?%r" % (value,))
        else:
            bits.append("<%s>" % value)
    return "".join(bits)


def describe(expression, universe):
    text1 = str(expression)
    text2 = expression.to_string()
    text3 = expression.to_string(pretty=False)
    table = truth_table(expression, universe)
    # -- ROUND-TRIP: printed text parses to the same meaning.
    trips = []
    for printed in (text1, text2):
        status, again = guarded(make_tag_expression, printed, TagExpressionProtocol.V2)
        if status == "OK":
            trips.append("%s=%s" % (repr(again), truth_table(again, universe) == table))
        else:
            trips.append(again)
    return [type(expression).__name__, repr(expression), repr(text1), repr(text2),
            repr(text3), table] + trips


# -----------------------------------------------------------------------------
# SECTION 1: exhaustive small trees, several renderings, complete truth tables
# -----------------------------------------------------------------------------
UNIVERSE = ["a", "b", "a.b", "a-b", "k=v", "A", "foo.bar"]
OPERANDS = ["a", "b", "a.b", "a-b", "k=v", "a*", "?", "[ab]", "*.b*", "A", "foo.*", "[!a]*"]


def trees(depth):
    if depth == 0:
        for op in OPERANDS:
            yield ("lit", op)
        return
    for sub in trees(depth - 1):
        yield sub
    smaller = list(trees(depth - 1))
    for sub in smaller:
        yield ("not", sub)
    for left, right in itertools.product(smaller, smaller):
        yield ("and", left, right)
        yield ("or", left, right)


def render(tree, style):
    kind = tree[0]
    at = "@" if style in (1, 3) else ""
    pad = "  " if style in (2, 3) else " "
    if kind == "lit":
        text = at + tree[1]
        if style == 3:
            text = "( %s )" % text
        return text
    if kind == "not":
        inner = render(tree[1], style)
        if tree[1][0] != "lit" or style == 2:
            inner = "(%s)" % inner
        return "not%s%s" % (pad, inner)
    left = render(tree[1], style)
    right = render(tree[2], style)
    return "(%s%s%s%s%s)" % (left, pad, kind, pad, right)


def section_trees():
    out("== SECTION 1: trees")
    seen = set()
    count = 0
    all_trees = list(trees(1))
    rng = random.Random(7)
    deep = list(trees(0))
    # -- LARGER RANDOM TREES:
    for _ in range(120):
        pool = deep + all_trees
        kind = rng.choice(["not", "and", "or"])
        if kind == "not":
            t = ("not", rng.choice(pool))
        else:
            t = (kind, rng.choice(pool), rng.choice(pool))
        if rng.random() < 0.5:
            t = (rng.choice(["and", "or"]), t, ("not", rng.choice(pool)))
        all_trees.append(t)
    for tree in all_trees:
        for style in (0, 1, 2, 3):
            text = render(tree, style)
            if text in seen:
                continue
            seen.add(text)
            for protocol in (TagExpressionProtocol.V2, TagExpressionProtocol.AUTO_DETECT):
                status, expression = guarded(make_tag_expression, text, protocol)
                if status != "OK":
                    out("T", protocol.name, repr(text), expression)
                    continue
                count += 1
                if protocol is TagExpressionProtocol.AUTO_DETECT and style != 0:
                    # -- COMPACT: only the table for the second dialect.
                    out("T", protocol.name, repr(text), repr(expression),
                        truth_table(expression, UNIVERSE))
                else:
                    out("T", protocol.name, repr(text), *describe(expression, UNIVERSE))
    out("trees.count", count)


# -----------------------------------------------------------------------------
# SECTION 2: fixed boundary texts (empty, spaces, list form, errors, dialects)
# -----------------------------------------------------------------------------
TEXTS = [
    "", " ", "  ", "   ", "a", "@a", "@@a", "a@b", "@", "not a", "not @a", "not not a",
    "not (a)", "not ( a )", "not (not a)", "not (a and b)", "not (a or b)",
    "not (a and b) or c", "a and b", "a  and  b", "a   and   b", "a and b and c",
    "a or b or c", "a and b or c", "a or b and c", "a and (b or c)", "(a)", "((a))",
    "( ( a ) )", "(a and b) or (c and d)", "not a and not b", "not (a.* or *.b)",
    "a.*", "*.b", "*", "?", "??", "[ab]", "[!ab]", "[a-c]*", "a[", "a]", "[]", "[]]",
    "a.b", "a-b", "k=v", "k=*", "*=v", "foo.bar-baz=1", "A", "A*", "a*",
    "a\\ b", "a\\(b\\)", "\\(", "a\\\\b", "a\\b",
    "and", "or", "not", "a and", "and a", "a or", "or a", "a not b", "a b", "a b c",
    "(", ")", "()", "(a", "a)", "a and (b", "a and b)", "( )", "not ()", "not", "not not",
    "a and and b", "a or or b", "a and or b", "(a and b) (c)",
    "~a", "-a", "~@a", "-@a", "a,b", "@a,@b", "a, b", "~a and b", "-a or b", "a,b and c",
    "not -a", "~a*", "a* b", "@a @b", "a ~b", "a-b c", "a , b",
    "a\tand\tb", "a\nand\nb", " a and b ", "  a  ", "AND", "a AND b", "Not a", "a Or b",
    "{config.tags}", "not @wip and (@x.* or @y)", "@a and @b or not @c",
    u"ä and ö", u"@ä*",
]

SEQS = [
    [], [""], ["a"], ["a", "b"], ["@a", "@b"], ["a or b", "c"], ["a or b", "not c"],
    ["not a", "not b"], ["a.*", "*.b"], ["a", ""], ["", ""], ["(a", "b)"], ["a)", "(b"],
    ["~a", "b"], ["-a"], ["a,b", "c"], ["a,b", "~c"], ["a b"], ["a  or  b", "@c  and  d"],
    ("a", "b"), ("a or b",), (), ["a and"], ["not"], [1, 2], [None], ["a", 1],
    ["@a", "not @b", "(@c or @d.*)"],
]

NON_TEXTS = [None, 1, 1.5, {"a": 1}, set(["a"]), b"a and b", object]

TAG_SETS = [
    [], ["a"], ["b"], ["a", "b"], ["c"], ["a", "b", "c"], ["a", "b", "c", "d"], ["a.b"],
    ["a-b"], ["k=v"], ["k=w"], ["A"], ["ab"], ["foo.bar-baz=1"], ["wip"], ["x.1", "y"],
    ["a b"], ["(b)"], ["a(b)"], ["("], ["a\\b"], ["["], ["a["], ["]"], ["@a"],
    ["and"], ["or"], ["not"], [""], ["a", "a"], [u"ä"], [u"äx", u"ö"],
    ("a", "b"), set(["a", "b"]), frozenset(["c"]), iter(["a"]), "a", "ab", "",
]


def fresh_tag_sets():
    for tags in TAG_SETS:
        if hasattr(tags, "__next__") or hasattr(tags, "next"):
            yield iter(["a"])
        else:
            yield tags


def check_all(expression):
    bits = []
    for tags in fresh_tag_sets():
        status, value = guarded(expression.check, tags)
        bits.append({True: "1", False: "0"}.get(value, "?") if status == "OK"
                    else "<%s>" % value)
    return "".join(bits)


def section_texts():
    out("== SECTION 2: texts")
    protocols = [TagExpressionProtocol.V2, TagExpressionProtocol.AUTO_DETECT,
                 TagExpressionProtocol.V1, TagExpressionProtocol.STRICT, None]
    for item in TEXTS + SEQS + NON_TEXTS:
        for protocol in protocols:
            pname = getattr(protocol, "name", None)
            status, expression = guarded(make_tag_expression, item, protocol)
            if status != "OK":
                out("X", pname, repr(item), expression)
                continue
            row = [type(expression).__name__, repr(str(expression)), check_all(expression)]
            if isinstance(expression, Expression):
                row.append(repr(expression))
                row.append(repr(expression.to_string()))
                row.append(repr(expression.to_string(False)))
                row.append(repr(expression.to_string(pretty=True)))
                row.append(repr("{0}".format(expression)))
                row.append(repr("%s" % expression))
                status2, again = guarded(make_tag_expression, expression.to_string(),
                                         TagExpressionProtocol.V2)
                row.append(repr(again) if status2 == "OK" else again)
                if status2 == "OK":
                    row.append(check_all(again) == check_all(expression))
                # -- CALL PROTOCOL: expression(values)
                row.append(guarded(expression, ["a", "b"]))
            out("X", pname, repr(item), *row)
        if isinstance(item, (list, tuple)):
            out("X.seq-after", repr(item))
        status, func = guarded(_select_tag_expression_parser4auto, item)
        out("X.select", repr(item), func.__name__ if status == "OK" else func)
        status, expression = guarded(_parse_tag_expression_v2, item)
        out("X.v2", repr(item), repr(expression) if status == "OK" else expression)


# -----------------------------------------------------------------------------
# SECTION 3: model classes used directly
# -----------------------------------------------------------------------------
class Weird(object):
    def __init__(self, text):
        self.text = text

    def __str__(self):
        return self.text

    def __repr__(self):
        return "Weird(%r)" % self.text

    def evaluate(self, values):
        return "x" in values


class LoggingTags(object):
    """Iterable that records how far it was consumed (laziness is observable)."""
    def __init__(self, tags):
        self.tags = tags
        self.log = []

    def __iter__(self):
        for tag in self.tags:
            self.log.append(tag)
            yield tag


def section_model():
    out("== SECTION 3: model")
    terms = [
        Literal("a"), Literal("a b"), Literal("a(b)"), Literal("a\\b"), Literal(""),
        Matcher("a*"), Matcher("*"), Matcher(""), Matcher("[ab]"), Matcher("a b*"),
        True_(), Never(), And(), Or(), And(Literal("a")), Or(Literal("a")),
        And(Literal("a"), Literal("b")), Or(Literal("a"), Matcher("b*")),
        And(Literal("a"), Or(Literal("b"), Not(Literal("c")))),
        And(True_(), Literal("a")), Or(Never(), Literal("a")), And(And(), Or()),
    ]
    nots = [Not(t) for t in terms]
    nots2 = [Not(t) for t in nots]
    extra = [Not(Weird("w")), Not(Weird("( w )")), Not(Weird("")), Not(Weird("{0}")),
             Not(Weird("%s")), Not(Weird("( ")), Not(Weird(" )"))]
    for e in terms + nots + nots2 + extra:
        row = [repr(str(e)), repr(e.to_string()), repr(e.to_string(False)),
               repr(e.to_string(pretty=False)), repr(e.to_string(True)),
               repr("{0}".format(e)), guarded(repr, e)]
        row.append(check_all(e))
        row.append(guarded(getattr, e, "name"))
        out("M", type(e).__name__, *row)
    # -- TEXTS with parenthesis-space combinations for to_string(pretty)
    for text in ["(  a )", "( a  )", "(  )", "( )", "(( a ))", "( ( a ) )", " ) ( ",
                 "(   a   )", "a ( b ) c", "( ( ", " ) )", "(  (  a  )  )"]:
        w = Weird(text)
        out("M.pretty", repr(text), repr(Expression.to_string(w)),
            repr(Expression.to_string(w, False)), repr(Expression.to_string(w, pretty=1)),
            repr(Expression.to_string(w, pretty=0)), repr(Expression.to_string(w, None)),
            repr(Expression.to_string(w, "")), repr(Expression.to_string(w, "x")))
    # -- MATCHER: patterns x values, laziness, odd inputs
    patterns = ["a*", "*a", "*", "?", "??", "[ab]", "[!ab]", "[a-c]x", "a.*", "*.a.*",
                "A*", "a", "", "[", "[]", "[]]", "a[", "*=v", "k=?", "a-*", "\\*", "[*]",
                "a**b", "*.*", "?*", u"ä*"]
    values = ["a", "b", "ab", "ba", "A", "Ab", "a.b", "x.a.y", "", "[", "[]", "]", "a[",
              "k=v", "k=", "a-b", "*", "\\*", "\\a", "cx", "a\nb", "a.b.c", u"äb"]
    for pattern in patterns:
        m = Matcher(pattern)
        bits = "".join("1" if m.evaluate([v]) is True else "0" for v in values)
        out("M.match", repr(pattern), repr(m), str(m), m.name, m.pattern, bits,
            m.evaluate(values), m.evaluate([]), m.evaluate(()), m.evaluate(set()),
            m.evaluate(iter(values)), m.check(values), m(values),
            Matcher.contains_wildcards(pattern), m.contains_wildcards(pattern),
            type(Matcher.contains_wildcards(pattern)).__name__,
            type(m.evaluate(values)).__name__,
            repr(TagExpressionParser.make_operand(pattern)),
            type(TagExpressionParser().make_operand(pattern)).__name__)
        tags = LoggingTags(values)
        out("M.lazy", repr(pattern), m.evaluate(tags), len(tags.log), tags.log[-1:])
        gen = iter(values)
        out("M.lazy2", repr(pattern), m.evaluate(gen), len(list(gen)))
    m = Matcher("a*")
    for bad in [None, 1, [1], [None], ["a", 1], [1, "a"], [b"a"], ["b", b"a"], "abc",
                {"a": 1}, {"b": 1}, [["a"]], object()]:
        out("M.bad", repr(bad) if not type(bad) is object else "object()",
            guarded(m.evaluate, bad))
    for bad in [None, 1, b"a*", b"a", ["a*"], ("a",), u"a*"]:
        out("M.wild-bad", repr(bad), guarded(Matcher.contains_wildcards, bad),
            guarded(TagExpressionParser.make_operand, bad))
    m2 = Matcher("x*")
    m2.pattern = "a*"
    out("M.mutable", repr(m2), str(m2), m2.name, m2.evaluate(["ab"]), m2.evaluate(["xb"]))
    m3 = Matcher.__new__(Matcher)
    out("M.nopattern", guarded(m3.evaluate, []), guarded(m3.evaluate, ["a"]),
        guarded(str, m3))

    class SubMatcher(Matcher):
        @staticmethod
        def contains_wildcards(text):
            return "%" in text

    out("M.sub", SubMatcher.contains_wildcards("a%"), SubMatcher.contains_wildcards("a*"),
        SubMatcher("a*").evaluate(["ab"]), repr(SubMatcher("a*")))
    out("M.api", sorted(n for n in vars(Matcher) if not n.startswith("__")),
        type(vars(Matcher)["contains_wildcards"]).__name__,
        type(vars(Matcher)["name"]).__name__,
        Expression.check.__name__, Expression.to_string.__name__, Not.__str__.__name__)

    class SubParser(TagExpressionParser):
        @classmethod
        def make_operand(cls, text):
            return Literal(text.upper())

    out("M.subparser", repr(SubParser.parse("a* and b")), repr(SubParser().parse("not x")))
    out("M.parser", repr(TagExpressionParser.parse("a* and b")),
        repr(TagExpressionParser().parse("not x? or [y]")),
        guarded(TagExpressionParser.parse, "a and"),
        guarded(TagExpressionParser.parse, "(a"))


# -----------------------------------------------------------------------------
# SECTION 4: dialect selection state
# -----------------------------------------------------------------------------
def section_protocol():
    out("== SECTION 4: protocol")
    P = TagExpressionProtocol
    out("P.members", [m.name for m in P], P.choices(), P.STRICT is P.V2,
        P.DEFAULT is P.AUTO_DETECT)
    if hasattr(P, "_current"):
        delattr(P, "_current")
    out("P.current0", P.current().name, "_current" in vars(P))
    for name in ["v1", "V2", "auto_detect", "strict", "STRICT", "Auto_Detect", P.V1, P.V2,
                 P.AUTO_DETECT, "default", "", "v3", None, 1, "V1 "]:
        status, value = guarded(P.use, name)
        out("P.use", getattr(name, "name", repr(name)), status, value, P.current().name,
            getattr(getattr(P, "_current", None), "name", None))
        for text in ["a b", "a and b", "~a", "a", "a,b", "a*", ["a", "b"]]:
            status, e = guarded(make_tag_expression, text)
            out("P.make", repr(text), type(e).__name__ if status == "OK" else e,
                str(e) if status == "OK" else "-")
    for name in ["v1", "v2", "auto_detect", "strict", "x", ""]:
        status, value = guarded(P.from_name, name)
        out("P.from_name", repr(name), status, getattr(value, "name", value))
    for member in P:
        for text in ["a and b", "a b", "~a", "a*", "", ["a", "b"], ("a or b", "c"), 1, None]:
            status, e = guarded(member.parse, text)
            out("P.parse", member.name, repr(text),
                (type(e).__name__, str(e)) if status == "OK" else e)
    P.use(P.DEFAULT)


# -----------------------------------------------------------------------------
# SECTION 5: Configuration.setup_tag_expression and the {config.tags} placeholder
# -----------------------------------------------------------------------------
class StrSub(str):
    pass


def section_config():
    out("== SECTION 5: config")
    P = TagExpressionProtocol
    config_tags_list = [
        None, "", "a", "@a", "not a", "not @a", "a and b", "a or b", "not (a or b)",
        "a.* and not b", "not a*", "a b", "~a", "a,b", "(a", ["a", "b"], ["a or b", "c"],
        "not (a and b) or c", "@wip", "k=v or a-b",
    ]
    cmd_tags_list = [
        None, "", "x", "{config.tags}", "{config.tags} and x", "x and {config.tags}",
        "not {config.tags}", "not ({config.tags})", "{config.tags} or {config.tags}",
        "({config.tags}) and not x", "x or not ({config.tags})", "{config.tags",
        "{config.tags} x", "~x", "x,y",
        ["{config.tags}"], ["{config.tags}", "x"], ["x", "not ({config.tags})"],
        ["x", "y"], ["x or y", "{config.tags} and {config.tags}"], [],
        ("x", "y"), ("{config.tags}", "x"), ("x", "{config.tags}"), (),
        ["x", 1], [1, "{config.tags}"], ["{config.tags}", 1], 1,
        StrSub("x"), StrSub("{config.tags} and x"), [StrSub("x")],
        [["{config.tags}"], "x"], ["x", ("{config.tags}",)], [StrSub("{config.tags} or x")],
        [None, "{config.tags}"], b"{config.tags}", [b"{config.tags}"],
    ]
    universe = ["a", "b", "c", "x", "y", "wip", "a.1", "k=v", "a-b"]
    for protocol in (P.AUTO_DETECT, P.V2, P.V1):
        for config_tags in config_tags_list:
            for cmd_tags in cmd_tags_list:
                for how in ("attr", "arg"):
                    if how == "arg" and not cmd_tags:
                        continue
                    if isinstance(config_tags, list):
                        config_tags = list(config_tags)
                    this_tags = list(cmd_tags) if isinstance(cmd_tags, list) else cmd_tags
                    config = Configuration(command_args=[], load_config=False)
                    config.tag_expression_protocol = protocol
                    config.config_tags = config_tags
                    config.tag_expression = "UNSET"
                    P.use(P.DEFAULT)
                    if how == "attr":
                        config.tags = this_tags
                        status, value = guarded(config.setup_tag_expression)
                    else:
                        config.tags = None
                        status, value = guarded(config.setup_tag_expression, this_tags)
                    e = config.tag_expression
                    row = [status, value, P.current().name, repr(config.tags),
                           type(config.tags).__name__, config.tags is this_tags,
                           repr(this_tags), repr(config.config_tags), type(e).__name__]
                    if e != "UNSET":
                        row.append(repr(str(e)))
                        row.append(truth_table(e, universe))
                    out("C", protocol.name, how, repr(config_tags), repr(cmd_tags), *row)
    # -- default_tags / command-line path
    P.use(P.DEFAULT)
    for args in [[], ["--tags=a"], ["--tags=a", "--tags=b"], ["--tags=not @a"],
                 ["--tags={config.tags} and x"], ["--tags=a or b", "--tags=not c"],
                 ["--tags=~a"], ["--tags=a,b"], ["--tags=a", "--tags=~b"],
                 ["--tags=a b"], ["--tags={config.tags} or x*"], ["--no-such-option"]]:
        for kwargs in [{}, {"config_tags": "c.* or not d"}, {"default_tags": "not @xfail"},
                       {"config_tags": "c", "default_tags": "d"},
                       {"tags": "e and {config.tags}", "config_tags": "f"},
                       {"tag_expression_protocol": P.V2, "config_tags": "c d"},
                       {"tag_expression_protocol": P.V1, "config_tags": "c d"},
                       {"tag_expression_protocol": P.V2, "default_tags": "not c*"}]:
            status, config = guarded(Configuration, command_args=list(args),
                                     load_config=False, **kwargs)
            if status != "OK":
                out("C.cmd", args, sorted(kwargs), config)
                continue
            e = config.tag_expression
            out("C.cmd", args, sorted(kwargs), repr(config.tags),
                repr(config.config_tags), repr(config.default_tags), type(e).__name__,
                repr(str(e)), truth_table(e, ["a", "b", "c", "c.1", "d", "e", "f", "x", "xfail"]),
                P.current().name)
    P.use(P.DEFAULT)


if __name__ == "__main__":
    section_trees()
    section_texts()
    section_model()
    section_protocol()
    section_config()
    out("== DONE")
