# -*- coding: UTF-8 -*-
"""
Equivalence transcript for property C11 (step matching and dispatch).

Exercises the four matcher kinds, the step registry (registration histories,
ambiguity, lookups), Match.run argument dispatch, the step-matcher factory,
load_step_modules() and a small "python -m behave" run.
Prints a canonical transcript to stdout.
"""
from __future__ import absolute_import, print_function
import sys
sys.path.insert(0, "/tmp/wtU/C11")

import contextlib
import io
import os
import shutil
import subprocess

import parse
import behave
from behave import matchers
from behave.matchers import (
    Match, MatchWithError, NoMatch, Matcher, ParseMatcher, CFParseMatcher,
    RegexMatcher, SimplifiedRegexMatcher, CucumberRegexMatcher,
    StepMatcherFactory, StepParseError, get_step_matcher_factory,
)
from behave import step_registry
from behave.step_registry import StepRegistry, AmbiguousStep

assert behave.__file__.startswith("/tmp/wtU/C11/"), behave.__file__
HERE = os.path.dirname(os.path.abspath(__file__))
os.chdir(HERE)


def out(*parts):
    print(*parts)


def section(title):
    out("")
    out("=" * 70)
    out("== " + title)
    out("=" * 70)


# ---------------------------------------------------------------------------
# SUPPORT
# ---------------------------------------------------------------------------
class FakeContext(object):
    def __init__(self):
        self.log = []

    @contextlib.contextmanager
    def use_with_user_mode(self):
        self.log.append("enter-user-mode")
        try:
            yield self
        finally:
            self.log.append("exit-user-mode")


class FakeStep(object):
    def __init__(self, step_type, name):
        self.step_type = step_type
        self.name = name


RECORDER_SOURCE = """
def make(label, fail):
    def recorder(context, *args, **kwargs):
        context.log.append("call %s args=%r kwargs=%r"
                           % (label, args, sorted(kwargs.items())))
        if fail:
            raise fail
    return recorder
"""


def make_recorder(label, fail=None):
    # -- Each recorder gets its own source location (file name per label),
    #    two recorders with the same label share one location.
    namespace = {}
    code = compile(RECORDER_SOURCE, "recorders/%s.py" % label, "exec")
    exec(code, namespace)
    recorder = namespace["make"](label, fail)
    recorder.__name__ = str("fn_" + label)
    return recorder


def describe_exception(e):
    return "%s: %s" % (e.__class__.__name__, e)


def describe_args(arguments):
    if arguments is None:
        return "arguments=None"
    parts = []
    for a in arguments:
        parts.append("(%r, %r, %r, %r, %r)"
                     % (a.start, a.end, a.original, a.value, a.name))
    return "[" + ", ".join(parts) + "]"


def describe_match(m, text=None):
    if m is None:
        return "None"
    if isinstance(m, MatchWithError):
        return "MatchWithError(func=%s, error=%s)" % (
            getattr(m.func, "__name__", m.func),
            describe_exception(m.stored_error))
    if isinstance(m, Match):
        desc = "Match(func=%s, args=%s)" % (
            getattr(m.func, "__name__", m.func), describe_args(m.arguments))
        if text is not None and m.arguments:
            ok = all(text[a.start:a.end] == a.original for a in m.arguments
                     if isinstance(a.original, type(text)))
            starts = [a.start for a in m.arguments]
            desc += " spans_ok=%s sorted=%s" % (ok, starts == sorted(starts))
        return desc
    return "OTHER:%r" % (m,)


def run_match(m):
    ctx = FakeContext()
    try:
        m.run(ctx)
        ctx.log.append("run-returned")
    except Exception as e:  # pylint: disable=broad-except
        ctx.log.append("run-raised " + describe_exception(e))
        cause = getattr(e, "__cause__", None)
        if cause is not None:
            ctx.log.append("cause " + describe_exception(cause))
    return ctx.log


def variants(text):
    """exact instance, wrong case, extra prefix/suffix, changed literal."""
    result = [text, text.upper(), text.lower(), text.title(), text.swapcase(),
              "x " + text, "And " + text, text + " x", text + " ", " " + text,
              text + "\n", text.replace("a", "o", 1), text[:-1], text[1:], ""]
    seen = []
    for item in result:
        if item not in seen:
            seen.append(item)
    return seen


# ---------------------------------------------------------------------------
# TYPE CONVERTERS
# ---------------------------------------------------------------------------
@parse.with_pattern(r"\d+")
def parse_number(text):
    if text == "13":
        raise ValueError("unlucky number: %s" % text)
    if text == "666":
        raise TypeError("beastly number")
    if text == "777":
        raise NotImplementedError("number 777 is not implemented")
    return int(text)


@parse.with_pattern(r"red|green|blue")
def parse_color(text):
    return "Color<%s>" % text


@parse.with_pattern(r"yes|no")
def parse_yesno(text):
    return text == "yes"


def reset_types():
    ParseMatcher.clear_registered_types()
    CFParseMatcher.clear_registered_types()


def setup_types():
    reset_types()
    ParseMatcher.register_type(Number=parse_number, Color=parse_color,
                               YesNo=parse_yesno)


# ---------------------------------------------------------------------------
# SECTION 1: matchers directly
# ---------------------------------------------------------------------------
PARSE_CASES = [
    ("a plain step", ["a plain step"]),
    ("a step with {name}", ["a step with Alice", "a step with Alice and Bob",
                            "a step with "]),
    ("I have {count:d} apples", ["I have 12 apples", "I have -3 apples",
                                 "I have 0x1F apples", "I have twelve apples",
                                 "I have  7 apples"]),
    ("{:w} meets {:w}", ["Alice meets Bob", "Alice  meets Bob",
                         "Al ice meets Bob", "meets meets meets"]),
    ("{:d} plus {b:d} is {:d}", ["1 plus 2 is 3", "10 plus -20 is 0003",
                                 "1 plus x is 3"]),
    ("price is {x:f} EUR", ["price is 3.14 EUR", "price is -0.5 EUR",
                            "price is 3 EUR", "price is .5 EUR"]),
    ("{first} and {second} and {third}", ["a and b and c",
                                          "a and b and c and d",
                                          " and  and "]),
    ("{b} before {a}", ["1 before 2", "before before before"]),
    ("buy {amount:Number} {color:Color} cars", ["buy 3 red cars",
                                                "buy 13 red cars",
                                                "buy 666 blue cars",
                                                "buy 777 blue cars",
                                                "buy 3 pink cars",
                                                "buy 3 RED cars"]),
    ("{:Number} or {:Color} or {flag:YesNo}", ["5 or green or yes",
                                               "5 or green or no",
                                               "5 or green or maybe",
                                               "13 or green or no"]),
    ("quoted \"{text}\" here", ["quoted \"hello world\" here",
                                "quoted \"\" here", "quoted \"a\"b\" here"]),
    (u"caf\xe9 {drink}", [u"caf\xe9 cr\xe8me", u"CAF\xc9 cr\xe8me"]),
    ("{x:2d}{y:2d}", ["1234", "123", "12345"]),
    ("dotted {person.name} here", ["dotted Bob here"]),
    ("item {item[0]} here", ["item x here"]),
    ("same {a} then {a}", ["same 1 then 1", "same 1 then 2"]),
    ("special chars: (a|b)* [x] ^$ {v}", ["special chars: (a|b)* [x] ^$ 1",
                                          "special chars: a [x] ^$ 1"]),
]

CFPARSE_CASES = [
    ("numbers {numbers:Number+} end", ["numbers 1, 2, 3 end", "numbers 1 end",
                                       "numbers  end", "numbers 1, 13 end",
                                       "numbers 1,2 end"]),
    ("colors {colors:Color*} end", ["colors red, blue end", "colors  end",
                                    "colors red end", "colors pink end"]),
    ("maybe {n:Number?} end", ["maybe 4 end", "maybe  end", "maybe x end"]),
    ("{:Number+} and {:Color?} done", ["1, 2 and red done", "1 and  done"]),
    ("{flag:YesNo} with {count:d} and {name}", ["yes with 3 and Carl",
                                                "no with -1 and ",
                                                "Yes with 3 and Carl"]),
    ("a plain step", ["a plain step"]),
]

RE_CASES = [
    (r"a plain step", ["a plain step"]),
    (r"I have (?P<count>\d+) apples", ["I have 12 apples", "I have apples",
                                        "I have 12 apples and pears"]),
    (r"(\w+) meets (\w+)", ["Alice meets Bob", "Alice meets Bob again"]),
    (r"(?P<a>\d+) plus (\d+) is (?P<c>\d+)", ["1 plus 2 is 3",
                                                "1 plus 2 is three"]),
    (r"optional (?P<maybe>\d+)?end", ["optional 12end", "optional end"]),
    (r"opt( \d+)? and (?P<name>\w+)?", ["opt 5 and bob", "opt and bob",
                                         "opt and "]),
    (r"nested ((?P<in>a+)(b+)) tail", ["nested aabbb tail", "nested ab tail",
                                       "nested b tail"]),
    (r"alt (?:x|y) (?P<z>z*)", ["alt x zzz", "alt y ", "alt w z"]),
    (r"(?P<c>\d+) before (?P<a>\w+) before (?P<b>\w+)", ["1 before x before y"]),
    (u"caf\xe9 (?P<drink>\\w+)", [u"caf\xe9 cr\xe8me", u"CAF\xc9 cr\xe8me"]),
    (r"(?i)any case (?P<x>\w+)", ["any case Foo", "ANY CASE Foo"]),
    (r"dot.star (.*)", ["dot.star anything at all", "dotXstar ", "dot.star"]),
]

RE0_CASES = [
    (r"^a plain step$", ["a plain step"]),
    (r"a plain step", ["a plain step"]),
    (r"^I have (?P<count>\d+) apples", ["I have 12 apples",
                                         "I have 12 apples and pears"]),
    (r"(\w+) meets (\w+)$", ["Alice meets Bob", "Alice meets Bob again"]),
    (r"^(?P<a>\d+)?(x)?(?P<b>y)?$", ["1xy", "x", "", "1y"]),
]


def exercise_matcher_class(matcher_class, cases, label):
    section("MATCHERS: %s (%s)" % (label, matcher_class.__name__))
    for number, (pattern, texts) in enumerate(cases):
        func = make_recorder("%s%d" % (label, number))
        out("")
        out("PATTERN %r" % (pattern,))
        try:
            matcher = matcher_class(func, pattern, "given")
        except Exception as e:  # pylint: disable=broad-except
            out("  constructor raised", describe_exception(e))
            continue
        try:
            out("  compile -> same object:", matcher.compile() is matcher)
        except Exception as e:  # pylint: disable=broad-except
            out("  compile raised", describe_exception(e))
            continue
        out("  repr:", repr(matcher), "| describe:", matcher.describe(),
            "| step_type:", matcher.step_type)
        out("  regex_pattern: %r" % (matcher.regex_pattern,))
        all_texts = []
        for text in texts:
            for variant in variants(text):
                if variant not in all_texts:
                    all_texts.append(variant)
        all_texts.append(pattern)
        for text in all_texts:
            try:
                checked = matcher.check_match(text)
                checked_desc = ("None" if checked is None
                                else describe_args(checked))
            except Exception as e:  # pylint: disable=broad-except
                checked_desc = "raised " + describe_exception(e)
            try:
                m = matcher.match(text)
                match_desc = describe_match(m, text)
            except Exception as e:  # pylint: disable=broad-except
                m = None
                match_desc = "raised " + describe_exception(e)
            try:
                matches_desc = repr(matcher.matches(text))
            except Exception as e:  # pylint: disable=broad-except
                matches_desc = "raised " + describe_exception(e)
            out("  TEXT %r" % (text,))
            out("    check_match:", checked_desc)
            out("    match:", match_desc)
            out("    matches:", matches_desc)
            if m is not None:
                for line in run_match(m):
                    out("    run:", line)


def section_matchers():
    setup_types()
    exercise_matcher_class(ParseMatcher, PARSE_CASES, "parse")
    exercise_matcher_class(CFParseMatcher, PARSE_CASES[:9], "cfparse-basic")
    # -- cfparse uses the same TYPE_REGISTRY object as parse (inherited).
    out("")
    out("cfparse shares registry:",
        CFParseMatcher.TYPE_REGISTRY is ParseMatcher.TYPE_REGISTRY)
    exercise_matcher_class(CFParseMatcher, CFPARSE_CASES, "cfparse")
    exercise_matcher_class(SimplifiedRegexMatcher, RE_CASES, "re")
    exercise_matcher_class(CucumberRegexMatcher, RE0_CASES, "re0")
    exercise_matcher_class(RegexMatcher, RE0_CASES[:2], "regex-base")

    section("MATCHERS: constructor / compile failures")
    bad = [
        (SimplifiedRegexMatcher, r"^anchored"),
        (SimplifiedRegexMatcher, r"anchored$"),
        (SimplifiedRegexMatcher, r"bad (group"),
        (CucumberRegexMatcher, r"bad [class"),
        (ParseMatcher, "unknown {x:NoSuchType} type"),
        (CFParseMatcher, "unknown {x:NoSuchType+} type"),
        (ParseMatcher, "unbalanced {x"),
        (ParseMatcher, "dup {x} and {x:d}"),
    ]
    for matcher_class, pattern in bad:
        try:
            matcher = matcher_class(make_recorder("bad"), pattern)
            out("constructed", repr(matcher))
            try:
                matcher.compile()
                out("  compiled OK")
            except Exception as e:  # pylint: disable=broad-except
                out("  compile raised", describe_exception(e))
            try:
                out("  match:", describe_match(matcher.match("anything")))
            except Exception as e:  # pylint: disable=broad-except
                out("  match raised", describe_exception(e))
            try:
                out("  matches:", repr(matcher.matches("anything")))
            except Exception as e:  # pylint: disable=broad-except
                out("  matches raised", describe_exception(e))
        except BaseException as e:  # pylint: disable=broad-except
            out("constructor", matcher_class.__name__, repr(pattern),
                "raised", describe_exception(e))

    section("MATCHERS: custom_types param, default step_type, base class")
    m = ParseMatcher(make_recorder("custom"), "val {v:Twice}",
                     custom_types={"Twice": lambda t: t * 2})
    out(describe_match(m.match("val ab"), "val ab"), "| step_type", m.step_type)
    out("has Number:", ParseMatcher.has_registered_type("Number"),
        CFParseMatcher.has_registered_type("Number"),
        RegexMatcher.has_registered_type("Number"),
        Matcher.has_registered_type("Number"))
    for cls in (RegexMatcher, SimplifiedRegexMatcher, CucumberRegexMatcher,
                Matcher):
        try:
            cls.register_type(Foo=int)
            out(cls.__name__, "register_type OK")
        except Exception as e:  # pylint: disable=broad-except
            out(cls.__name__, "register_type raised", describe_exception(e))
    base = Matcher(make_recorder("base"), "some pattern")
    for name in ("compile", "check_match", "match", "matches"):
        for arg in ("some pattern", "other"):
            try:
                method = getattr(base, name)
                result = method() if name == "compile" else method(arg)
                out("Matcher.%s(%r) ->" % (name, arg), repr(result))
            except Exception as e:  # pylint: disable=broad-except
                out("Matcher.%s(%r) raised" % (name, arg),
                    describe_exception(e))

    section("MATCHERS: custom subclasses (odd check_match / match results)")

    class OddCheck(Matcher):
        def __init__(self, func, pattern, result):
            Matcher.__init__(self, func, pattern)
            self.result = result

        def check_match(self, step_text):
            if isinstance(self.result, BaseException):
                raise self.result
            return self.result

    class OddMatch(Matcher):
        def __init__(self, func, pattern, result):
            Matcher.__init__(self, func, pattern)
            self.result = result

        def match(self, step_text):
            return self.result

    from behave.model_core import Argument
    func = make_recorder("odd")
    gen_args = (Argument(i, i + 1, "t", v, n)
                for i, (v, n) in enumerate([(1, None), (2, "k"), (3, None)]))
    odd_results = [
        None, [], (), 0, "", [Argument(0, 1, "x", "X")],
        (Argument(3, 4, "b", "B", "late"), Argument(0, 1, "a", "A"),
         Argument(1, 2, "c", "C", "late")),
        gen_args,
        ValueError("boom"), KeyError("key"), NotImplementedError("nope"),
        StepParseError("spe"), AssertionError("assert"),
    ]
    for result in odd_results:
        matcher = OddCheck(func, "odd pattern", result)
        if result is gen_args:
            label = "generator"
        elif isinstance(result, (list, tuple)) and result:
            label = "%s of %d Argument" % (type(result).__name__, len(result))
        else:
            label = repr(result)
        try:
            m = matcher.match("text")
            out("OddCheck(%s).match ->" % label, describe_match(m))
            if m is not None:
                for line in run_match(m):
                    out("   run:", line)
        except Exception as e:  # pylint: disable=broad-except
            out("OddCheck(%s).match raised" % label, describe_exception(e))
        try:
            out("OddCheck(%s).matches ->" % label, repr(matcher.matches("text")))
        except Exception as e:  # pylint: disable=broad-except
            out("OddCheck(%s).matches raised" % label, describe_exception(e))
        out("OddCheck(%s).matches(pattern) ->" % label,
            repr(matcher.matches("odd pattern")))

    class Weird(object):
        def __repr__(self):
            return "<Weird>"

        def __bool__(self):
            return False
        __nonzero__ = __bool__

    odd_match_results = [
        None, 0, 1, "", "text", [], [1], Weird(), NoMatch(),
        Match(func, []), MatchWithError(func, ValueError("stored")),
        Match(None, None),
    ]
    for result in odd_match_results:
        matcher = OddMatch(func, "odd pattern", result)
        got = matcher.matches("text")
        if isinstance(result, Match):
            shown = "same-object" if got is result else repr(got)
            out("OddMatch(%s).matches ->" % result.__class__.__name__, shown)
        else:
            out("OddMatch(%r).matches ->" % (result,), repr(got),
                "| identical:", got is result)

    section("MATCH: run() dispatch of named/positional arguments")
    arg_sets = [
        [],
        [Argument(0, 1, "a", 1)],
        [Argument(0, 1, "a", 1, "x")],
        [Argument(0, 1, "a", 1), Argument(2, 3, "b", 2, "k"),
         Argument(4, 5, "c", 3), Argument(6, 7, "d", 4, "j")],
        [Argument(0, 1, "a", 1, "dup"), Argument(2, 3, "b", 2, "dup")],
        [Argument(0, 1, "a", None, ""), Argument(2, 3, "b", None)],
        [Argument(0, 1, "a", "ctx-clash", "context")],
        [Argument(0, 1, "a", 1, 5)],
    ]
    for args in arg_sets:
        m = Match(make_recorder("dispatch"), args)
        out("args:", describe_args(args))
        for line in run_match(m):
            out("   run:", line)
    m = Match(make_recorder("failing", fail=RuntimeError("step failed")),
              [Argument(0, 1, "a", 1, "x")])
    for line in run_match(m):
        out("   failing run:", line)
    m = Match(make_recorder("noargs"), None)
    for line in run_match(m):
        out("   arguments=None run:", line)
    m2 = Match(make_recorder("orig"), [Argument(0, 1, "a", 1)])
    m3 = m2.with_arguments([Argument(0, 1, "z", 26, "z")])
    out("with_arguments:", describe_match(m2), "->", describe_match(m3),
        "| equal:", m2 == m3, "| same:", m2 is m3)
    for line in run_match(NoMatch()) if False else []:
        out(line)
    err = MatchWithError(make_recorder("err"), ValueError("conversion failed"))
    for line in run_match(err):
        out("   MatchWithError run:", line)


# ---------------------------------------------------------------------------
# SECTION 2: registry
# ---------------------------------------------------------------------------
def new_registry():
    registry = StepRegistry()
    registry.error_handler.file = io.StringIO()
    return registry


def dump_registry(registry):
    for step_type in ("given", "when", "then", "step"):
        items = ["%s:%s:%r" % (m.__class__.__name__, m.func.__name__, m.pattern)
                 for m in registry.steps[step_type]]
        out("  steps[%s] = %s" % (step_type, items))
    out("  bad_step_definitions =",
        [m.pattern for m in registry.error_handler.bad_step_definitions])
    text = registry.error_handler.file.getvalue()
    if text:
        for line in text.splitlines():
            out("  stderr|", line)


def apply_history(registry, history, funcs):
    factory = get_step_matcher_factory()
    factory.use_default_step_matcher("parse")
    for entry in history:
        if entry[0] == "use":
            try:
                result = matchers.use_step_matcher(entry[1])
                out("  use_step_matcher(%r) -> %s" % (entry[1], result.__name__))
            except Exception as e:  # pylint: disable=broad-except
                out("  use_step_matcher(%r) raised" % (entry[1],),
                    describe_exception(e))
            continue
        if entry[0] == "default":
            result = matchers.use_default_step_matcher(*entry[1:])
            out("  use_default_step_matcher%r -> %s" % (entry[1:],
                                                        result.__name__))
            continue
        keyword, pattern, func_name = entry
        func = funcs.setdefault(func_name, make_recorder(func_name))
        try:
            decorator = registry.make_decorator(keyword)
            returned = decorator(pattern)(func)
            out("  @%s(%r) %s -> registered-or-ignored, returns func: %s"
                % (keyword, pattern, func_name, returned is func))
        except AmbiguousStep as e:
            out("  @%s(%r) %s -> AmbiguousStep: %s" % (keyword, pattern,
                                                      func_name, e))
        except Exception as e:  # pylint: disable=broad-except
            out("  @%s(%r) %s -> raised %s" % (keyword, pattern, func_name,
                                               describe_exception(e)))
    factory.use_default_step_matcher("parse")


def lookups(registry, texts, step_types=("given", "when", "then", "step")):
    for text in texts:
        for step_type in step_types:
            step = FakeStep(step_type, text)
            try:
                m = registry.find_match(step)
                desc = describe_match(m, text)
            except Exception as e:  # pylint: disable=broad-except
                m = None
                desc = "raised " + describe_exception(e)
            try:
                sd = registry.find_step_definition(step)
                sd_desc = ("None" if sd is None else
                           "%s:%r" % (sd.func.__name__, sd.pattern))
            except Exception as e:  # pylint: disable=broad-except
                sd_desc = "raised " + describe_exception(e)
            out("  find %-5s %r -> %s | definition: %s"
                % (step_type, text, desc, sd_desc))
            if m is not None:
                for line in run_match(m):
                    out("      run:", line)


HISTORIES = [
    ("type-specific before generic; earlier before later", [
        ("step", "a {thing} step", "generic_thing"),
        ("given", "a big step", "given_big"),
        ("given", "a {size} step", "given_size"),
        ("when", "a big step", "when_big"),
        ("then", "{anything}", "then_any"),
        ("step", "a big step", "generic_big"),
        ("step", "{everything}", "generic_every"),
    ], ["a big step", "a small step", "A big step", "a big step ",
        "x a big step", "something else", ""]),
    ("ambiguity and duplicates", [
        ("given", "I have {n:d} items", "have_items"),
        ("given", "I have {n:d} items", "have_items"),
        ("given", "I have {n:d} items", "have_items_other"),
        ("given", "I have 5 items", "have_five"),
        ("given", "I have {what}", "have_what"),
        ("given", "I have many items", "have_many"),
        ("Given", "I HAVE {n:d} items", "have_upper"),
        ("GIVEN", "i have {n:d} items", "have_lower"),
        ("when", "I have {n:d} items", "when_have_items"),
        ("step", "I have {n:d} items", "step_have_items"),
        ("step", "I have {n:d} items", "step_have_items"),
        ("step", "I have 7 items", "step_have_seven"),
        ("then", "I have {n:d} items", "have_items"),
        ("Then", "I have {n:d} items", "have_items"),
    ], ["I have 5 items", "I have 7 items", "I have many items",
        "I HAVE 5 items", "i have 5 items", "I have x items"]),
    ("matcher switching", [
        ("given", "parse {x:d}", "parse_x"),
        ("use", "re"),
        ("given", r"re (?P<x>\d+)", "re_x"),
        ("given", r"re (\d+) and (?P<y>\w+)?", "re_xy"),
        ("given", r"parse (?P<x>\d+)", "re_parse_x"),
        ("given", r"parse \d+", "re_parse_lit"),
        ("use", "re0"),
        ("when", r"^re0 (?P<x>\d+)", "re0_x"),
        ("when", r"re0 (?P<x>\d+) more", "re0_x_more"),
        ("use", "cfparse"),
        ("then", "cf {xs:Number+}", "cf_xs"),
        ("then", "cf 1, 2", "cf_lit"),
        ("use", "nosuch"),
        ("then", "cf {n:Number?} opt", "cf_opt"),
        ("default",),
        ("then", "back to {what}", "parse_back"),
        ("default", "re"),
        ("step", r"default re (?P<z>z+)", "re_default"),
        ("use", "parse"),
        ("default",),
        ("step", r"now re again (.+)", "re_again"),
        ("default", "parse"),
    ], ["parse 12", "re 12", "re 12 and bob", "re 12 and ", "re0 5",
        "re0 5 more", "re0 5 and trailing", "cf 1, 2", "cf 3", "cf 13",
        "cf 4 opt", "cf  opt", "back to start", "default re zzz",
        "now re again foo bar", "PARSE 12"]),
    ("bad step definitions and conversion errors", [
        ("use", "re"),
        ("given", r"bad (regex", "bad_regex"),
        ("given", r"good (?P<x>regex)", "good_regex"),
        ("use", "parse"),
        ("given", "bad {x:NoSuchType}", "bad_type"),
        ("given", "num {n:Number}", "num_n"),
        ("given", "num 13", "num_13"),
        ("given", "num 14", "num_14"),
        ("given", "num {n:Number} tail", "num_tail"),
        ("step", "num {anything}", "step_num_any"),
        ("when", "num {n:Number}", "when_num_n"),
    ], ["num 1", "num 13", "num 14", "num 666", "num 777", "num 1 tail",
        "num x", "good regex", "bad (regex"]),
    ("ambiguity messages with special characters", [
        ("given", u"caf\xe9 {drink} at 100% {{braced}}", "cafe_any"),
        ("given", u"caf\xe9 cr\xe8me at 100% {braced}", "cafe_creme"),
        ("given", u"caf\xe9 {0} at 100% {{braced}}", "cafe_numbered"),
        ("step", "%s and %(name)s and {name}", "percent_any"),
        ("step", "%s and %(name)s and %d", "percent_lit"),
        ("step", "{new_step} vs {existing_step}", "schema_names"),
        ("step", "{existing_step} vs {new_step}", "schema_names_swapped"),
        ("use", "re"),
        ("then", r"(?P<first>\w+)\s+{braces}\s+%s", "re_special"),
        ("then", r"word\s+{braces}\s+%s", "re_special_other"),
        ("then", r"word {braces} %s", "re_special_lit"),
    ], [u"caf\xe9 cr\xe8me at 100% {braced}", "%s and %(name)s and %d",
        "a vs b", "word {braces} %s"]),
    ("empty registry", [], ["anything", ""]),
    ("only generic steps", [
        ("step", "only {x}", "only_x"),
        ("Step", "only that", "only_that"),
        ("step", "other", "other"),
    ], ["only that", "only this", "other", "Other"]),
    ("unknown keyword", [
        ("but", "a but step", "but_step"),
        ("", "empty keyword", "empty_kw"),
    ], ["a but step"]),
]


def section_registry():
    setup_types()
    for title, history, texts in HISTORIES:
        section("REGISTRY: " + title)
        registry = new_registry()
        funcs = {}
        apply_history(registry, history, funcs)
        dump_registry(registry)
        lookups(registry, texts)

    section("REGISTRY: functions from '<string>' are never 'the same'")
    registry = new_registry()
    namespace = {}
    exec(compile("def from_string(context, **kw):\n    pass\n", "<string>",
                 "exec"), namespace)
    func = namespace["from_string"]
    for attempt in range(2):
        try:
            registry.add_step_definition("given", "from string {x}", func)
            out("attempt", attempt, "registered")
        except AmbiguousStep as e:
            out("attempt", attempt, "AmbiguousStep:", e)
    dump_registry(registry)

    section("REGISTRY: same pattern text, literal (no parameters)")
    registry = new_registry()
    f1, f2 = make_recorder("lit1"), make_recorder("lit2")
    for func in (f1, f1, f2):
        try:
            registry.add_step_definition("when", "literal text", func)
            out(func.__name__, "registered-or-ignored")
        except AmbiguousStep as e:
            out(func.__name__, "AmbiguousStep:", e)
    dump_registry(registry)

    section("REGISTRY: RAISE_ERROR_ON_BAD_STEP_DEFINITION")

    class StrictRegistry(StepRegistry):
        RAISE_ERROR_ON_BAD_STEP_DEFINITION = True

    registry = StrictRegistry()
    registry.error_handler.file = io.StringIO()
    matchers.use_step_matcher("re")
    saved_stdout = sys.stdout
    sys.stdout = captured = io.StringIO()
    try:
        try:
            registry.add_step_definition("given", "bad (", make_recorder("b"))
            result = "no error"
        except Exception as e:  # pylint: disable=broad-except
            result = "raised " + e.__class__.__name__
    finally:
        sys.stdout = saved_stdout
        matchers.use_default_step_matcher("parse")
    out(result)
    for line in captured.getvalue().splitlines():
        out("  stdout|", line)
    dump_registry(registry)

    section("REGISTRY: lookups on live lists (definitions added while matching)")

    class Registering(Matcher):
        """match() registers another definition before answering."""
        def __init__(self, func, pattern, registry, where, extra):
            Matcher.__init__(self, func, pattern, "step")
            self.registry = registry
            self.where = where
            self.extra = extra
            self.calls = 0

        def check_match(self, step_text):
            self.calls += 1
            if self.calls == 1:
                self.registry.steps[self.where].append(self.extra)
            return None

    for where, lookup_type, with_generic in [
            ("step", "step", False), ("step", "given", False),
            ("given", "given", False), ("given", "given", True),
            ("given", "when", True), ("when", "when", False),
            ("then", "then", True)]:
        registry = new_registry()
        late = ParseMatcher(make_recorder("late"), "late {x}", where)
        reg = Registering(make_recorder("registering"), "never", registry,
                          where, late)
        registry.steps[where].append(reg)
        if with_generic:
            registry.steps["step"].append(
                ParseMatcher(make_recorder("generic"), "generic {y}", "step"))
        out("where=%s lookup=%s with_generic=%s" % (where, lookup_type,
                                                    with_generic))
        lookups(registry, ["late one"], step_types=(lookup_type,))
        lookups(registry, ["late one"], step_types=(lookup_type,))
        dump_registry(registry)
        out("  lists are distinct objects:",
            len(set(id(v) for v in registry.steps.values())) == 4)

    section("REGISTRY: find_match does not modify the per-type lists")
    registry = new_registry()
    registry.add_step_definition("given", "g {x}", make_recorder("g"))
    registry.add_step_definition("step", "s {x}", make_recorder("s"))
    before = dict((k, list(v)) for k, v in registry.steps.items())
    ids = dict((k, id(v)) for k, v in registry.steps.items())
    lookups(registry, ["g 1", "s 1", "none"])
    out("unchanged:", all(registry.steps[k] == before[k] for k in before),
        "| same list objects:",
        all(id(registry.steps[k]) == ids[k] for k in ids))
    step = FakeStep("but", "x")
    for name in ("find_match", "find_step_definition"):
        try:
            getattr(registry, name)(step)
            out(name, "unknown type -> no error")
        except Exception as e:  # pylint: disable=broad-except
            out(name, "unknown type raised", describe_exception(e))
    registry.clear()
    dump_registry(registry)

    section("REGISTRY: module-level decorators")
    step_registry.registry.clear()
    saved_file = step_registry.registry.error_handler.file
    step_registry.registry.error_handler.file = io.StringIO()
    from behave import given, when, then, step, Given, When, Then, Step
    f = make_recorder("mod")
    for name, deco in [("given", given), ("When", When), ("then", then),
                       ("Step", Step), ("Given", Given), ("step", step),
                       ("when", when), ("Then", Then)]:
        try:
            deco("module level {x:d}")(f)
            out(name, "ok")
        except AmbiguousStep as e:
            out(name, "AmbiguousStep:", e)
    try:
        given("module level 5")(make_recorder("mod5"))
        out("given literal ok")
    except AmbiguousStep as e:
        out("given literal AmbiguousStep:", e)
    dump_registry(step_registry.registry)
    lookups(step_registry.registry, ["module level 5", "module level x"])
    step_registry.registry.clear()
    step_registry.registry.error_handler.file = saved_file


# ---------------------------------------------------------------------------
# SECTION 3: factory
# ---------------------------------------------------------------------------
def factory_state(factory):
    return "current=%s default=%s default_name=%s initial=%s" % (
        factory.current_matcher.__name__, factory.default_matcher.__name__,
        factory.default_matcher_name, factory.initial_matcher_name)


def section_factory():
    section("FACTORY: switching")
    factory = StepMatcherFactory()
    out("initial:", factory_state(factory))
    out("mapping:", sorted((k, v.__name__) for k, v in
                           factory.step_matcher_class_mapping.items()))
    script = [
        ("use_step_matcher", "re"), ("use_default_step_matcher",),
        ("use_step_matcher", "cfparse"),
        ("use_current_step_matcher_as_default",),
        ("use_step_matcher", "re0"), ("use_default_step_matcher",),
        ("use_default_step_matcher", "re"), ("use_step_matcher", "parse"),
        ("use_default_step_matcher", None), ("use_default_step_matcher", ""),
        ("use_step_matcher", "unknown"), ("use_default_step_matcher", "unknown"),
        ("use_step_matcher", None),
        ("reset",), ("use_step_matcher", "RE"),
    ]
    for entry in script:
        try:
            result = getattr(factory, entry[0])(*entry[1:])
            shown = getattr(result, "__name__", result)
            out("%s%r -> %s | %s" % (entry[0], entry[1:], shown,
                                     factory_state(factory)))
        except Exception as e:  # pylint: disable=broad-except
            out("%s%r raised %s | %s" % (entry[0], entry[1:],
                                         describe_exception(e),
                                         factory_state(factory)))
        m = factory.make_step_matcher(make_recorder("f"), "pattern (x)", "when")
        out("   make_step_matcher ->", repr(m), m.step_type)

    class MyMatcher(ParseMatcher):
        NAME = "mine"

    for args in [("mine", MyMatcher), ("mine", MyMatcher),
                 ("mine", ParseMatcher), ("parse", MyMatcher),
                 ("parse", MyMatcher, True)]:
        try:
            factory.register_step_matcher_class(*args)
            out("register_step_matcher_class%r ok" % (
                tuple(getattr(a, "__name__", a) for a in args),))
        except Exception as e:  # pylint: disable=broad-except
            out("register_step_matcher_class%r raised %s" % (
                tuple(getattr(a, "__name__", a) for a in args),
                describe_exception(e)))
    out("use mine:", factory.use_step_matcher("mine").__name__,
        "| parse now:", factory.use_step_matcher("parse").__name__)
    factory.register_type(Mine=int)
    out("has Mine:", factory.has_registered_type("Mine"),
        ParseMatcher.has_registered_type("Mine"))
    factory.reset()
    out("after reset has Mine:", factory.has_registered_type("Mine"),
        "has Number:", ParseMatcher.has_registered_type("Number"))
    out("module api:", matchers.use_step_matcher("re").__name__,
        matchers.use_default_step_matcher().__name__,
        matchers.has_registered_step_matcher_class("re"),
        matchers.has_registered_step_matcher_class("nope"),
        matchers.has_registered_step_matcher_class(ParseMatcher),
        matchers.has_registered_step_matcher_class(Matcher))
    get_step_matcher_factory().reset()


# ---------------------------------------------------------------------------
# SECTION 4: load_step_modules + behave run
# ---------------------------------------------------------------------------
STEP_MODULES = {
    "a_steps.py": u'''# -*- coding: UTF-8 -*-
from behave import given, when, then, step, register_type
from behave import use_step_matcher
import parse

@parse.with_pattern(r"\\d+")
def parse_count(text):
    if text == "13":
        raise ValueError("unlucky")
    return int(text)

register_type(Count=parse_count)

@given('I have {count:Count} apples')
def step_have_apples(context, count):
    print("have_apples count=%r" % (count,))

@given('I have many apples')
def step_have_many(context):
    print("have_many")

@step('I have {what}')
def step_have_generic(context, what):
    print("have_generic what=%r" % (what,))

@when('{:w} eats {n:d} of {:w}')
def step_eats(context, *args, **kwargs):
    print("eats args=%r kwargs=%r" % (args, sorted(kwargs.items())))

use_step_matcher("re")

@then(r'there are (?P<left>\\d+) apples(?: left)?')
def step_left(context, left):
    print("left=%r" % (left,))

@then(r'(\\w+) is (happy|sad)( now)?')
def step_mood(context, *args):
    print("mood args=%r" % (args,))
''',
    "b_steps.py": u'''
from behave import given, when, then, step
from behave.matchers import get_step_matcher_factory
print("b_steps current matcher:",
      get_step_matcher_factory().current_matcher.__name__)

@then('the default matcher is {name}')
def step_default(context, name):
    print("default matcher step name=%r" % (name,))

use_step_matcher("cfparse")

@when('numbers {numbers:Count+} are summed')
def step_sum(context, numbers):
    print("sum=%r from %r" % (sum(numbers), numbers))
''',
    "c_steps.py": u'''
import a_steps
from behave import then
from behave.matchers import get_step_matcher_factory
print("c_steps current matcher:",
      get_step_matcher_factory().current_matcher.__name__)

@then('nothing else')
def step_nothing(context):
    pass
''',
    "notes.txt": u"not a step module\n",
}

FEATURE = u'''
Feature: Matching

  Scenario: Typed parameters
    Given I have 3 apples
    And I have many apples
    Given I have x apples
    When I have 4 apples
    Then I have 5 apples

  Scenario: Conversion error
    Given I have 13 apples
    Then nothing else

  Scenario: Positional and named
    When Bob eats 2 of them
    Then there are 1 apples left
    And there are 2 apples
    And Bob is happy now
    And Bob is sad
    And the default matcher is parse
    When numbers 1, 2, 3 are summed

  Scenario: Wrong case
    Given i have 3 apples

  Scenario: Changed literal
    When Bob eats two of them

  Scenario: Extra suffix
    Then nothing else at all

  Scenario: Extra prefix
    Then really nothing else

  Scenario: Wrong case for regex
    Then nothing else
    Then Nothing else

  Scenario Outline: Outline <n>
    Given I have <n> apples
    When <who> eats <n> of <what>
    Then there are <n> apples left

    Examples:
      | n  | who   | what    |
      | 1  | Alice | those   |
      | 13 | Bob   | them    |
      | x  | Carl  | nothing |
'''

AMBIGUOUS_MODULE = u'''
from behave import given

@given('I have {count:d} pears')
def step_pears(context, count):
    pass

@given('I have 5 pears')
def step_five_pears(context):
    pass
'''


def write_tree(workdir, with_ambiguous=False):
    if os.path.exists(workdir):
        shutil.rmtree(workdir)
    steps_dir = os.path.join(workdir, "features", "steps")
    os.makedirs(steps_dir)
    for name, text in STEP_MODULES.items():
        with io.open(os.path.join(steps_dir, name), "w", encoding="utf-8") as f:
            f.write(text)
    if with_ambiguous:
        with io.open(os.path.join(steps_dir, "z_steps.py"), "w",
                     encoding="utf-8") as f:
            f.write(AMBIGUOUS_MODULE)
    with io.open(os.path.join(workdir, "features", "m.feature"), "w",
                 encoding="utf-8") as f:
        f.write(FEATURE)
    return steps_dir


def run_behave(workdir, *args):
    env = dict(os.environ)
    env["PYTHONPATH"] = "/tmp/wtU/C11"
    env["PYTHONDONTWRITEBYTECODE"] = "1"
    env.pop("BEHAVE_ARGS", None)
    cmd = [sys.executable, "-m", "behave", "--no-color", "--no-timings",
           "-f", "plain"] + list(args)
    proc = subprocess.Popen(cmd, cwd=workdir, env=env, stdout=subprocess.PIPE,
                            stderr=subprocess.STDOUT)
    output = proc.communicate()[0].decode("utf-8", "replace")
    out("behave %s -> exit code %s" % (" ".join(args), proc.returncode))
    in_behave_frame = False
    for line in output.splitlines():
        if line.startswith("Took "):
            line = "Took <duration>"
        if line.lstrip().startswith("File \""):
            in_behave_frame = "/tmp/wtU/C11/behave/" in line
            if in_behave_frame:
                # -- framework traceback frames: keep function name only.
                line = "  File <behave>" + line.rsplit(",", 1)[-1]
        elif in_behave_frame and line.startswith("    "):
            # -- source text / caret markers of a framework frame.
            continue
        else:
            in_behave_frame = False
        out("  |", line.rstrip())


def section_loading():
    section("LOAD_STEP_MODULES: matcher reset after each module")
    from behave.runner_util import load_step_modules
    workdir = os.path.join(HERE, "_work")
    steps_dir = write_tree(workdir)
    factory = get_step_matcher_factory()
    factory.reset()
    step_registry.registry.clear()
    step_registry.registry.error_handler.file = io.StringIO()
    saved_cwd = os.getcwd()
    os.chdir(workdir)
    sys.dont_write_bytecode = True
    try:
        out("before:", factory_state(factory))
        load_step_modules([steps_dir])
        out("after:", factory_state(factory))
        dump_registry(step_registry.registry)
        lookups(step_registry.registry, [
            "I have 3 apples", "I have many apples", "I have 13 apples",
            "I have x apples", "Bob eats 2 of them", "there are 1 apples left",
            "there are 1 apples", "Bob is happy now", "Bob is sad",
            "numbers 1, 2, 3 are summed", "the default matcher is parse",
            "nothing else", "Nothing else"])
        # -- another default: current matcher becomes default for loading.
        step_registry.registry.clear()
        for name in list(sys.modules):
            if name in ("a_steps",):
                del sys.modules[name]
        factory.use_step_matcher("cfparse")
        out("before(2):", factory_state(factory))
        try:
            load_step_modules([steps_dir])
        except Exception as e:  # pylint: disable=broad-except
            out("load raised", describe_exception(e))
        out("after(2):", factory_state(factory))
        dump_registry(step_registry.registry)
    finally:
        os.chdir(saved_cwd)
        factory.reset()
        step_registry.registry.clear()
        sys.modules.pop("a_steps", None)

    section("BEHAVE RUN (subprocess)")
    run_behave(workdir, "features/m.feature")
    run_behave(workdir, "--no-capture", "features/m.feature")
    run_behave(workdir, "--dry-run", "features/m.feature")
    run_behave(workdir, "-f", "steps.usage", "--dry-run", "features/m.feature")
    write_tree(workdir, with_ambiguous=True)
    run_behave(workdir, "features/m.feature")
    shutil.rmtree(workdir)


def main():
    section_matchers()
    section_registry()
    section_factory()
    section_loading()
    out("")
    out("DONE")


if __name__ == "__main__":
    main()
