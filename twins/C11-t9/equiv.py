# -*- coding: UTF-8 -*-
"""
Equivalence transcript for property C11 (step matching and dispatch).

Exercises the public behaviour of behave.matchers / behave.step_registry:
  * all four matcher kinds (parse, cfparse, re, re0) on patterns with typed
    fields, custom types, cardinality fields, named/unnamed/optional groups,
  * step texts derived from the patterns (exact, wrong case, prefix, suffix,
    changed literal),
  * Match.arguments (start, end, original, value, name) and the arguments
    actually received by recording step functions (Match.run),
  * converter errors (MatchWithError / StepParseError), NotImplementedError,
  * registration histories with matcher switches, lookups (type x text),
    AmbiguousStep messages, ignored re-registrations, bad step definitions,
  * a small "python -m behave" run (load_step_modules).

Prints a canonical transcript on stdout.
Run with: cd <this dir> && /venv/bin/python equiv.py
"""

from __future__ import absolute_import, print_function
import io
import os
import re
import shutil
import subprocess
import sys
import tempfile
from contextlib import contextmanager

WORKTREE = "/tmp/wtV/C11"
sys.path.insert(0, WORKTREE)
os.chdir(os.path.dirname(os.path.abspath(__file__)))

import parse    # noqa: E402
from behave import matchers    # noqa: E402
from behave.matchers import (    # noqa: E402
    Match, MatchWithError, Matcher, ParseMatcher, CFParseMatcher,
    RegexMatcher, SimplifiedRegexMatcher, CucumberRegexMatcher,
    StepParseError, get_step_matcher_factory, use_step_matcher,
    use_default_step_matcher, register_type, make_step_matcher,
)
from behave.model_core import Argument    # noqa: E402
from behave.step_registry import StepRegistry, AmbiguousStep    # noqa: E402

assert matchers.__file__.startswith(WORKTREE), matchers.__file__


def out(text=""):
    sys.stdout.write(text + "\n")


# -----------------------------------------------------------------------------
# SUPPORT
# -----------------------------------------------------------------------------
class FakeContext(object):
    def __init__(self):
        self.log = []

    @contextmanager
    def use_with_user_mode(self):
        self.log.append("enter-user-mode")
        try:
            yield self
        finally:
            self.log.append("leave-user-mode")


class FakeStep(object):
    def __init__(self, step_type, name):
        self.step_type = step_type
        self.name = name


def make_recorder(label):
    def step_impl(context, *args, **kwargs):
        context.log.append("%s args=%r kwargs=%r" %
                           (label, args, sorted(kwargs.items())))
    step_impl.__name__ = "step_" + label
    return step_impl


def describe_exception(e):
    return "%s: %s" % (e.__class__.__name__, e)


def describe_arguments(step_text, arguments):
    lines = []
    for arg in arguments:
        assert isinstance(arg, Argument)
        inside = None
        if arg.start is not None and arg.start >= 0:
            inside = (step_text[arg.start:arg.end] == arg.original)
        lines.append("    arg start=%r end=%r original=%r value=%r:%s name=%r span_ok=%r" % (
            arg.start, arg.end, arg.original, arg.value,
            type(arg.value).__name__, arg.name, inside))
    return lines


def describe_match(step_text, result, run=True):
    if result is None:
        out("    match -> None")
        return
    out("    match -> %s func=%s location=%s" % (
        type(result).__name__, getattr(result.func, "__name__", None),
        result.location))
    if isinstance(result, MatchWithError):
        out("    stored_error=%s" % describe_exception(result.stored_error))
    arguments = result.arguments
    if arguments is None:
        out("    arguments=None")
    else:
        out("    arguments[%d] type=%s" % (len(arguments), type(arguments).__name__))
        for line in describe_arguments(step_text, arguments):
            out(line)
    if run:
        context = FakeContext()
        try:
            returned = result.run(context)
            out("    run -> %r" % (returned,))
        except Exception as e:     # pylint: disable=broad-except
            out("    run raised %s" % describe_exception(e).splitlines()[0])
            cause = getattr(e, "__cause__", None)
            out("    run cause=%s" % (describe_exception(cause) if cause else None))
        for entry in context.log:
            out("      log: %s" % entry)


def variants(text):
    """Step texts derived from an exact instance."""
    yield "exact", text
    yield "upper", text.upper()
    yield "swapcase", text.swapcase()
    yield "prefix", "x " + text
    yield "suffix", text + " y"
    yield "space-suffix", text + " "
    yield "changed", text.replace("a", "o", 1) if "a" in text else text[1:]
    yield "empty", ""


# -----------------------------------------------------------------------------
# CUSTOM TYPES
# -----------------------------------------------------------------------------
@parse.with_pattern(r"\d+")
def parse_number(text):
    return int(text)


@parse.with_pattern(r"[A-Za-z]+")
def parse_word_upper(text):
    return text.upper()


@parse.with_pattern(r"red|green|blue")
def parse_color(text):
    return ("color", text)


@parse.with_pattern(r"\w+")
def parse_even(text):
    value = int(text)       # -- MAY RAISE: ValueError
    if value % 2:
        raise ValueError("odd number: %s" % text)
    return value


@parse.with_pattern(r"\w+")
def parse_type_error(text):
    raise TypeError("no conversion for %r" % text)


@parse.with_pattern(r"\w+")
def parse_not_implemented(text):
    raise NotImplementedError("converter: %r" % text)


CUSTOM_TYPES = dict(Number=parse_number, Upper=parse_word_upper,
                    Color=parse_color, Even=parse_even,
                    Broken=parse_type_error, NotImpl=parse_not_implemented)


# -----------------------------------------------------------------------------
# PART 1: MATCHERS (direct)
# -----------------------------------------------------------------------------
PARSE_CASES = [
    ("a simple step", ["a simple step"]),
    ("I have {count:d} apples", ["I have 12 apples", "I have -3 apples",
                                 "I have twelve apples", "I have 0x1F apples"]),
    ("{name} buys {count:d} items for {price:f} EUR",
     ["Alice buys 3 items for 9.50 EUR", "Bob Smith buys 10 items for 0.5 EUR"]),
    ("{:w} meets {:w}", ["Alice meets Bob", "Alice meets Bob Smith"]),
    ("{:d} plus {y:d} is {:d}", ["1 plus 2 is 3", "10 plus 200 is 210"]),
    ("{b} then {a} then {}", ["one then two then three"]),
    ("{x:f} is a float", ["3.25 is a float", "-0.5 is a float", "3 is a float"]),
    ("{amount:Number} vehicles of {color:Color}",
     ["42 vehicles of red", "7 vehicles of purple"]),
    ("{:Upper} and {other:Upper}", ["foo and bar"]),
    ("an even {n:Even}", ["an even 4", "an even 5", "an even abc"]),
    ("a broken {n:Broken}", ["a broken thing"]),
    ("{word:w}", ["hello", "hello world"]),
    ("the {thing} is {state:w}!", ["the big door is open!"]),
    ("{first:2d}{second:2d}", ["1234", "123"]),
    ("{same} and {same}", ["a and a", "a and b"]),
    ("{obj.attr} dotted", ["value dotted"]),
    ("{item[key]} indexed", ["value indexed"]),
    ("{value:^} centered", ["  mid   centered"]),
    ("{n:d}", ["5"]),
    ("{}", ["anything at all"]),
]

CFPARSE_CASES = [
    ("{numbers:Number+} as numbers", ["1, 2, 3 as numbers", "7 as numbers",
                                      " as numbers"]),
    ("{numbers:Number*} as many0", ["1, 2 as many0", " as many0"]),
    ("maybe {n:Number?} optional", ["maybe 12 optional", "maybe  optional"]),
    ("{:Color+} are colors and {last:Color}", ["red, blue are colors and green"]),
    ("plain {count:d} cf step", ["plain 3 cf step"]),
    ("{words:Upper+} and {n:Even}", ["ab, cd and 2", "ab, cd and 3"]),
]

RE_CASES = [
    (r"a regex step", ["a regex step"]),
    (r"I have (?P<count>\d+) (?P<what>\w+)", ["I have 3 apples", "I have 3 red apples"]),
    (r"(\d+) plus (\d+)", ["1 plus 22"]),
    (r"(?P<a>\w+) and (\w+) and (?P<c>\w+)", ["x and y and z"]),
    (r"optional(?: (?P<what>\w+))? group", ["optional big group", "optional group"]),
    (r"opt (\d+)?(x)? end", ["opt 12x end", "opt  end", "opt x end"]),
    (r"nested ((?P<in>\d+)-(\d+)) groups", ["nested 1-2 groups"]),
    (r"alt (?:(?P<n>\d+)|(?P<w>[a-z]+))", ["alt 12", "alt ab"]),
    (r"unicode (?P<w>\w+)", [u"unicode äöü", u"unicode abc"]),
    (r"(?i)nocase (?P<x>\w+)", ["nocase abc", "NOCASE abc"]),
    (r"no groups .*", ["no groups at all"]),
]

RE0_CASES = [
    (r"^a cuke step$", ["a cuke step"]),
    (r"^I have (?P<count>\d+) cukes$", ["I have 3 cukes"]),
    (r"open ended (\w+)", ["open ended start and more"]),
    (r"(\w+) unanchored$", ["word unanchored"]),
]


def exercise_matcher_class(matcher_class, cases, **kwargs):
    out("=" * 70)
    out("MATCHER CLASS: %s NAME=%s" % (matcher_class.__name__, matcher_class.NAME))
    for number, (pattern, texts) in enumerate(cases):
        func = make_recorder("%s_%d" % (matcher_class.NAME, number))
        out("- pattern: %r" % pattern)
        try:
            matcher = matcher_class(func, pattern, "given", **kwargs)
        except Exception as e:     # pylint: disable=broad-except
            out("  ctor raised %s" % describe_exception(e))
            continue
        out("  repr=%r describe=%s step_type=%s" % (
            matcher, matcher.describe(), matcher.step_type))
        try:
            out("  compile -> %s" % (matcher.compile() is matcher))
            out("  regex_pattern=%r" % matcher.regex_pattern)
        except Exception as e:     # pylint: disable=broad-except
            out("  compile raised %s" % describe_exception(e))
            continue
        seen = set()
        for text in texts:
            for kind, step_text in variants(text):
                if step_text in seen:
                    continue
                seen.add(step_text)
                out("  text[%s]: %r" % (kind, step_text))
                try:
                    args = matcher.check_match(step_text)
                    if args is None:
                        out("    check_match -> None")
                    else:
                        out("    check_match -> %s[%d]" % (type(args).__name__, len(args)))
                except Exception as e:     # pylint: disable=broad-except
                    out("    check_match raised %s" % describe_exception(e))
                try:
                    describe_match(step_text, matcher.match(step_text))
                except Exception as e:     # pylint: disable=broad-except
                    out("    match raised %s" % describe_exception(e))
                try:
                    out("    matches -> %r" % (matcher.matches(step_text),))
                except Exception as e:     # pylint: disable=broad-except
                    out("    matches raised %s" % describe_exception(e))
        # -- PATTERN ITSELF AS STEP TEXT (used by ambiguity check):
        try:
            out("  matches(pattern) -> %r" % (matcher.matches(matcher.pattern),))
        except Exception as e:     # pylint: disable=broad-except
            out("  matches(pattern) raised %s" % describe_exception(e))


def part1_matchers():
    factory = get_step_matcher_factory()
    factory.reset()
    register_type(**CUSTOM_TYPES)
    exercise_matcher_class(ParseMatcher, PARSE_CASES)
    exercise_matcher_class(ParseMatcher, [
        ("local {n:Local} type", ["local 5 type"]),
        ("global {n:Number} type", ["global 5 type"]),
    ], custom_types=dict(Local=parse_number))
    exercise_matcher_class(CFParseMatcher, CFPARSE_CASES + PARSE_CASES[:6])
    exercise_matcher_class(SimplifiedRegexMatcher, RE_CASES)
    exercise_matcher_class(CucumberRegexMatcher, RE0_CASES + RE_CASES[:4])
    exercise_matcher_class(RegexMatcher, RE0_CASES[:2])

    out("=" * 70)
    out("SPECIAL CASES")
    # -- NotImplementedError is passed through.
    base = Matcher(make_recorder("base"), "abstract {x}")
    for call in (base.check_match, base.match, base.matches, lambda t: base.compile()):
        try:
            out("  base -> %r" % (call("abstract 1"),))
        except NotImplementedError as e:
            out("  base raised %s" % describe_exception(e))
    out("  base.matches(pattern) -> %r" % (base.matches("abstract {x}"),))
    matcher = ParseMatcher(make_recorder("notimpl"), "not impl {x:NotImpl}")
    for call in (matcher.match, matcher.matches):
        try:
            out("  notimpl -> %r" % (call("not impl foo"),))
        except NotImplementedError as e:
            out("  notimpl raised %s" % describe_exception(e))
    out("  notimpl mismatch -> %r %r" % (matcher.match("other"), matcher.matches("other")))

    # -- User-defined matcher classes: results of check_match are passed on.
    class CannedMatcher(Matcher):
        def __init__(self, func, pattern, canned):
            Matcher.__init__(self, func, pattern)
            self.canned = canned

        def check_match(self, step_text):
            if isinstance(self.canned, Exception):
                raise self.canned
            return self.canned

    canned_values = [
        None, [], (), [Argument(0, 1, "a", "A")],
        (Argument(0, 1, "a", "A", "x"), Argument(2, 3, "b", "B")),
        ValueError("canned value error"), KeyError("canned"), RuntimeError("boom"),
        AssertionError("canned assert"), NotImplementedError("canned not-impl"),
    ]
    for canned in canned_values:
        matcher = CannedMatcher(make_recorder("canned"), "canned pattern", canned)
        out("  canned=%r" % (canned if not isinstance(canned, (list, tuple))
                             else [type(x).__name__ for x in canned],))
        try:
            describe_match("a b", matcher.match("a b"))
        except Exception as e:     # pylint: disable=broad-except
            out("    match raised %s" % describe_exception(e))
        try:
            out("    matches -> %r" % (matcher.matches("a b"),))
        except Exception as e:     # pylint: disable=broad-except
            out("    matches raised %s" % describe_exception(e))
        out("    matches(pattern) -> %r" % (matcher.matches("canned pattern"),))

    class OddMatch(Matcher):
        """match() is overridden and returns unusual objects."""
        def __init__(self, value):
            Matcher.__init__(self, make_recorder("odd"), "odd pattern")
            self.value = value

        def match(self, step_text):
            return self.value

    func = make_recorder("oddfunc")
    for value in (None, 0, "", "text", 1, [], [1], Match(func, []),
                  MatchWithError(func, ValueError("x")), matchers.NoMatch()):
        out("  odd %s -> matches=%r" % (type(value).__name__,
                                        OddMatch(value).matches("something"),))

    # -- Match.run(): named by keyword, anonymous by position in list order.
    out("  Match.run variations:")
    func = make_recorder("run")
    argument_lists = [
        [],
        [Argument(0, 1, "1", 1)],
        [Argument(0, 1, "1", 1, "a")],
        [Argument(0, 1, "1", 1, "a"), Argument(2, 3, "2", 2), Argument(4, 5, "3", 3, "b"),
         Argument(6, 7, "4", 4)],
        [Argument(0, 1, "1", 1, "a"), Argument(2, 3, "2", 2, "a")],
        [Argument(0, 1, "x", None), Argument(2, 3, "y", None, "n")],
        [Argument(0, 1, "x", "X", "")],
        (Argument(5, 6, "late", "L"), Argument(0, 1, "early", "E")),
    ]
    for arguments in argument_lists:
        context = FakeContext()
        match = Match(func).with_arguments(arguments)
        out("    run -> %r; %s" % (match.run(context), context.log))
    for arguments in (None, [Argument(0, 1, "1", 1, "context")],
                      [Argument(0, 1, "1", 1, 5)], [object()]):
        context = FakeContext()
        try:
            Match(func, arguments).run(context)
            out("    run ok; %s" % context.log)
        except Exception as e:     # pylint: disable=broad-except
            out("    run raised %s; %s" % (describe_exception(e), context.log))

    def failing_step(context, *args, **kwargs):
        raise RuntimeError("step failed %r %r" % (args, kwargs))
    context = FakeContext()
    try:
        Match(failing_step, [Argument(0, 1, "1", 1), Argument(0, 1, "2", 2, "k")]).run(context)
    except RuntimeError as e:
        out("    run raised %s; %s" % (describe_exception(e), context.log))


# -----------------------------------------------------------------------------
# PART 2: STEP REGISTRY (registration histories and lookups)
# -----------------------------------------------------------------------------
def f_alpha(context, *args, **kwargs):
    context.log.append("alpha %r %r" % (args, sorted(kwargs.items())))


def f_beta(context, *args, **kwargs):
    context.log.append("beta %r %r" % (args, sorted(kwargs.items())))


def f_gamma(context, *args, **kwargs):
    context.log.append("gamma %r %r" % (args, sorted(kwargs.items())))


def f_delta(context, *args, **kwargs):
    context.log.append("delta %r %r" % (args, sorted(kwargs.items())))


def f_epsilon(context, *args, **kwargs):
    context.log.append("epsilon %r %r" % (args, sorted(kwargs.items())))


FUNCS = dict(alpha=f_alpha, beta=f_beta, gamma=f_gamma, delta=f_delta,
             epsilon=f_epsilon)
string_globals = {}
exec(compile("def f_string(context, *args, **kwargs):\n"
             "    context.log.append('string %r %r' % (args, sorted(kwargs.items())))\n",
             "<string>", "exec"), string_globals)
FUNCS["string"] = string_globals["f_string"]

HISTORIES = [
    ("type-specific before generic, earlier before later", [
        ("step", "a {thing} appears", "alpha"),
        ("given", "a {thing:w} appears", "beta"),
        ("Given", "a big {thing} appears", "gamma"),
        ("when", "a {thing} appears", "delta"),
        ("THEN", "nothing", "epsilon"),
    ]),
    ("exact duplicates and re-registrations", [
        ("given", "I do it", "alpha"),
        ("given", "I do it", "alpha"),      # -- IGNORED: same function, pattern
        ("given", "I do it", "beta"),       # -- AMBIGUOUS
        ("when", "I do it", "beta"),        # -- OK: other step type
        ("step", "I do it", "gamma"),       # -- OK: generic list
        ("step", "I do it", "gamma"),       # -- IGNORED
        ("step", "I do it", "alpha"),       # -- AMBIGUOUS (in generic list)
        ("given", "I do it", "string"),     # -- AMBIGUOUS (<string> location)
        ("then", "I do it", "string"),
        ("then", "I do it", "string"),      # -- AMBIGUOUS: <string> never same
    ]),
    ("ambiguous parametrized patterns", [
        ("given", "a {color} car", "alpha"),
        ("given", "a red car", "beta"),             # -- AMBIGUOUS
        ("given", "a {color:w} car", "gamma"),      # -- AMBIGUOUS ({color:w} text matched)
        ("given", "a {color} truck", "delta"),
        ("given", "A {color} car", "epsilon"),      # -- OK: case-sensitive
        ("given", "a {color} car", "alpha"),        # -- IGNORED (same)
        ("given", "a red car", "alpha"),            # -- AMBIGUOUS
    ]),
    ("ambiguity check order: ambiguous entry precedes same entry", [
        ("given", "order {x} test", "alpha"),
        ("given", "second {y:d} thing", "beta"),
        ("given", "second {y:d} thing", "beta"),    # -- IGNORED
        ("given", "order {x} test", "alpha"),       # -- IGNORED (first entry is same)
    ]),
    ("later general pattern shadows nothing", [
        ("given", "the number {n:d}", "alpha"),
        ("given", "the number {n}", "beta"),        # -- OK: existing does not match pattern text
        ("given", "the number 7", "gamma"),         # -- AMBIGUOUS: {n:d} matches "7"
        ("given", "the word seven", "delta"),
    ]),
    ("matcher switches", [
        ("use", "re"),
        ("given", r"re (?P<n>\d+) items", "alpha"),
        ("step", r"re (\w+) items", "beta"),
        ("given", r"re 5 items", "gamma"),          # -- AMBIGUOUS
        ("use", "cfparse"),
        ("given", "cf {n:Number+} items", "gamma"),
        ("given", "cf 1, 2 items", "delta"),        # -- AMBIGUOUS
        ("use", "re0"),
        ("when", r"^cuke (\d+)$", "delta"),
        ("when", r"cuke", "epsilon"),
        ("use", "parse"),
        ("when", "cuke {n:d}", "alpha"),            # -- AMBIGUOUS? "cuke {n:d}" vs regexes
        ("then", "re {n:d} items", "epsilon"),
        ("default",),
        ("then", "default {n:d} items", "alpha"),
    ]),
    ("bad step definitions are ignored", [
        ("use", "re"),
        ("given", r"bad (unclosed group", "alpha"),
        ("given", r"good (\w+) group", "beta"),
        ("use", "parse"),
        ("given", "unknown {x:Unknown} type", "gamma"),
        ("given", "known {x:Number} type", "delta"),
        ("step", "", "epsilon"),
        ("given", u"unicode ä {x}", "alpha"),
    ]),
    ("converter errors while registering and matching", [
        ("given", "an even {n:Even} number", "alpha"),
        ("given", "an even 3 number", "beta"),      # -- existing raises in converter: not ambiguous
        ("given", "an even 4 number", "gamma"),     # -- AMBIGUOUS
        ("step", "an even {n} number", "delta"),
    ]),
]

LOOKUP_TEXTS = [
    "a cat appears", "a big cat appears", "a big black cat appears", "A cat appears",
    "nothing", "I do it", "I DO IT", "I do it ", "a red car", "a dark red car",
    "A red car", "a red truck", "order 1 test", "second 2 thing", "second x thing",
    "the number 7", "the number seven", "the word seven",
    "re 5 items", "re five items", "x re 5 items", "cf 1, 2 items", "cf 3 items",
    "cuke 12", "cuke 12 more", "my cuke", "default 3 items",
    "good old group", "bad (unclosed group", "known 5 type", "unknown 5 type", "",
    u"unicode ä value",
    "an even 4 number", "an even 3 number", "an even x number",
]


def run_history(title, history):
    out("=" * 70)
    out("HISTORY: %s" % title)
    factory = get_step_matcher_factory()
    factory.reset()
    register_type(**CUSTOM_TYPES)
    registry = StepRegistry()
    errors = io.StringIO()
    registry.error_handler.file = errors
    decorators = {}
    for entry in history:
        if entry[0] == "use":
            out("  use_step_matcher(%r) -> %s" % (entry[1], use_step_matcher(entry[1]).__name__))
            continue
        if entry[0] == "default":
            out("  use_default_step_matcher() -> %s" % use_default_step_matcher().__name__)
            continue
        keyword, pattern, func_name = entry
        func = FUNCS[func_name]
        try:
            if keyword.islower():
                # -- VIA DECORATOR:
                decorator = decorators.get(keyword)
                if decorator is None:
                    decorator = decorators[keyword] = registry.make_decorator(keyword)
                returned = decorator(pattern)(func)
                assert returned is func
            else:
                registry.add_step_definition(keyword, pattern, func)
            out("  register %s %r %s: ok" % (keyword, pattern, func_name))
        except AmbiguousStep as e:
            out("  register %s %r %s: AmbiguousStep: %s" % (keyword, pattern, func_name, e))
        except Exception as e:     # pylint: disable=broad-except
            out("  register %s %r %s: %s" % (keyword, pattern, func_name,
                                            describe_exception(e)))
    for step_type in ("given", "when", "then", "step"):
        out("  steps[%s]: %s" % (step_type, [
            "%s:%s:%r" % (type(m).__name__, m.func.__name__, m.pattern)
            for m in registry.steps[step_type]]))
    out("  bad_step_definitions: %s" % [
        m.describe() for m in registry.error_handler.bad_step_definitions])
    for line in errors.getvalue().splitlines():
        out("  stderr: %s" % line)
    snapshot = dict((k, list(v)) for k, v in registry.steps.items())

    for text in LOOKUP_TEXTS:
        for step_type in ("given", "when", "then", "step"):
            step = FakeStep(step_type, text)
            try:
                result = registry.find_match(step)
            except Exception as e:     # pylint: disable=broad-except
                out("  find_match(%s, %r) raised %s" % (step_type, text, describe_exception(e)))
                result = None
            try:
                definition = registry.find_step_definition(step)
            except Exception as e:     # pylint: disable=broad-except
                out("  find_step_definition(%s, %r) raised %s" % (
                    step_type, text, describe_exception(e)))
                definition = None
            if result is None and definition is None:
                continue
            out("  lookup(%s, %r): definition=%s" % (
                step_type, text, definition and definition.describe(definition.SCHEMA_AS_STEP)))
            describe_match(text, result)
    out("  no-match lookups: done")
    same = all(registry.steps[k] == snapshot[k] and
               all(a is b for a, b in zip(registry.steps[k], snapshot[k]))
               for k in snapshot)
    out("  registry.steps unchanged by lookups: %s" % same)
    try:
        registry.find_match(FakeStep("unknown", "x"))
    except Exception as e:     # pylint: disable=broad-except
        out("  find_match(unknown type) raised %s" % describe_exception(e))
    try:
        registry.find_step_definition(FakeStep("Given", "x"))
    except Exception as e:     # pylint: disable=broad-except
        out("  find_step_definition(Given) raised %s" % describe_exception(e))
    try:
        registry.add_step_definition("but", "x", f_alpha)
    except Exception as e:     # pylint: disable=broad-except
        out("  add_step_definition(but) raised %s" % describe_exception(e))
    registry.clear()
    out("  after clear: %s" % sorted(registry.steps.items()))


def part2_registry():
    for title, history in HISTORIES:
        run_history(title, history)

    out("=" * 70)
    out("RAISE_ERROR_ON_BAD_STEP_DEFINITION")

    class StrictRegistry(StepRegistry):
        RAISE_ERROR_ON_BAD_STEP_DEFINITION = True

    get_step_matcher_factory().reset()
    registry = StrictRegistry()
    stdout = sys.stdout
    sys.stdout = captured = io.StringIO()
    try:
        try:
            registry.add_step_definition("given", "strict {x:Unknown}", f_alpha)
            outcome = "ok"
        except Exception as e:     # pylint: disable=broad-except
            outcome = "raised %s" % describe_exception(e)
    finally:
        sys.stdout = stdout
    out("  %s" % outcome)
    for line in captured.getvalue().splitlines():
        out("  stdout: %s" % line)
    out("  steps: %s" % sorted((k, len(v)) for k, v in registry.steps.items()))

    # -- REAL MODEL STEPS:
    from behave.model import Step
    get_step_matcher_factory().reset()
    registry = StepRegistry()
    registry.add_step_definition("given", "a {thing} with {count:d} parts", f_alpha)
    registry.add_step_definition("step", "a {thing} with {count} parts", f_beta)
    for keyword, step_type, name in [
            (u"Given", "given", u"a robot with 4 parts"),
            (u"When", "when", u"a robot with 4 parts"),
            (u"Then", "then", u"a robot with four parts"),
            (u"And", "given", u"a robot with four parts"),
            (u"But", "then", u"A robot with 4 parts")]:
        step = Step("some.feature", 5, keyword, step_type, name)
        out("  model step %s %r" % (step_type, name))
        describe_match(name, registry.find_match(step))


# -----------------------------------------------------------------------------
# PART 3: python -m behave (load_step_modules, dispatch, reported arguments)
# -----------------------------------------------------------------------------
FEATURE = u"""
Feature: Dispatch
  Scenario: One
    Given a thing named Alice
    When I add 3 and 4
    Then a thing named Bob Smith
    And the regex sees 12 apples
    And the default is parse with 5
  Scenario: Two
    Given an undefined step
    When I ADD 3 and 4
  Scenario: Three
    Given a thing named Carol
    Then an even 3 fails
    And an even 4 fails
  Scenario: Four
    Then an even 4 fails
"""

STEPS_A = u"""
from behave import given, when, then, step, register_type, use_step_matcher
import parse

@parse.with_pattern(r"\\w+")
def parse_even(text):
    value = int(text)
    if value % 2:
        raise ValueError("odd number: %s" % text)
    return value

register_type(Even=parse_even)

@step(u'a thing named {name}')
def step_generic(ctx, name):
    print("generic name=%r" % name)

@given(u'a thing named {name:w}')
def step_given(ctx, name):
    print("given name=%r" % name)

@when(u'I add {:d} and {y:d}')
def step_add(ctx, x, y):
    print("add x=%r y=%r" % (x, y))

@then(u'an even {n:Even} fails')
def step_even(ctx, n):
    print("even n=%r" % n)

use_step_matcher("re")

@then(u'the regex sees (?P<count>\\\\d+) (\\\\w+)')
def step_regex(ctx, what, count):
    print("regex what=%r count=%r" % (what, count))
"""

STEPS_B = u"""
from behave import then

@then(u'the default is parse with {n:d}')
def step_default(ctx, n):
    print("default n=%r" % n)
"""


def normalize(text):
    text = re.sub(r'"duration": [-+.e\d]+', '"duration": 0.0', text)
    text = re.sub(r"\d+m\d+\.\d+s", "0m0.000s", text)
    text = re.sub(r"\d+\.\d+s", "0.000s", text)
    # -- TRACEBACK FRAMES: Drop file/line-number/source-code details
    #    (line numbers inside behave differ between equivalent code variants).
    lines = []
    inside_traceback = False
    for line in text.splitlines():
        if inside_traceback and line.startswith("  "):
            continue
        inside_traceback = line.startswith("Traceback (most recent call last):")
        lines.append(line)
    return "\n".join(lines)


def part3_behave_run():
    out("=" * 70)
    out("BEHAVE RUN")
    workdir = tempfile.mkdtemp(prefix="c11_equiv_")
    try:
        os.makedirs(os.path.join(workdir, "features", "steps"))
        with io.open(os.path.join(workdir, "features", "dispatch.feature"), "w",
                     encoding="utf-8") as f:
            f.write(FEATURE)
        with io.open(os.path.join(workdir, "features", "steps", "a_steps.py"), "w",
                     encoding="utf-8") as f:
            f.write(STEPS_A)
        with io.open(os.path.join(workdir, "features", "steps", "b_steps.py"), "w",
                     encoding="utf-8") as f:
            f.write(STEPS_B)
        env = dict(os.environ)
        env["PYTHONPATH"] = WORKTREE
        env["PYTHONDONTWRITEBYTECODE"] = "1"
        env.pop("BEHAVE_FLAGS", None)
        runs = [("plain", []), ("json.pretty", ["--dry-run"]),
                ("json.pretty", ["--name", "One", "--name", "Four"]),
                ("steps.usage", ["--dry-run"])]
        for formatter, options in runs:
            command = [sys.executable, "-m", "behave", "-f", formatter, "--no-color",
                       "--no-capture"] + options + ["features"]
            process = subprocess.Popen(command, cwd=workdir, env=env,
                                       stdout=subprocess.PIPE, stderr=subprocess.STDOUT)
            output, _ = process.communicate()
            out("-- formatter=%s options=%s returncode=%s" % (formatter, options, process.returncode))
            text = normalize(output.decode("utf-8")).replace(workdir, "<WORKDIR>")
            for line in text.splitlines():
                out("  | " + line.rstrip())
    finally:
        shutil.rmtree(workdir, ignore_errors=True)


if __name__ == "__main__":
    part1_matchers()
    part2_registry()
    part3_behave_run()
    get_step_matcher_factory().reset()
    out("DONE")
