# -*- coding: utf-8 -*-
"""
Equivalence transcript for property C03 (status roll-up).

PART 1: in-process, exhaustive over the Status enumeration and over all
        child-status tuples up to length 3 for Scenario, Feature, Rule and
        ScenarioOutline (with / without hook_failed), plus parsed model trees.
PART 2: scenario_autoretry wrapper driven with scripted run() outcomes.
PART 3: real runs (python -m behave as subprocess) of a small project with
        passing / failing / erroring / undefined / pending steps, outlines in
        rules, tags, --stop, --dry-run, --wip, name selection, hook errors,
        abort by KeyboardInterrupt and auto-retry with different outcomes per
        attempt.  An after_all hook dumps the status of every model element.

Prints a canonical transcript to stdout.
"""

from __future__ import absolute_import, print_function
import sys
WORKTREE = "/tmp/wtX/C03"
sys.path.insert(0, WORKTREE)

import io
import itertools
import os
import re
import shutil
import subprocess
import tempfile
import contextlib

from behave.model_core import Status, ScenarioStatus, OuterStatus, \
    TagAndStatusStatement
from behave.model import Feature, Rule, Scenario, ScenarioOutline, Step, \
    Background, Examples, Table
from behave.parser import parse_feature
from behave.contrib.scenario_autoretry import patch_scenario_with_autoretry

ALL_STATUSES = list(Status)


def out(*args):
    print(*args)


def show(value):
    if isinstance(value, Status):
        return value.name
    return repr(value)


def observe(func, *args, **kwargs):
    try:
        return show(func(*args, **kwargs))
    except BaseException as e:  # pylint: disable=broad-except
        return "RAISED %s: %s" % (e.__class__.__name__, e)


class Child(object):
    """Stand-in for a contained model element; counts status reads."""
    def __init__(self, status, log, name):
        self._status = status
        self._log = log
        self.name = name

    @property
    def status(self):
        self._log.append(self.name)
        return self._status


# ---------------------------------------------------------------------------
# PART 1
# ---------------------------------------------------------------------------
def part1_status_predicates():
    out("== STATUS PREDICATES")
    predicates = ["is_error", "is_failure", "is_passed", "is_untested",
                  "has_failed", "is_final", "is_pending", "is_undefined"]
    for status in ALL_STATUSES:
        flags = ["%s=%s" % (name, getattr(status, name)())
                 for name in predicates]
        out(status.name, status.value, status.normalized_name,
            " ".join(flags),
            "outer=" + observe(OuterStatus.from_inner_status, status),
            "from_step=" + observe(ScenarioStatus.from_step_status, status),
            "v0=" + observe(status.to_status_v0))
    for bad in ("passed", None, 11):
        out("outer(%r)" % (bad,), observe(OuterStatus.from_inner_status, bad))
        out("from_step(%r)" % (bad,),
            observe(ScenarioStatus.from_step_status, bad))


def make_steps(statuses):
    steps = []
    for index, status in enumerate(statuses):
        step = Step("x.feature", 10 + index, u"Given", "given",
                    u"step %d" % index)
        step.status = status
        steps.append(step)
    return steps


def status_tuples(max_len):
    for length in range(0, max_len + 1):
        for combo in itertools.product(ALL_STATUSES, repeat=length):
            yield combo


def names(statuses):
    return ",".join(s.name for s in statuses) or "-"


def part1_scenario():
    out("== SCENARIO.compute_status OVER STEPS")
    for combo in status_tuples(3):
        scenario = Scenario("x.feature", 3, u"Scenario", u"S",
                            steps=make_steps(combo))
        first = observe(lambda: scenario.status)
        second = observe(lambda: scenario.status)
        direct = observe(scenario.compute_status)
        out("steps", names(combo), "=>", first, second, direct,
            "cached=" + scenario._cached_status.name)
    out("== SCENARIO WITH hook_failed")
    for combo in status_tuples(2):
        scenario = Scenario("x.feature", 3, u"Scenario", u"S",
                            steps=make_steps(combo))
        scenario.hook_failed = True
        out("hook_failed steps", names(combo), "=>",
            observe(lambda: scenario.status))
    out("== SCENARIO WITH BACKGROUND STEPS")
    for bg_combo in status_tuples(1):
        for combo in status_tuples(2):
            background = Background("x.feature", 2, steps=make_steps(bg_combo))
            scenario = Scenario("x.feature", 3, u"Scenario", u"S",
                                steps=make_steps(combo),
                                background=background)
            # -- background steps are copied and reset => set them afterwards.
            for step, status in zip(scenario.background_steps, bg_combo):
                step.status = status
            out("background", names(bg_combo), "steps", names(combo), "=>",
                observe(lambda: scenario.status))
    out("== SCENARIO WITH NON-STATUS STEP STATUS")
    for bad in ("passed", "failed", None, 11):
        steps = make_steps([Status.passed, Status.passed])
        steps[1].status = bad
        scenario = Scenario("x.feature", 3, u"Scenario", u"S", steps=steps)
        out("bad step status %r" % (bad,), "=>",
            observe(lambda: scenario.status))


def make_container(cls, statuses, log):
    if cls is Feature:
        container = Feature("x.feature", 1, u"Feature", u"F")
    else:
        container = Rule("x.feature", 2, u"Rule", u"R")
    for index, status in enumerate(statuses):
        container.run_items.append(Child(status, log, "c%d" % index))
    return container


def part1_containers():
    for cls in (Feature, Rule):
        out("== %s.compute_status OVER RUN-ITEMS" % cls.__name__)
        for combo in status_tuples(3):
            log = []
            container = make_container(cls, combo, log)
            first = observe(lambda: container.status)
            reads1 = "".join(log)
            second = observe(lambda: container.status)
            out("items", names(combo), "=>", first, second,
                "reads=" + reads1 + "|" + "".join(log)[len(reads1):],
                "cached=" + container._cached_status.name)
        out("== %s WITH hook_failed" % cls.__name__)
        for combo in status_tuples(2):
            log = []
            container = make_container(cls, combo, log)
            container.hook_failed = True
            out("hook_failed items", names(combo), "=>",
                observe(lambda: container.status), "reads=" + "".join(log))


def make_outline(statuses, log, example_rows):
    examples = []
    for index, rows in enumerate(example_rows):
        table = None
        if rows is not None:
            table = Table([u"name"], rows=[[u"v%d" % i] for i in range(rows)])
        examples.append(Examples("x.feature", 20 + index, u"Examples",
                                 u"E%d" % index, table=table))
    outline = ScenarioOutline("x.feature", 5, u"Scenario Outline", u"SO",
                              steps=make_steps([Status.untested]),
                              examples=examples)
    outline._scenarios = [Child(status, log, "c%d" % index)
                          for index, status in enumerate(statuses)]
    return outline


def part1_outline():
    out("== SCENARIO-OUTLINE.compute_status OVER SCENARIOS")
    for example_rows in ([], [2], [None], [0], [None, 1]):
        for combo in status_tuples(3 if example_rows == [2] else 1):
            log = []
            outline = make_outline(combo, log, example_rows)
            first = observe(lambda: outline.status)
            reads1 = "".join(log)
            second = observe(lambda: outline.status)
            out("examples", example_rows, "scenarios", names(combo), "=>",
                first, second,
                "reads=" + reads1 + "|" + "".join(log)[len(reads1):],
                "cached=" + outline._cached_status.name)
    out("== SCENARIO-OUTLINE WITH hook_failed (ignored by outline)")
    for combo in status_tuples(1):
        log = []
        outline = make_outline(combo, log, [2])
        outline.hook_failed = True
        out("hook_failed scenarios", names(combo), "=>",
            observe(lambda: outline.status))


FEATURE_TEXT = u"""
@f
Feature: Tree
  Background:
    Given a background step

  Scenario: A1
    Given a step
    When another step

  Scenario Outline: O1 <name>
    Given a step with <name>
    Then a check with <name>

    Examples: E1
      | name |
      | x    |
      | y    |

    Examples: E2
      | name |
      | z    |

  Rule: R1
    Scenario: RA1
      Given a step

    Scenario Outline: RO1 <name>
      Given a step with <name>

      Examples:
        | name |
        | p    |
        | q    |

  Rule: R2
    Scenario: RB1
      Given a step
      Then a last step
"""


def tree_elements(feature):
    yield feature
    for item in feature.run_items:
        for element in _sub_elements(item):
            yield element


def _sub_elements(item):
    yield item
    if isinstance(item, Rule):
        for sub in item.run_items:
            for element in _sub_elements(sub):
                yield element
    elif isinstance(item, ScenarioOutline):
        for scenario in item._scenarios:
            yield scenario


def dump_tree(feature, label):
    parts = []
    for element in tree_elements(feature):
        parts.append("%s[%s]=%s" % (element.__class__.__name__, element.name,
                                    observe(lambda: element.status)))
    out(label, "; ".join(parts))


def leaf_scenarios(feature, build):
    if build:
        return feature.walk_scenarios()
    return [e for e in tree_elements(feature)
            if isinstance(e, Scenario) and not isinstance(e, ScenarioOutline)]


def part1_tree():
    out("== PARSED TREE: ROLL-UP AT ALL LEVELS")
    feature = parse_feature(FEATURE_TEXT, filename="tree.feature")
    dump_tree(feature, "fresh (outlines not built)")
    scenarios = leaf_scenarios(feature, build=True)
    dump_tree(feature, "fresh (outlines built)")
    interesting = [Status.passed, Status.failed, Status.error, Status.skipped,
                   Status.untested, Status.undefined, Status.pending,
                   Status.pending_warn, Status.hook_error,
                   Status.untested_undefined]
    # -- ONE scenario gets a special last-step status, all others pass/skip/untested.
    for base in (Status.passed, Status.skipped, Status.untested):
        for position, special in itertools.product(range(len(scenarios)),
                                                   interesting):
            feature.reset()
            for index, scenario in enumerate(scenarios):
                steps = list(scenario.all_steps)
                for step in steps:
                    step.status = base
                if index == position:
                    steps[-1].status = special
            dump_tree(feature, "base=%s pos=%d special=%s:" %
                      (base.name, position, special.name))
    # -- PREFIX RUNS: first k scenarios passed, the rest never started.
    for k in range(len(scenarios) + 1):
        feature.reset()
        for scenario in scenarios[:k]:
            for step in scenario.all_steps:
                step.status = Status.passed
        dump_tree(feature, "first %d passed, rest untested:" % k)
    # -- HOOK FAILURES at each level.
    for element in list(tree_elements(feature)):
        feature.reset()
        for scenario in scenarios:
            for step in scenario.all_steps:
                step.status = Status.passed
        element.hook_failed = True
        dump_tree(feature, "hook_failed at %s[%s]:" %
                  (element.__class__.__name__, element.name))
    # -- SKIP / MARK-SKIPPED at each level, then reset.
    for element in list(tree_elements(feature)):
        feature.reset()
        outcome = observe(element.mark_skipped)
        dump_tree(feature, "mark_skipped %s[%s] -> %s:" %
                  (element.__class__.__name__, element.name, outcome))
    feature.reset()
    dump_tree(feature, "after reset:")
    # -- set_status / clear_status protocol
    for value in ("passed", "failed", "hook_error", "nonsense", Status.error,
                  Status.untested, Status.executing):
        outcome = observe(feature.set_status, value)
        out("set_status(%r) -> %s; cached=%s; status=%s" % (
            value, outcome, feature._cached_status.name,
            observe(lambda: feature.status)))
        feature.clear_status()
        out("  after clear_status: cached=%s status=%s" % (
            feature._cached_status.name, observe(lambda: feature.status)))
    base = TagAndStatusStatement("x.feature", 1, u"K", u"N", [])
    out("abstract compute_status:", observe(lambda: base.status))


# ---------------------------------------------------------------------------
# PART 2: scenario_autoretry with scripted outcomes
# ---------------------------------------------------------------------------
class ScriptedRun(object):
    def __init__(self, outcomes, log, name):
        self.outcomes = list(outcomes)
        self.log = log
        self.name = name

    def __call__(self, *args, **kwargs):
        outcome = self.outcomes.pop(0)
        self.log.append("%s.run%r%r->%r" % (self.name, args,
                                            sorted(kwargs.items()), outcome))
        if isinstance(outcome, BaseException):
            raise outcome
        return outcome


@contextlib.contextmanager
def captured_stdout():
    old = sys.stdout
    sys.stdout = io.StringIO()
    try:
        yield sys.stdout
    finally:
        sys.stdout = old


def part2_autoretry():
    out("== AUTORETRY WRAPPER")
    scripts = [
        [False], [True, False], [True, True, False], [True, True, True],
        [True, True, True, False], [0, 1], [1, 0], ["x", ""], [None],
        [True, ValueError("boom")], [KeyError("k")],
    ]
    for max_attempts in (None, 0, 1, 2, 3, 4):
        for script in scripts:
            log = []
            scenario = Scenario("x.feature", 3, u"Scenario", u"S")
            scenario.run = ScriptedRun(script, log, "S")
            if max_attempts is None:
                patch_scenario_with_autoretry(scenario)
            else:
                patch_scenario_with_autoretry(scenario, max_attempts)
            with captured_stdout() as stream:
                result = observe(scenario.run, "RUNNER", extra=1)
            out("max=%s script=%r => %s; calls=%s; left=%d; printed=%r" % (
                max_attempts, script, result, log,
                len(scenario.__dict__["run"].args[0].outcomes),
                stream.getvalue()))
            out("  wrapper:", type(scenario.run).__name__,
                scenario.run.func.__name__, len(scenario.run.args),
                scenario.run.keywords)
    out("== AUTORETRY ON OUTLINE")
    feature = parse_feature(FEATURE_TEXT, filename="tree.feature")
    outline = [x for x in feature.run_items
               if isinstance(x, ScenarioOutline)][0]
    log = []
    outline_run = outline.run
    built = outline.scenarios
    scripts = [[True, False], [True, True, True], [False]]
    for scenario, script in zip(built, scripts):
        scenario.run = ScriptedRun(script, log, scenario.name)
    patch_scenario_with_autoretry(outline, max_attempts=3)
    out("outline.run patched:", outline.run != outline_run,
        "instance attr:", "run" in outline.__dict__)
    for scenario in outline.scenarios:
        with captured_stdout() as stream:
            result = observe(scenario.run, "RUNNER")
        out(scenario.name, "=>", result, "printed=%r" % stream.getvalue())
    out("calls:", log)
    out("same scenario objects:", [a is b for a, b in
                                   zip(built, outline.scenarios)])
    for bad in (2.5, "3"):
        scenario = Scenario("x.feature", 3, u"Scenario", u"S")
        scenario.run = ScriptedRun([True, True, True], [], "S")
        patch_scenario_with_autoretry(scenario, bad)
        with captured_stdout() as stream:
            result = observe(scenario.run, "RUNNER")
        out("max_attempts=%r => %s printed=%r" % (bad, result,
                                                   stream.getvalue()))


# ---------------------------------------------------------------------------
# PART 3: real runs
# ---------------------------------------------------------------------------
STEPS_PY = u'''
from __future__ import print_function
import os
from behave import given, when, then, step
from behave.api.pending_step import StepNotImplementedError

COUNTERS = {}

@step(u'a passing step')
def step_passes(context):
    pass

@step(u'a failing step')
def step_fails(context):
    assert False, "XFAIL-HERE"

@step(u'an erroring step')
def step_errors(context):
    raise RuntimeError("ERROR-HERE")

@step(u'a pending step')
def step_pending(context):
    raise StepNotImplementedError("PENDING-HERE")

@step(u'an aborting step')
def step_aborts(context):
    raise KeyboardInterrupt()

@step(u'a step with "{value}"')
def step_with_value(context, value):
    if value == "fail":
        assert False, "XFAIL-VALUE"
    elif value == "error":
        raise ValueError("ERROR-VALUE")
    elif value == "skip":
        context.scenario.skip("SKIP-VALUE")

@step(u'a step that skips the scenario')
def step_skip_scenario(context):
    context.scenario.skip("BY-STEP")

@step(u'a step that skips the feature')
def step_skip_feature(context):
    context.feature.skip("BY-STEP")

@step(u'a flaky step "{name}" that passes on attempt {number:d}')
def step_flaky(context, name, number):
    count = COUNTERS.get(name, 0) + 1
    COUNTERS[name] = count
    print("FLAKY %s attempt %d" % (name, count))
    assert count >= number, "FLAKY-FAILED %s %d" % (name, count)

@step(u'a flaky step "{name}" that fails on attempt {number:d}')
def step_flaky_reverse(context, name, number):
    count = COUNTERS.get(name, 0) + 1
    COUNTERS[name] = count
    assert count != number, "FLAKY-FAILED %s %d" % (name, count)
'''

ENVIRONMENT_PY = u'''
from __future__ import print_function
import os
from behave.model import Rule, ScenarioOutline, Scenario
from behave.contrib.scenario_autoretry import patch_scenario_with_autoretry

HOOK_FAIL = os.environ.get("HOOK_FAIL", "")      # "hook:name,hook:name"
HOOK_SKIP = os.environ.get("HOOK_SKIP", "")
AUTORETRY = int(os.environ.get("AUTORETRY", "0"))


def _matches(spec, hook, name):
    return ("%s:%s" % (hook, name)) in spec.split(",")


def _hook(hook, element):
    name = getattr(element, "name", element)
    print("HOOK %s %s status=%s" % (hook, name,
          getattr(getattr(element, "status", None), "name", "-")))
    if _matches(HOOK_SKIP, hook, name):
        element.mark_skipped()
    if _matches(HOOK_FAIL, hook, name):
        raise RuntimeError("HOOK-FAIL %s %s" % (hook, name))


def before_all(context):
    _hook("before_all", "all")

def before_feature(context, feature):
    if AUTORETRY:
        for scenario in feature.walk_scenarios(with_outlines=True):
            if "autoretry" in scenario.effective_tags and \\
                    not isinstance(scenario, ScenarioOutline):
                patch_scenario_with_autoretry(scenario, max_attempts=AUTORETRY)
        for outline in feature.iter_scenario_outlines():
            if "autoretry_outline" in outline.tags:
                patch_scenario_with_autoretry(outline, max_attempts=AUTORETRY)
    _hook("before_feature", feature)

def after_feature(context, feature):
    _hook("after_feature", feature)

def before_rule(context, rule):
    _hook("before_rule", rule)

def after_rule(context, rule):
    _hook("after_rule", rule)

def before_scenario(context, scenario):
    _hook("before_scenario", scenario)

def after_scenario(context, scenario):
    _hook("after_scenario", scenario)

def before_step(context, step):
    if _matches(HOOK_FAIL, "before_step", step.name):
        raise RuntimeError("HOOK-FAIL before_step")

def after_step(context, step):
    if _matches(HOOK_FAIL, "after_step", step.name):
        raise RuntimeError("HOOK-FAIL after_step")


def _dump(element, indent):
    line = "%s%s[%s] status=%s" % ("  " * indent, element.__class__.__name__,
                                    element.name, element.status.name)
    hook_failed = getattr(element, "hook_failed", None)
    if hook_failed:
        line += " hook_failed"
    if getattr(element, "should_skip", False):
        line += " should_skip"
    print(line)
    if isinstance(element, ScenarioOutline):
        for scenario in element._scenarios:
            _dump(scenario, indent + 1)
    elif isinstance(element, Scenario):
        for step in element.all_steps:
            _dump(step, indent + 1)
    elif hasattr(element, "run_items"):
        for item in element.run_items:
            _dump(item, indent + 1)


def after_all(context):
    print("DUMP-BEGIN aborted=%s" % context._runner.aborted)
    for feature in context._runner.features:
        _dump(feature, 0)
    print("DUMP-END")
'''

FEATURES = {
    "a_mixed.feature": u'''
@mixed
Feature: Mixed
  Background:
    Given a passing step

  @ok
  Scenario: M passes
    When a passing step
    Then a passing step

  @bad
  Scenario: M fails
    When a failing step
    Then a passing step

  @bad
  Scenario: M errors
    When an erroring step
    Then a passing step

  @bad
  Scenario: M undefined
    When an unknown step
    Then a passing step

  @bad @pend
  Scenario: M pending
    When a pending step
    Then a passing step

  @ok
  Scenario: M skips itself
    When a step that skips the scenario
    Then a failing step

  @ok
  Scenario: M last
    When a passing step
''',
    "b_outlines.feature": u'''
Feature: Outlines
  @ok
  Scenario Outline: O good <v>
    Given a step with "<v>"

    Examples: first
      | v |
      | a |
      | b |

    @second
    Examples: second
      | v |
      | c |

  @bad
  Scenario Outline: O mixed <v>
    Given a step with "<v>"
    Then a passing step

    Examples:
      | v     |
      | a     |
      | skip  |
      | fail  |
      | error |
      | b     |

  Rule: RA
    Background:
      Given a passing step

    @ok
    Scenario: RA one
      Given a passing step

    @ok
    Scenario Outline: RA outline <v>
      Given a step with "<v>"

      Examples:
        | v    |
        | a    |
        | skip |

  @rb
  Rule: RB
    @bad
    Scenario Outline: RB outline <v>
      Given a step with "<v>"

      Examples:
        | v     |
        | error |
        | a     |

    @ok
    Scenario: RB two
      Given a passing step

  Rule: RC
    @ok
    Scenario Outline: RC all skipped <v>
      Given a step with "<v>"

      Examples:
        | v    |
        | skip |
        | skip |
''',
    "c_allgood.feature": u'''
@good
Feature: AllGood
  @ok
  Scenario: G one
    Given a passing step

  Rule: GR
    @ok
    Scenario: G two
      Given a passing step
      And a passing step
''',
    "d_abort.feature": u'''
@abort
Feature: Abort
  Scenario: AB one
    Given a passing step

  Scenario: AB two
    Given an aborting step
    Then a passing step

  Scenario: AB three
    Given a passing step

  Scenario Outline: AB outline <v>
    Given a step with "<v>"

    Examples:
      | v |
      | a |
''',
    "e_retry.feature": u'''
@retry
Feature: Retry
  @autoretry
  Scenario: RT second attempt
    Given a passing step
    When a flaky step "one" that passes on attempt 2
    Then a passing step

  @autoretry
  Scenario: RT third attempt
    When a flaky step "two" that passes on attempt 3

  @autoretry
  Scenario: RT never
    When a flaky step "three" that passes on attempt 99
    Then a passing step

  @autoretry
  Scenario: RT first
    When a flaky step "four" that passes on attempt 1

  Scenario: RT not patched
    When a flaky step "five" that passes on attempt 2

  @autoretry_outline
  Scenario Outline: RT outline <name>
    When a flaky step "<name>" that passes on attempt <n>

    Examples:
      | name | n |
      | o1   | 1 |
      | o2   | 2 |
      | o3   | 9 |
''',
    "f_skipfeature.feature": u'''
@skipper
Feature: SkipFeature
  Scenario: SF one
    Given a passing step

  Scenario: SF two
    Given a step that skips the feature
    Then a failing step

  Scenario: SF three
    Given a failing step
''',
}

RUNS = [
    # (label, args, env)
    ("default", [], {}),
    ("stop", ["--stop"], {}),
    ("dry-run", ["--dry-run"], {}),
    ("tags ok", ["--tags=@ok"], {}),
    ("tags bad", ["--tags=@bad"], {}),
    ("tags none", ["--tags=@nothing"], {}),
    ("tags ok show-skipped", ["--tags=@ok", "--show-skipped"], {}),
    ("tags second", ["--tags=@second"], {}),
    ("tags rb", ["--tags=@rb"], {}),
    ("tags not-bad and not abort/retry",
     ["--tags=not @bad", "--tags=not @abort", "--tags=not @retry"], {}),
    ("name select", ["-n", "RA", "--tags=not @abort"], {}),
    ("name select none", ["-n", "NOTHING-MATCHES"], {}),
    ("wip", ["--wip", "--tags=@pend"], {}),
    ("only good", ["features/c_allgood.feature"], {}),
    ("only abort", ["features/d_abort.feature"], {}),
    ("abort then good", ["features/d_abort.feature",
                         "features/c_allgood.feature"], {}),
    ("good then abort stop", ["--stop", "features/c_allgood.feature",
                              "features/d_abort.feature",
                              "features/a_mixed.feature"], {}),
    ("mixed stop", ["--stop", "features/a_mixed.feature",
                    "features/c_allgood.feature"], {}),
    ("outlines stop", ["--stop", "features/b_outlines.feature"], {}),
    ("skip feature by step", ["features/f_skipfeature.feature"], {}),
    ("line select", ["features/b_outlines.feature:14"], {}),
    ("retry 1", ["features/e_retry.feature"], {"AUTORETRY": "1"}),
    ("retry 2", ["features/e_retry.feature"], {"AUTORETRY": "2"}),
    ("retry 3", ["features/e_retry.feature"], {"AUTORETRY": "3"}),
    ("retry 3 stop", ["--stop", "features/e_retry.feature"],
     {"AUTORETRY": "3"}),
    ("retry off", ["features/e_retry.feature"], {}),
    ("hook before_all", ["features/c_allgood.feature"],
     {"HOOK_FAIL": "before_all:all"}),
    ("hook before_feature", ["features/c_allgood.feature",
                             "features/f_skipfeature.feature"],
     {"HOOK_FAIL": "before_feature:AllGood"}),
    ("hook after_feature", ["features/c_allgood.feature"],
     {"HOOK_FAIL": "after_feature:AllGood"}),
    ("hook before_rule", ["features/b_outlines.feature", "--tags=@ok"],
     {"HOOK_FAIL": "before_rule:RA"}),
    ("hook after_rule", ["features/b_outlines.feature", "--tags=@ok"],
     {"HOOK_FAIL": "after_rule:RB"}),
    ("hook before_scenario", ["features/c_allgood.feature"],
     {"HOOK_FAIL": "before_scenario:G one"}),
    ("hook after_scenario", ["features/c_allgood.feature"],
     {"HOOK_FAIL": "after_scenario:G two"}),
    ("hook before_scenario in outline",
     ["features/b_outlines.feature", "--tags=@ok"],
     {"HOOK_FAIL": "before_scenario:O good b -- @1.2 first"}),
    ("hook before_step", ["features/c_allgood.feature"],
     {"HOOK_FAIL": "before_step:a passing step"}),
    ("hook after_step", ["features/c_allgood.feature"],
     {"HOOK_FAIL": "after_step:a passing step"}),
    ("hook skips feature", ["features/c_allgood.feature",
                            "features/f_skipfeature.feature"],
     {"HOOK_SKIP": "before_feature:AllGood"}),
    ("hook skips rule", ["features/b_outlines.feature", "--tags=@ok"],
     {"HOOK_SKIP": "before_rule:RA"}),
    ("hook skips scenario", ["features/c_allgood.feature"],
     {"HOOK_SKIP": "before_scenario:G one"}),
    ("hook skips all scenarios", ["features/c_allgood.feature"],
     {"HOOK_SKIP": "before_scenario:G one,before_scenario:G two"}),
    ("junit-less json", ["-f", "json.pretty", "features/b_outlines.feature",
                         "--tags=@rb"], {}),
]

TIMING = re.compile(r"\d+\.\d+s|\d+m\d+\.\d+s|\"duration\": [0-9.e-]+")


def normalize(text, workdir):
    text = text.replace(workdir, "<WORKDIR>")
    lines = []
    for line in text.splitlines():
        line = TIMING.sub("<T>", line.rstrip())
        if line.lstrip().startswith("File \"") and "<WORKDIR>" not in line:
            # -- traceback frames inside the library: line numbers may move.
            line = re.sub(r"line \d+", "line N", line)
        lines.append(line)
    return "\n".join(lines)


def part3_real_runs():
    workdir = tempfile.mkdtemp(prefix="c03equiv")
    try:
        os.makedirs(os.path.join(workdir, "features", "steps"))
        with io.open(os.path.join(workdir, "features", "steps", "steps.py"),
                     "w", encoding="utf-8") as f:
            f.write(STEPS_PY)
        with io.open(os.path.join(workdir, "features", "environment.py"),
                     "w", encoding="utf-8") as f:
            f.write(ENVIRONMENT_PY)
        for name, text in FEATURES.items():
            with io.open(os.path.join(workdir, "features", name), "w",
                         encoding="utf-8") as f:
                f.write(text)
        for label, args, extra_env in RUNS:
            env = dict(os.environ)
            for key in ("HOOK_FAIL", "HOOK_SKIP", "AUTORETRY"):
                env.pop(key, None)
            env.update(extra_env)
            env["PYTHONPATH"] = WORKTREE
            env["PYTHONDONTWRITEBYTECODE"] = "1"
            env["PYTHONHASHSEED"] = "0"
            command = [sys.executable, "-m", "behave", "--no-color",
                       "--no-timings", "--no-capture"]
            if "-f" not in args:
                command += ["-f", "plain"]
            command += args
            process = subprocess.Popen(command, cwd=workdir, env=env,
                                       stdout=subprocess.PIPE,
                                       stderr=subprocess.STDOUT)
            output, _ = process.communicate()
            out("=" * 70)
            out("== RUN %s: behave %s env=%r" % (label, " ".join(args),
                                                 sorted(extra_env.items())))
            out("exit code:", process.returncode)
            out(normalize(output.decode("utf-8", "replace"), workdir))
    finally:
        shutil.rmtree(workdir, ignore_errors=True)


def main():
    part1_status_predicates()
    part1_scenario()
    part1_containers()
    part1_outline()
    part1_tree()
    part2_autoretry()
    part3_real_runs()


if __name__ == "__main__":
    main()
