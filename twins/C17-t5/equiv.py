# -*- coding: utf-8 -*-
"""
Equivalence transcript for property C17 (rerun file <-> selection by location).

Exercises, through public behaviour only:
  A. Status predicates (has_failed / is_error / is_failure ...) for every member
  B. FileLocationParser.parse / FeatureListParser.parse / parse_file
  C. FeatureLineDatabase / parse_features / collect_feature_locations
  D. RerunFormatter driven by hand (feature()/eof()/close()) on real models
  E. End to end: "python -m behave" run -> rerun file -> second run

Prints a canonical transcript (temp dir and timings normalised).
"""
from __future__ import absolute_import, print_function
import sys
sys.path.insert(0, "/tmp/wtU/C17")

import io
import os
import re
import shutil
import subprocess
import tempfile

from behave.model_core import Status, FileLocation
from behave import runner_util
from behave.runner_util import (
    FileLocationParser, FeatureListParser, FeatureLineDatabase,
    parse_features, collect_feature_locations,
)
from behave.formatter.base import StreamOpener
from behave.formatter.rerun import RerunFormatter
from behave.configuration import Configuration

PYTHON = "/venv/bin/python"
WORKTREE = "/tmp/wtU/C17"
TMPDIR = os.path.realpath(tempfile.mkdtemp(prefix="c17equiv"))


def norm(text):
    text = text.replace(TMPDIR, "<TMP>")
    text = text.replace(WORKTREE, "<WT>")
    text = re.sub(r"Took \d+min \d+\.\d+s", "Took <T>", text)
    text = re.sub(r"Took \d+m\d+\.\d+s", "Took <T>", text)
    text = re.sub(r"\d+\.\d{3}s", "<T>s", text)
    text = re.sub(r"0x[0-9a-fA-F]+", "0x<ADDR>", text)
    return text


def out(text=""):
    print(norm(u"%s" % (text,)))


def section(title):
    out()
    out("=" * 70)
    out(title)
    out("=" * 70)


def attempt(label, func, show=repr):
    try:
        result = func()
    except BaseException as e:      # pylint: disable=broad-except
        out("%s -> RAISED %s: %s" % (label, e.__class__.__name__, e))
        return None
    out("%s -> %s" % (label, show(result)))
    return result


def write_file(path, text):
    dirname = os.path.dirname(path)
    if dirname and not os.path.isdir(dirname):
        os.makedirs(dirname)
    with io.open(path, "w", encoding="utf-8") as f:
        f.write(text)


# ---------------------------------------------------------------------------
# TEST PROJECT
# ---------------------------------------------------------------------------
ALPHA = u"""Feature: Alpha all passing
  Scenario: A1 passes
    Given a passing step

  Scenario: A2 passes
    Given a passing step
    When a passing step
"""

BETA = u"""@beta
Feature: Beta mixed
  Background:
    Given a passing step

  Scenario: B1 passes
    When a passing step

  Scenario: B2 fails by assertion
    When a failing step
    Then a passing step

  Scenario: B3 raises exception
    When a broken step

  Scenario: B4 has undefined step
    When an unknown step appears

  @skip
  Scenario: B5 is skipped by hook
    When a failing step

  Scenario Outline: B6 outline <kind>
    When a <kind> step

    Examples: first
      | kind    |
      | passing |
      | failing |

    Examples: second
      | kind    |
      | broken  |
      | passing |

  Rule: R1 in beta
    Scenario: B7 in rule passes
      When a passing step

    Scenario: B8 in rule fails
      When a failing step

    Scenario Outline: B9 rule outline <kind>
      When a <kind> step

      Examples:
        | kind    |
        | failing |
        | passing |

  Rule: R2 all good
    Scenario: B10 passes
      When a passing step
"""

GAMMA = u"""Feature: Gamma hook errors
  @hook_fail_before
  Scenario: G1 before_scenario hook raises
    Given a passing step

  Scenario: G2 passes
    Given a passing step

  @hook_fail_after
  Scenario: G3 after_scenario hook raises
    Given a passing step
"""

DELTA = u"""Feature: Delta first problem is an error
  Scenario: D1 raises
    Given a broken step

  Scenario: D2 passes
    Given a passing step

  Scenario: D3 fails
    Given a failing step

  Scenario: D4 is pending
    Given a pending step
"""

EPSILON = u"""Feature: Epsilon in subdirectory
  Rule: Only rule
    Scenario: E1 undefined in rule
      Given nothing is known about this step

    Scenario: E2 passes in rule
      Given a passing step
"""

ZETA = u"""Feature: Zeta all passing in rule
  Rule: Z rule
    Scenario: Z1 passes
      Given a passing step
"""

STEPS = u'''# -*- coding: utf-8 -*-
from behave import given, when, then, step

@step(u"a passing step")
def step_passing(ctx):
    pass

@step(u"a failing step")
def step_failing(ctx):
    assert False, "XFAIL: failing step"

@step(u"a broken step")
def step_broken(ctx):
    raise RuntimeError("XERROR: broken step")

@step(u"a pending step")
def step_pending(ctx):
    raise NotImplementedError("XPENDING: pending step")
'''

ENVIRONMENT = u'''# -*- coding: utf-8 -*-
def before_scenario(ctx, scenario):
    if "skip" in scenario.tags:
        scenario.skip("BY-HOOK")
        return
    if "hook_fail_before" in scenario.tags:
        raise RuntimeError("XHOOK: before_scenario")

def after_scenario(ctx, scenario):
    if "hook_fail_after" in scenario.tags:
        raise RuntimeError("XHOOK: after_scenario")
'''


def make_project():
    os.chdir(TMPDIR)
    write_file("features/alpha.feature", ALPHA)
    write_file("features/beta.feature", BETA)
    write_file("features/gamma.feature", GAMMA)
    write_file("features/delta.feature", DELTA)
    write_file("features/sub/epsilon.feature", EPSILON)
    write_file("features/zeta.feature", ZETA)
    write_file("features/empty.feature", u"")
    write_file("features/notes.txt", u"not a feature\n")
    write_file("features/steps/steps.py", STEPS)
    write_file("features/environment.py", ENVIRONMENT)


# ---------------------------------------------------------------------------
# A. STATUS PREDICATES
# ---------------------------------------------------------------------------
def section_status():
    section("A. Status predicates")
    predicates = ["has_failed", "is_failure", "is_error", "is_passed",
                  "is_untested", "is_pending", "is_undefined", "is_final"]
    for status in Status:
        parts = []
        for name in predicates:
            value = getattr(status, name)()
            parts.append("%s=%r" % (name, value))
        out("%-20s %s" % (status.name, " ".join(parts)))
    out("failed-set: %s" % [s.name for s in Status if s.has_failed()])
    out("has_failed == is_error or is_failure: %s" % all(
        s.has_failed() == (s.is_error() or s.is_failure()) for s in Status))
    out("result types: %s" % sorted(set(
        type(s.has_failed()).__name__ for s in Status)))
    for status in Status:
        attempt("to_status_v0(%s)" % status.name, status.to_status_v0)
    for status in Status:
        out("%s == name:%r  == 'failed':%r hash-eq:%r" % (
            status.name, status == status.name, status == "failed",
            hash(status) == hash(status.value)))


# ---------------------------------------------------------------------------
# B. LOCATION PARSERS
# ---------------------------------------------------------------------------
def show_location(location):
    return "FileLocation(%r, %r) str=%r" % (
        location.filename, location.line, u"%s" % location)


def show_locations(locations):
    return "[%s]" % "; ".join(show_location(x) for x in locations)


def section_parsers():
    section("B1. FileLocationParser.parse")
    texts = [
        u"alice.feature", u"alice.feature:10", u"  alice.feature:10  ",
        u"alice.feature :10", u" features/a b.feature : 12", u"alice.feature:",
        u"alice.feature:0", u"alice.feature:007", u"a:b:3", u":3", u"",
        u"   ", u"alice.feature:1x", u"alice.feature:-1", u"x.feature:10:20",
        u"C:\\dir\\x.feature:5", u"x.feature:10\n", u"x.feature:\u0663",
        u"dir/*.feature:4", u"x.feature: 5", u"\tx.feature\t",
        u"x.feature:" + u"9" * 30,
    ]
    for text in texts:
        attempt("parse(%r)" % text, lambda: FileLocationParser.parse(text),
                show_location)
    attempt("parse(None)", lambda: FileLocationParser.parse(None))
    attempt("parse(b'x.feature:3')",
            lambda: FileLocationParser.parse(b"x.feature:3"))
    attempt("parse(huge-line)",
            lambda: FileLocationParser.parse(u"x.feature:" + u"9" * 5000),
            lambda loc: "line-digits=%d" % len(str(loc.line)))

    section("B2. FeatureListParser.parse")
    listings = [
        u"",
        u"\n\n",
        u"# only a comment\n",
        u"features/alpha.feature\n",
        u"features/alpha.feature:2\nfeatures/alpha.feature:5\n",
        u"  features/alpha.feature:2  \n\n#c\n   # indented comment\nfeatures/beta.feature\n",
        u"features/*.feature\n",
        u"features/*.feature:3\n",
        u"features/**/eps*.feature\n",
        u"features/[ab]*.feature\nfeatures/zeta.feature:3\n",
        u"features/nomatch*.feature\nfeatures/alpha.feature\n",
        u"features/./sub/../alpha.feature:5\n",
        u"features/missing.feature:9\n",
        u"features/alpha.feature:2\r\nfeatures/delta.feature:8\r\n",
        os.path.join(TMPDIR, "features", "alpha.feature") + u":2\n",
        os.path.join(TMPDIR, "features", "g*.feature") + u"\n",
        u"features/alpha.feature:2 # trailing\n",
        u"features/alpha.feature\nfeatures/alpha.feature\n",
        u"features/?eta.feature\n",
    ]
    for here in (None, "", ".", TMPDIR, "features", "no/such/dir"):
        out("-- here=%r" % (here,))
        for listing in listings:
            def run(listing=listing, here=here):
                locations = FeatureListParser.parse(listing, here)
                assert isinstance(locations, list)
                # -- GLOB ORDER: directory order is not part of the contract.
                return locations
            attempt("parse(%r)" % listing, run, show_locations)
    attempt("parse(text) default here",
            lambda: FeatureListParser.parse(u"features/zeta.feature:3\n"),
            show_locations)
    attempt("parse(None)", lambda: FeatureListParser.parse(None))

    section("B3. FeatureListParser.parse_file")
    write_file("lists/one.txt", u"# -- RERUN\n../features/alpha.feature:2\n"
                                u"../features/beta.feature:9\n\n")
    write_file("lists/glob.txt", u"../features/*.feature\n")
    write_file("here.txt", u"features/delta.feature:5\nfeatures/sub/epsilon.feature\n")
    write_file("emptylist.txt", u"")
    for name in ("lists/one.txt", "@lists/one.txt", "lists/glob.txt",
                 "here.txt", "@here.txt", "@@here.txt", "emptylist.txt",
                 "missing.txt", "@missing.txt", "features", "",
                 os.path.join(TMPDIR, "here.txt")):
        attempt("parse_file(%r)" % name,
                lambda: FeatureListParser.parse_file(name), show_locations)


# ---------------------------------------------------------------------------
# C. SELECTION BY LOCATION
# ---------------------------------------------------------------------------
def describe_scenario(scenario):
    return "%s@%s skip=%r status=%s" % (
        scenario.name, scenario.location.line, scenario.should_skip,
        scenario.status.name)


def describe_feature(feature):
    if feature is None:
        return "None"
    lines = ["%s (%s) skip=%r" % (feature.name, feature.filename,
                                  feature.should_skip)]
    for scenario in feature.walk_scenarios(with_outlines=True, with_rules=True):
        kind = scenario.__class__.__name__
        if kind == "Rule":
            lines.append("    [Rule] %s@%s" % (scenario.name,
                                             scenario.location.line))
        elif kind == "ScenarioOutline":
            lines.append("    [Outline] %s@%s skip=%r" % (
                scenario.name, scenario.location.line, scenario.should_skip))
        else:
            lines.append("    " + describe_scenario(scenario))
    return "\n".join(lines)


def describe_features(features):
    return "%d feature(s)\n  " % len(features) + \
           "\n  ".join(describe_feature(f) for f in features)


def section_selection():
    section("C1. FeatureLineDatabase")
    for filename in ("features/beta.feature", "features/sub/epsilon.feature",
                     "features/alpha.feature"):
        feature = parse_features([filename])[0]
        database = FeatureLineDatabase.make(feature)
        out("-- %s: line_data keys=%s" % (filename, list(database.data.keys())))
        out("   entities=%s" % [
            "%s:%s" % (e.__class__.__name__, e.name)
            for e in database.data.values()])
        last_line = max(database.data.keys())
        for line in list(range(-2, last_line + 4)) + [10000]:
            item = database.select_run_item_by_line(line)
            scenarios = database.select_scenarios_by_line(line)
            assert isinstance(scenarios, list)
            out("   line %5d -> %s:%s -> %s" % (
                line, item.__class__.__name__, item.name,
                ["%s@%d" % (s.name, s.location.line) for s in scenarios]))
        # -- ENTITY VARIANTS: Rule, ScenarioOutline, Scenario as database root.
        for run_item in feature.walk_scenarios(with_outlines=True,
                                               with_rules=True):
            data = FeatureLineDatabase.make_line_data_for(run_item)
            out("   make_line_data_for(%s:%s) = %s" % (
                run_item.__class__.__name__, run_item.name,
                [(n, e.__class__.__name__, e.name) for n, e in data]))
            database2 = FeatureLineDatabase(run_item)
            for line in (0, run_item.location.line, run_item.location.line + 1):
                out("      line %d -> %s" % (line, [
                    s.name for s in database2.select_scenarios_by_line(line)]))
        # -- FRESH LISTS: results are independent copies.
        first = database.select_scenarios_by_line(0)
        first.append("SENTINEL")
        out("   fresh list: %r" % (not any(
            x is first[-1] for x in database.select_scenarios_by_line(0))))
    attempt("FeatureLineDatabase() empty select",
            lambda: FeatureLineDatabase().select_scenarios_by_line(3))
    attempt("FeatureLineDatabase(line_data=[(1,'x')]) select",
            lambda: FeatureLineDatabase(line_data=[(1, "x")])
            .select_scenarios_by_line(3))
    attempt("make_line_data_for(None)",
            lambda: FeatureLineDatabase.make_line_data_for(None))

    section("C2. parse_features")
    beta = "features/beta.feature"
    cases = [
        [beta],
        [beta + ":7"], [beta + ":9"], [beta + ":10"], [beta + ":12"],
        [beta + ":1"], [beta + ":2"], [beta + ":3"], [beta + ":0"],
        [beta + ":23"], [beta + ":24"], [beta + ":27"], [beta + ":29"],
        [beta + ":30"], [beta + ":34"], [beta + ":36"], [beta + ":37"],
        [beta + ":38"], [beta + ":41"], [beta + ":44"], [beta + ":49"],
        [beta + ":50"], [beta + ":52"], [beta + ":53"], [beta + ":999"],
        [beta + ":9", beta + ":13", beta + ":41"],
        [beta + ":41", beta + ":9"],
        [beta + ":9", beta],
        [beta, beta + ":9"],
        [beta + ":9", beta + ":9"],
        ["features/alpha.feature:2", beta + ":9", "features/alpha.feature:5"],
        ["features/alpha.feature", "features/zeta.feature",
         "features/sub/epsilon.feature:3"],
        ["features/empty.feature", beta + ":9"],
        ["features/empty.feature"],
        [beta + ":9", "features/empty.feature", beta + ":13"],
        ["features/./alpha.feature"],
        [],
    ]
    for case in cases:
        locations = [FileLocationParser.parse(x) for x in case]
        attempt("parse_features(%s)" % case,
                lambda: parse_features(locations), describe_features)
    attempt("parse_features(strings)",
            lambda: parse_features(["features/alpha.feature",
                                    "features/zeta.feature"]),
            describe_features)
    attempt("parse_features(mixed string/location)",
            lambda: parse_features(["features/alpha.feature",
                                    FileLocation("features/alpha.feature", 5)]),
            describe_features)
    attempt("parse_features(missing)",
            lambda: parse_features(["features/missing.feature"]),
            describe_features)
    attempt("parse_features([42])", lambda: parse_features([42]))

    section("C3. collect_feature_locations")
    write_file("rerun_sample.txt",
               u"# -- RERUN: 3 failing scenarios during last test run.\n"
               u"features/beta.feature:9\nfeatures/beta.feature:29\n"
               u"features/delta.feature:2\n\n")
    path_cases = [
        ["features"], ["features/sub"], ["features/alpha.feature"],
        ["features/alpha.feature:5"], ["@rerun_sample.txt"],
        ["@rerun_sample.txt", "features/zeta.feature"],
        ["features/zeta.feature:3", "@rerun_sample.txt", "features/sub"],
        ["@missing.txt"], ["features/missing.feature"],
        ["features/missing.feature:3"], ["features/notes.txt"],
        ["features/notes.txt:3"], ["@emptylist.txt"], [],
        ["features/", "features"], ["lists"],
    ]
    for strict in (True, False):
        out("-- strict=%r" % strict)
        for paths in path_cases:
            attempt("collect(%s)" % paths,
                    lambda: collect_feature_locations(paths, strict=strict),
                    show_locations)
    attempt("collect + parse_features(@rerun_sample.txt)",
            lambda: parse_features(
                collect_feature_locations(["@rerun_sample.txt"])),
            describe_features)


# ---------------------------------------------------------------------------
# D. RERUN FORMATTER BY HAND
# ---------------------------------------------------------------------------
class RerunFormatterWithDescriptions(RerunFormatter):
    show_failed_scenarios_descriptions = True


def file_state(path):
    if not os.path.exists(path):
        return "<absent>"
    if os.path.isdir(path):
        return "<directory>"
    with io.open(path, encoding="utf-8") as f:
        return repr(f.read())


def new_formatter(path, cls=RerunFormatter):
    config = Configuration(command_args=[], load_config=False)
    return cls(StreamOpener(path), config)


def load(filename):
    return parse_features([filename])[0]


def force_status(feature, feature_status, scenario_statuses):
    scenarios = feature.walk_scenarios()
    for index, scenario in enumerate(scenarios):
        scenario.set_status(scenario_statuses[index % len(scenario_statuses)])
    feature.set_status(feature_status)


def section_formatter():
    section("D. RerunFormatter by hand")
    all_statuses = list(Status)
    target = "out/rerun.txt"

    # -- D1: every feature status x cycling scenario statuses.
    for feature_status in all_statuses:
        if os.path.exists(target):
            os.remove(target)
        formatter = new_formatter(target)
        feature = load("features/beta.feature")
        force_status(feature, feature_status, all_statuses)
        formatter.uri(feature.filename)
        formatter.feature(feature)
        formatter.eof()
        out("feature=%s: collected=%s current_feature=%r" % (
            feature_status.name,
            ["%s(%s)" % (s.location, s.status.name)
             for s in formatter.failed_scenarios],
            formatter.current_feature))
        attempt("  close()", formatter.close)
        out("  file=%s stream=%r" % (file_state(target), formatter.stream))

    # -- D2: several features in run order, stale file handling.
    def run_sequence(label, plan, cls=RerunFormatter, stale=True,
                     path=target, eof_twice=False, no_feature_call=False):
        out("-- %s" % label)
        if path and os.path.isfile(path):
            os.remove(path)
        if stale and path:
            write_file(path, u"STALE\nfeatures/old.feature:1\n")
        formatter = new_formatter(path, cls)
        for filename, feature_status, scenario_statuses in plan:
            feature = load(filename)
            force_status(feature, feature_status, scenario_statuses)
            if not no_feature_call:
                formatter.uri(feature.filename)
                formatter.feature(feature)
            for scenario in feature.walk_scenarios():
                formatter.scenario(scenario)
            formatter.eof()
            if eof_twice:
                formatter.eof()
        out("  collected=%s" % [u"%s" % s.location
                                for s in formatter.failed_scenarios])
        attempt("  close()", formatter.close)
        if path:
            out("  file=%s" % file_state(path))
        out("  stream=%r opener.stream=%r" % (formatter.stream,
                                              formatter.stream_opener.stream))
        return formatter

    F, E, P, S = Status.failed, Status.error, Status.passed, Status.skipped
    H, U, N = Status.hook_error, Status.undefined, Status.pending
    plan_mixed = [
        ("features/alpha.feature", P, [P]),
        ("features/beta.feature", F, [P, F, E, U, S, P, F, E, P, P, F, F, P, P]),
        ("features/gamma.feature", H, [H, P, H]),
        ("features/delta.feature", E, [E, P, F, N]),
        ("features/sub/epsilon.feature", E, [U, P]),
        ("features/zeta.feature", P, [P]),
    ]
    plan_passing = [
        ("features/alpha.feature", P, [P]),
        ("features/zeta.feature", P, [P]),
        ("features/beta.feature", S, [S]),
    ]
    plan_inconsistent = [
        # feature says passed but scenarios failed: nothing collected.
        ("features/alpha.feature", P, [F, E]),
        # feature failed but no scenario failed: nothing collected.
        ("features/zeta.feature", F, [P]),
    ]
    run_sequence("mixed, stale file present", plan_mixed)
    run_sequence("mixed, no stale file", plan_mixed, stale=False)
    run_sequence("mixed, with descriptions", plan_mixed,
                 cls=RerunFormatterWithDescriptions)
    run_sequence("mixed, eof twice", plan_mixed, eof_twice=True)
    run_sequence("mixed, feature() never called", plan_mixed,
                 no_feature_call=True)
    run_sequence("all passing, stale file present", plan_passing)
    run_sequence("all passing, no stale file", plan_passing, stale=False)
    run_sequence("inconsistent statuses, stale", plan_inconsistent)
    run_sequence("no features at all, stale", [])
    run_sequence("no features at all, no stale", [], stale=False)
    run_sequence("nested new dir", plan_mixed, stale=False,
                 path="out/deep/er/rerun.txt")
    formatter = run_sequence("reuse after reset", plan_mixed)
    formatter.reset()
    out("  after reset: %r %r" % (formatter.failed_scenarios,
                                  formatter.current_feature))
    attempt("  close() after reset", formatter.close)
    out("  file=%s" % file_state(target))

    # -- D3: stream given instead of a name (stdout mode).
    for plan, label in ((plan_mixed, "mixed"), (plan_passing, "passing")):
        stream = io.StringIO()
        config = Configuration(command_args=[], load_config=False)
        formatter = RerunFormatter(StreamOpener(stream=stream), config)
        for filename, feature_status, scenario_statuses in plan:
            feature = load(filename)
            force_status(feature, feature_status, scenario_statuses)
            formatter.feature(feature)
            formatter.eof()
        attempt("stream-mode %s close()" % label, formatter.close)
        out("  closed=%r value=%r" % (stream.closed, stream.getvalue()))

    # -- D4: output name is a directory.
    if not os.path.isdir("out/adir"):
        os.makedirs("out/adir")
    formatter = new_formatter("out/adir")
    attempt("close() no failures, name is a directory", formatter.close,)
    out("  state=%s" % file_state("out/adir"))
    formatter = new_formatter("out/adir")
    feature = load("features/delta.feature")
    force_status(feature, E, [E, P, F, N])
    formatter.feature(feature)
    formatter.eof()
    attempt("close() with failures, name is a directory", formatter.close)
    out("  state=%s stream=%r" % (file_state("out/adir"), formatter.stream))

    # -- D5: eof() before any feature; feature objects that raise.
    formatter = new_formatter(target)
    attempt("eof() without feature", formatter.eof)
    out("  %r %r" % (formatter.failed_scenarios, formatter.current_feature))

    class ExplodingFeature(object):
        def __init__(self, when):
            self.when = when
            self.calls = []

        @property
        def status(self):
            self.calls.append("status")
            if self.when == "status":
                raise ValueError("XSTATUS")
            return Status.failed

        def walk_scenarios(self):
            self.calls.append("walk_scenarios")
            if self.when == "walk":
                raise ValueError("XWALK")
            good = load("features/delta.feature").walk_scenarios()
            for scenario in good:
                scenario.set_status(Status.failed)

            class Bad(object):
                @property
                def status(self):
                    raise ValueError("XSCENARIO")
            return good[:2] + [Bad()] + good[2:]

    for when in ("status", "walk", "scenario"):
        formatter = new_formatter(target)
        exploding = ExplodingFeature(when)
        formatter.feature(exploding)
        attempt("eof() exploding at %s" % when, formatter.eof)
        out("  calls=%s collected=%s current_feature_is_set=%r" % (
            exploding.calls,
            [u"%s" % s.location for s in formatter.failed_scenarios],
            formatter.current_feature is exploding))

    class FalsyFeature(object):
        calls = []

        def __bool__(self):
            self.calls.append("bool")
            return False
        __nonzero__ = __bool__

        @property
        def status(self):
            self.calls.append("status")
            return Status.failed

    formatter = new_formatter(target)
    falsy = FalsyFeature()
    formatter.feature(falsy)
    attempt("eof() falsy feature", formatter.eof)
    out("  calls=%s collected=%s current=%r" % (
        falsy.calls, formatter.failed_scenarios, formatter.current_feature))


# ---------------------------------------------------------------------------
# E. END TO END
# ---------------------------------------------------------------------------
def behave(args, label):
    env = dict(os.environ)
    env["PYTHONPATH"] = WORKTREE
    env["PYTHONDONTWRITEBYTECODE"] = "1"
    env["NO_COLOR"] = "1"
    env.pop("BEHAVE_ARGS", None)
    cmd = [PYTHON, "-m", "behave", "--no-color", "-T"] + args
    proc = subprocess.Popen(cmd, cwd=TMPDIR, env=env, stdout=subprocess.PIPE,
                            stderr=subprocess.STDOUT, universal_newlines=True)
    output = proc.communicate()[0]
    out("-- %s: behave %s" % (label, " ".join(args)))
    out("   returncode=%s" % proc.returncode)
    for line in output.splitlines():
        out("   | " + line.rstrip())


def section_end_to_end():
    section("E. End to end: run -> rerun file -> second run")
    rerun = os.path.join(TMPDIR, "rerun.txt")
    rerun2 = os.path.join(TMPDIR, "rerun2.txt")

    behave(["-f", "rerun", "-o", "rerun.txt", "-f", "plain", "features"],
           "run 1 (all features)")
    out("   rerun.txt=%s" % file_state(rerun))
    attempt("   selection from rerun.txt",
            lambda: parse_features(collect_feature_locations(["@rerun.txt"])),
            describe_features)

    behave(["-f", "rerun", "-o", "rerun2.txt", "-f", "plain", "@rerun.txt"],
           "run 2 (fed back)")
    out("   rerun2.txt=%s" % file_state(rerun2))
    out("   fixpoint: %r" % (file_state(rerun) == file_state(rerun2)))

    behave(["-f", "progress", "--dry-run", "@rerun.txt"], "dry-run of rerun file")

    behave(["-f", "rerun", "-o", "rerun.txt", "features/alpha.feature",
            "features/zeta.feature"], "run 3 (only passing: stale removed)")
    out("   rerun.txt=%s" % file_state(rerun))

    behave(["-f", "rerun", "-o", "rerun.txt", "features/alpha.feature"],
           "run 4 (only passing: no previous file)")
    out("   rerun.txt=%s" % file_state(rerun))

    behave(["-f", "rerun", "features/delta.feature", "features/sub"],
           "run 5 (rerun formatter to stdout)")

    behave(["-f", "rerun", "-o", "rerun.txt", "--stop",
            "features/delta.feature", "features/gamma.feature"],
           "run 6 (--stop)")
    out("   rerun.txt=%s" % file_state(rerun))

    behave(["-f", "rerun", "-o", "rerun.txt", "features/beta.feature:41",
            "features/beta.feature:12", "features/gamma.feature:3"],
           "run 7 (locations on command line)")
    out("   rerun.txt=%s" % file_state(rerun))
    behave(["-f", "plain", "@rerun.txt"], "run 8 (fed back again)")

    behave(["-f", "rerun", "-o", "rerun.txt", "--tags=beta", "features"],
           "run 9 (tag selection)")
    out("   rerun.txt=%s" % file_state(rerun))

    write_file("handmade.txt", u"# handmade\n\nfeatures/g*.feature\n"
                               u"  features/sub/epsilon.feature:4  \n"
                               u"features/delta.feature:6\n")
    behave(["-f", "plain", "@handmade.txt"], "run 10 (handmade list, wildcard)")
    behave(["-f", "plain", "@nosuch.txt"], "run 11 (missing list file)")


def main():
    try:
        make_project()
        only = sys.argv[1:]
        sections = [
            ("A", section_status), ("B", section_parsers),
            ("C", section_selection), ("D", section_formatter),
            ("E", section_end_to_end),
        ]
        for key, func in sections:
            if not only or key in only:
                func()
    finally:
        os.chdir("/")
        shutil.rmtree(TMPDIR, ignore_errors=True)


if __name__ == "__main__":
    main()
