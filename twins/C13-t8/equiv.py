# -*- coding: UTF-8 -*-
"""
Equivalence transcript for silent twin C13-t8 (property C13: context scoping
and cleanups).  Prints a canonical transcript of everything observed through
the public behaviour of behave.runner.Context, behave.fixture and of real
"python -m behave" runs.  Run once on the clean tree and once with the patch;
both transcripts must be identical.

Normalisation (documented, applied to BOTH runs): object addresses (0x...),
"line <N>" numbers inside traceback text, durations and the scratch directory
name are replaced by placeholders, because they are not behaviour.
"""
from __future__ import print_function
import sys
sys.path.insert(0, "/tmp/wtU/C13")

import contextlib
import hashlib
import io
import itertools
import os
import random
import re
import shutil
import subprocess
import warnings

from behave.runner import (
    Context, ContextMode, ContextMaskWarning,
    scoped_context_layer, use_context_with_mode,
)
from behave.fixture import (
    fixture, use_fixture, use_fixture_by_tag, use_composite_fixture_with,
    fixture_call_params, InvalidFixtureError,
)

TWIN_ID = "C13-t8"
FOCUS = "model.ScenarioContainer.run: feature and rule layers, hook and cleanup failures"
HERE = os.path.dirname(os.path.abspath(__file__))
WORKDIR = os.path.join(HERE, "_work")

_ADDR = re.compile(r"0x[0-9a-fA-F]+")
_LINE = re.compile(r"line \d+")
_TOOK = re.compile(r"\d+m\d+\.\d+s|\d+\.\d+s")


def norm(text):
    text = text.replace(WORKDIR, "<WORK>")
    text = _ADDR.sub("0xADDR", text)
    text = _LINE.sub("line N", text)
    return text


def emit(text=""):
    for line in norm(text).splitlines() or [""]:
        print(line.rstrip())


# ---------------------------------------------------------------------------
# PART 1: operation histories on a bare Context
# ---------------------------------------------------------------------------
class FakeConfig(object):
    def __init__(self, verbose=False):
        self.verbose = verbose


class FakeRunner(object):
    def __init__(self, verbose=False):
        self.config = FakeConfig(verbose)
        self.formatters = []
        self.captured = "CAPTURED"


class Boom(Exception):
    pass


class World(object):
    """One Context plus a log of everything that happens to it."""
    NAMES = ["a", "b", "text", "feature", "failed", "on_cleanup_error"]

    def __init__(self, raising=(), verbose=False, fail_on_cleanup_errors=None,
                 handler=None):
        self.runner = FakeRunner(verbose)
        self.log = []
        self.raising = set(raising)
        self.counter = itertools.count(1)
        self.cleanup_calls = []
        self.mode_stack = contextlib.ExitStack()
        with warnings.catch_warnings(record=True):
            warnings.simplefilter("always")
            self.context = Context(self.runner)
        if fail_on_cleanup_errors is not None:
            self.context.fail_on_cleanup_errors = fail_on_cleanup_errors
        if handler == "ignore":
            self.context.on_cleanup_error = Context.ignore_cleanup_error
        elif handler == "custom":
            def handler_func(context, cleanup_func, exception):
                self.log.append("    handler(%s, %s: %s)" % (
                    getattr(cleanup_func, "__name__", "?"),
                    exception.__class__.__name__, exception))
            self.context.on_cleanup_error = handler_func

    # -- cleanup functions
    def make_cleanup(self, name, extra=None):
        world = self

        def cleanup(*args, **kwargs):
            world.cleanup_calls.append(name)
            world.log.append("    cleanup %s args=%r kwargs=%r depth=%d" % (
                name, args, sorted(kwargs.items()), len(world.context._stack)))
            if extra:
                extra()
            if name in world.raising:
                raise Boom("boom in %s" % name)
        cleanup.__name__ = str("cleanup_" + name)
        return cleanup

    def new_name(self, prefix):
        return "%s%d" % (prefix, next(self.counter))

    # -- one guarded operation
    def do(self, label, func):
        out = io.StringIO()
        old_stdout = sys.stdout
        sys.stdout = out
        try:
            with warnings.catch_warnings(record=True) as caught:
                warnings.simplefilter("always")
                try:
                    result = func()
                    outcome = "-> %r" % (result,)
                except BaseException as e:  # noqa
                    outcome = "!! %s: %s" % (e.__class__.__name__, e)
        finally:
            sys.stdout = old_stdout
        self.log.append("%s %s" % (label, outcome))
        for w in caught:
            self.log.append("    warning %s: %s" % (w.category.__name__, w.message))
        printed = out.getvalue()
        if printed:
            for line in printed.splitlines():
                self.log.append("    stdout| " + line)

    def snapshot(self):
        c = self.context
        parts = []
        for name in self.NAMES + ["fx", "gen", "shared"]:
            try:
                parts.append("%s=%r" % (name, getattr(c, name)))
            except AttributeError as e:
                parts.append("%s:<%s>" % (name, e))
        parts.append("in:" + "".join(
            "1" if (name in c) else "0" for name in self.NAMES))
        layers = [frame.get("@layer") for frame in c._stack]
        ncleanups = [len(frame.get("@cleanups", [])) for frame in c._stack]
        keys = [sorted(k for k in frame if not k.startswith("@")) for frame in c._stack]
        self.log.append("    state depth=%d layers=%r ncleanups=%r keys=%r errors=%r mode=%s"
                        % (len(c._stack), layers, ncleanups, keys,
                           c._root.get("cleanup_errors"), c._mode.name))
        self.log.append("    view " + " ".join(parts))


# -- the operation alphabet -------------------------------------------------
def op_push_scenario(w):
    w.do("push(scenario)", lambda: w.context._push("scenario"))


def op_push_feature(w):
    w.do("push(feature)", lambda: w.context._push(layer="feature"))


def op_push_rule(w):
    w.do("push(rule)", lambda: w.context._push("rule"))


def op_push_anon(w):
    w.do("push()", lambda: w.context._push())


def op_pop(w):
    if len(w.context._stack) <= 1:
        w.log.append("pop skipped (root)")
        return
    w.do("pop", lambda: w.context._pop())


def op_set_a(w):
    value = w.new_name("va")
    w.do("set a=%s" % value, lambda: setattr(w.context, "a", value))


def op_set_b(w):
    value = w.new_name("vb")
    w.do("set b=%s" % value, lambda: setattr(w.context, "b", value))


def op_set_text(w):
    value = w.new_name("txt")
    w.do("set text=%s" % value, lambda: setattr(w.context, "text", value))


def op_set_feature(w):
    value = w.new_name("feat")
    w.do("set feature=%s" % value, lambda: setattr(w.context, "feature", value))


def op_get_a(w):
    w.do("get a", lambda: w.context.a)


def op_get_b(w):
    w.do("get b", lambda: getattr(w.context, "b"))


def op_get_private(w):
    w.do("get _nope", lambda: w.context._nope)
    w.do("in _nope/_stack", lambda: ("_nope" in w.context, "_stack" in w.context))


def op_del_a(w):
    w.do("del a", lambda: delattr(w.context, "a"))


def op_del_b(w):
    w.do("del b", lambda: delattr(w.context, "b"))


def op_del_text(w):
    w.do("del text", lambda: delattr(w.context, "text"))


def op_contains(w):
    w.do("contains a,b,zz", lambda: ("a" in w.context, "b" in w.context, "zz" in w.context))


def op_set_root_a(w):
    value = w.new_name("ra")
    w.do("set_root a=%s" % value, lambda: w.context._set_root_attribute("a", value))


def op_set_root_failed(w):
    w.do("set_root failed=True", lambda: w.context._set_root_attribute("failed", True))


def op_abort(w):
    w.do("abort", lambda: w.context.abort())
    w.do("get aborted", lambda: w.context.aborted)


def op_use_or_assign(w):
    value = w.new_name("ua")
    w.do("use_or_assign b=%s" % value, lambda: w.context.use_or_assign_param("b", value))


def op_use_or_create(w):
    value = w.new_name("uc")
    calls = []

    def factory(x, y=0):
        calls.append((x, y))
        return "%s-%s-%s" % (value, x, y)
    w.do("use_or_create a", lambda: w.context.use_or_create_param("a", factory, 1, y=2))
    w.log.append("    factory calls=%r" % calls)


def op_cleanup_plain(w):
    name = w.new_name("p")
    w.do("add_cleanup %s" % name, lambda: w.context.add_cleanup(w.make_cleanup(name)))


def op_cleanup_raising(w):
    name = w.new_name("x")
    w.raising.add(name)
    w.do("add_cleanup(raising) %s" % name, lambda: w.context.add_cleanup(w.make_cleanup(name)))


def op_cleanup_args(w):
    name = w.new_name("q")
    w.do("add_cleanup %s args" % name,
         lambda: w.context.add_cleanup(w.make_cleanup(name), 1, "two", key="v"))


def op_cleanup_args_raising(w):
    name = w.new_name("y")
    w.raising.add(name)
    w.do("add_cleanup(raising) %s args" % name,
         lambda: w.context.add_cleanup(w.make_cleanup(name), 3))


def op_cleanup_dup(w):
    name = w.new_name("d")
    func = w.make_cleanup(name)
    w.do("add_cleanup %s" % name, lambda: w.context.add_cleanup(func))
    w.do("add_cleanup %s again" % name, lambda: w.context.add_cleanup(func))
    w.do("add_cleanup %s again+args" % name, lambda: w.context.add_cleanup(func, 9))
    w.do("add_cleanup %s again+args2" % name, lambda: w.context.add_cleanup(func, 9))


def _op_cleanup_layer(layer):
    def op(w):
        name = w.new_name("L" + layer[0])
        w.do("add_cleanup %s layer=%s" % (name, layer),
             lambda: w.context.add_cleanup(w.make_cleanup(name), layer=layer))
    op.__name__ = str("op_cleanup_layer_" + layer)
    return op


op_cleanup_layer_testrun = _op_cleanup_layer("testrun")
op_cleanup_layer_feature = _op_cleanup_layer("feature")
op_cleanup_layer_rule = _op_cleanup_layer("rule")
op_cleanup_layer_scenario = _op_cleanup_layer("scenario")
op_cleanup_layer_unknown = _op_cleanup_layer("nowhere")


def op_cleanup_layer_args(w):
    name = w.new_name("La")
    w.do("add_cleanup %s layer=feature args" % name,
         lambda: w.context.add_cleanup(w.make_cleanup(name), "A", layer="feature", k=1))


def op_cleanup_not_callable(w):
    w.do("add_cleanup(42)", lambda: w.context.add_cleanup(42))


def op_cleanup_nested(w):
    """A cleanup that registers a further cleanup and sets attributes while running."""
    name = w.new_name("n")
    inner = w.new_name("ni")

    def extra():
        w.context.add_cleanup(w.make_cleanup(inner))
        w.context.late = "late-" + name
    w.do("add_cleanup %s (registers %s when run)" % (name, inner),
         lambda: w.context.add_cleanup(w.make_cleanup(name, extra)))


def op_cleanup_unnamed(w):
    """Callable object without __name__ that raises (exercises the error printer)."""
    name = w.new_name("u")

    class Unnamed(object):
        def __call__(self):
            w.cleanup_calls.append(name)
            w.log.append("    cleanup %s (unnamed)" % name)
            raise Boom("boom in %s" % name)

        def __repr__(self):
            return "<Unnamed %s>" % name
    w.do("add_cleanup %s unnamed raising" % name, lambda: w.context.add_cleanup(Unnamed()))


def op_fixture_gen(w):
    name = w.new_name("g")

    @fixture
    def gen_fixture(context, *args, **kwargs):
        w.log.append("    fixture %s setup args=%r kwargs=%r" % (name, args, sorted(kwargs.items())))
        context.gen = name
        yield "obj-" + name
        w.cleanup_calls.append(name)
        w.log.append("    fixture %s cleanup" % name)
        if name in w.raising:
            raise Boom("boom in fixture %s" % name)
    w.do("use_fixture gen %s" % name, lambda: use_fixture(gen_fixture, w.context, 1, k=2))


def op_fixture_gen_raising_cleanup(w):
    name = w.new_name("gx")
    w.raising.add(name)

    @fixture(name="fixture.gx")
    def gen_fixture(context):
        w.log.append("    fixture %s setup" % name)
        yield name
        w.cleanup_calls.append(name)
        w.log.append("    fixture %s cleanup" % name)
        raise Boom("boom in fixture %s" % name)
    w.do("use_fixture gen(raising cleanup) %s" % name, lambda: use_fixture(gen_fixture, w.context))


def op_fixture_plain(w):
    name = w.new_name("f")

    @fixture
    def plain_fixture(context, *args, **kwargs):
        w.log.append("    fixture %s plain setup args=%r" % (name, args))
        context.fx = name
        context.add_cleanup(w.make_cleanup(name + "c"), "from-fixture")
        return "plain-" + name
    w.do("use_fixture plain %s" % name, lambda: use_fixture(plain_fixture, w.context, "z"))


def op_fixture_bad_setup(w):
    name = w.new_name("b")

    @fixture
    def bad_fixture(context):
        w.log.append("    fixture %s setup then fails" % name)
        context.fx = name
        raise Boom("setup failed in %s" % name)
        yield  # pragma: no cover
    w.do("use_fixture failing-setup gen %s" % name, lambda: use_fixture(bad_fixture, w.context))


def op_fixture_bad_plain(w):
    name = w.new_name("bp")

    def bad_plain(context):
        raise Boom("plain setup failed in %s" % name)
    w.do("use_fixture failing plain %s" % name, lambda: use_fixture(bad_plain, w.context))


def op_fixture_two_yields(w):
    name = w.new_name("t")

    @fixture
    def two_yields(context):
        yield 1
        w.cleanup_calls.append(name)
        w.log.append("    fixture %s cleanup-part" % name)
        yield 2
    w.do("use_fixture two-yields %s" % name, lambda: use_fixture(two_yields, w.context))


def op_fixture_no_yield_reached(w):
    name = w.new_name("e")

    @fixture
    def empty_gen(context):
        w.log.append("    fixture %s returns before yield" % name)
        return
        yield  # pragma: no cover
    w.do("use_fixture empty-gen %s" % name, lambda: use_fixture(empty_gen, w.context))


def op_fixture_composite(w):
    name = w.new_name("c")

    @fixture
    def part(context, tag, fail=False):
        w.log.append("    fixture %s.%s setup" % (name, tag))
        if fail:
            raise Boom("composite part %s.%s failed" % (name, tag))
        yield "%s.%s" % (name, tag)
        w.cleanup_calls.append("%s.%s" % (name, tag))
        w.log.append("    fixture %s.%s cleanup" % (name, tag))

    def plain_part(context, tag):
        return "plain.%s" % tag

    @fixture
    def composite(context, fail_third):
        return use_composite_fixture_with(context, [
            fixture_call_params(part, "one"),
            fixture_call_params(plain_part, "two"),
            fixture_call_params(part, "three", fail=fail_third),
            fixture_call_params(part, "four"),
        ])
    w.flip = not getattr(w, "flip", True)
    fail_third = w.flip
    w.do("use_fixture composite %s fail_third=%s" % (name, fail_third),
         lambda: use_fixture(composite, w.context, fail_third))


def op_fixture_by_tag(w):
    name = w.new_name("bt")

    @fixture
    def tagged(context, *args, **kwargs):
        w.log.append("    fixture %s tagged setup args=%r kwargs=%r" % (name, args, sorted(kwargs.items())))
        yield (args, sorted(kwargs.items()))
        w.cleanup_calls.append(name)
        w.log.append("    fixture %s tagged cleanup" % name)
    registry = {
        "fixture.one": tagged,
        "fixture.two": (tagged, (1, 2), dict(k=3)),
        "fixture.three": [tagged, [], {}],
        "fixture.bad": 42,
    }
    for tag in ["fixture.one", "fixture.two", "fixture.three", "fixture.bad", "fixture.unknown"]:
        w.do("use_fixture_by_tag %s" % tag, lambda: use_fixture_by_tag(tag, w.context, registry))


def op_mode_user(w):
    w.do("enter user mode", lambda: w.mode_stack.enter_context(w.context.use_with_user_mode()))


def op_mode_behave(w):
    w.do("enter behave mode", lambda: w.mode_stack.enter_context(w.context._use_with_behave_mode()))


def op_mode_exit(w):
    w.do("leave modes", lambda: w.mode_stack.close())


def op_scoped_layer(w):
    name = w.new_name("s")

    def run():
        with scoped_context_layer(w.context, layer="scenario") as ctx:
            ctx.a = "scoped-" + name
            ctx.add_cleanup(w.make_cleanup(name))
            ctx.add_cleanup(w.make_cleanup(name + "f"), layer="scenario")
            return (ctx.a, len(ctx._stack))
    w.do("scoped_context_layer %s" % name, run)


def op_scoped_layer_body_raises(w):
    name = w.new_name("sr")
    w.raising.add(name)

    def run():
        with scoped_context_layer(w.context):
            w.context.add_cleanup(w.make_cleanup(name))
            w.context.add_cleanup(w.make_cleanup(name + "ok"))
            raise ValueError("body of %s" % name)
    w.do("scoped_context_layer(body raises, cleanup raises) %s" % name, run)


def op_do_cleanups_only(w):
    w.do("_do_cleanups (no pop)", lambda: w.context._do_cleanups())


def op_toggle_fail_on_errors(w):
    def run():
        w.context.fail_on_cleanup_errors = not w.context.fail_on_cleanup_errors
        return w.context.fail_on_cleanup_errors
    w.do("toggle fail_on_cleanup_errors", run)


CORE_OPS = [
    op_push_scenario, op_push_feature, op_pop, op_set_a, op_get_a, op_del_a,
    op_set_root_a, op_cleanup_plain, op_cleanup_raising, op_cleanup_layer_feature,
    op_fixture_gen, op_mode_user,
]
ALL_OPS = CORE_OPS + [
    op_push_rule, op_push_anon, op_set_b, op_set_text, op_set_feature, op_get_b,
    op_get_private, op_del_b, op_del_text, op_contains, op_set_root_failed,
    op_abort, op_use_or_assign, op_use_or_create, op_cleanup_args,
    op_cleanup_args_raising, op_cleanup_dup, op_cleanup_layer_testrun,
    op_cleanup_layer_rule, op_cleanup_layer_scenario, op_cleanup_layer_unknown,
    op_cleanup_layer_args, op_cleanup_not_callable, op_cleanup_nested,
    op_cleanup_unnamed, op_fixture_gen_raising_cleanup, op_fixture_plain,
    op_fixture_bad_setup, op_fixture_bad_plain, op_fixture_two_yields,
    op_fixture_no_yield_reached, op_fixture_composite, op_fixture_by_tag,
    op_mode_behave, op_mode_exit, op_scoped_layer, op_scoped_layer_body_raises,
    op_do_cleanups_only, op_toggle_fail_on_errors, op_pop, op_pop,
]


def run_history(ops, snapshot_each=True, **world_kwargs):
    w = World(**world_kwargs)
    for op in ops:
        op(w)
        if snapshot_each:
            w.snapshot()
    # -- unwind everything that is left, innermost first
    w.mode_stack.close()
    while len(w.context._stack) > 1:
        w.do("final pop", lambda: w.context._pop())
    w.do("final _do_cleanups(root)", lambda: w.context._do_cleanups())
    w.snapshot()
    w.log.append("cleanup order: %s" % " ".join(w.cleanup_calls))
    return w.log


def part1_scripted():
    emit("=== PART 1a: scripted histories")
    scripts = {
        "shadowing": [op_set_a, op_push_feature, op_get_a, op_set_a, op_push_scenario,
                      op_set_a, op_get_a, op_del_a, op_get_a, op_del_a, op_pop, op_get_a,
                      op_pop, op_get_a, op_del_a, op_get_a],
        "root-attr": [op_push_feature, op_set_a, op_push_scenario, op_set_a, op_set_root_a,
                      op_get_a, op_pop, op_get_a, op_pop, op_get_a, op_set_root_failed, op_abort],
        "user-vs-behave": [op_set_a, op_mode_user, op_push_scenario, op_set_a, op_set_b,
                           op_set_feature, op_set_text, op_mode_behave, op_push_anon, op_set_b,
                           op_set_a, op_set_root_a, op_mode_exit, op_pop, op_pop],
        "lifo-all-kinds": [op_push_feature, op_cleanup_plain, op_cleanup_args, op_push_rule,
                           op_cleanup_plain, op_push_scenario, op_cleanup_layer_testrun,
                           op_cleanup_layer_feature, op_cleanup_layer_rule,
                           op_cleanup_layer_scenario, op_cleanup_layer_unknown,
                           op_cleanup_layer_args, op_cleanup_plain, op_fixture_gen,
                           op_fixture_plain, op_cleanup_dup, op_pop, op_pop, op_pop],
        "raising": [op_push_feature, op_cleanup_plain, op_cleanup_raising, op_cleanup_plain,
                    op_push_scenario, op_cleanup_args_raising, op_cleanup_raising,
                    op_cleanup_unnamed, op_fixture_gen_raising_cleanup, op_cleanup_plain,
                    op_pop, op_get_a, op_pop],
        "fixtures": [op_push_scenario, op_fixture_gen, op_fixture_bad_setup, op_fixture_plain,
                     op_fixture_bad_plain, op_fixture_two_yields, op_fixture_no_yield_reached,
                     op_fixture_composite, op_fixture_composite, op_fixture_by_tag, op_pop],
        "nested-registration": [op_push_scenario, op_cleanup_plain, op_cleanup_nested,
                                op_cleanup_plain, op_do_cleanups_only, op_do_cleanups_only,
                                op_pop],
        "scoped-layer": [op_scoped_layer, op_push_feature, op_scoped_layer,
                         op_scoped_layer_body_raises, op_get_a, op_pop],
        "misc": [op_cleanup_not_callable, op_get_private, op_contains, op_use_or_assign,
                 op_use_or_assign, op_use_or_create, op_use_or_create, op_push_scenario,
                 op_use_or_assign, op_use_or_create, op_del_b, op_del_text, op_set_text,
                 op_del_text, op_pop],
    }
    for title in sorted(scripts):
        for variant in [dict(), dict(verbose=True), dict(fail_on_cleanup_errors=False),
                        dict(handler="ignore"), dict(handler="custom")]:
            emit("--- script %s %r" % (title, sorted(variant.items())))
            for line in run_history(scripts[title], **variant):
                emit(line)


def part1_exhaustive(max_len):
    emit("=== PART 1b: exhaustive histories over %d core operations, length <= %d"
         % (len(CORE_OPS), max_len))
    total = 0
    for length in range(1, max_len + 1):
        for combo in itertools.product(range(len(CORE_OPS)), repeat=length):
            ops = [CORE_OPS[i] for i in combo]
            log = run_history(ops, snapshot_each=(length <= 2))
            digest = hashlib.sha1(norm("\n".join(log)).encode("utf-8")).hexdigest()[:16]
            last = [line for line in log if line.startswith("cleanup order:")][-1]
            emit("%s %s %s" % ("".join("%x" % i for i in combo), digest, last))
            total += 1
    emit("exhaustive histories: %d" % total)


def part1_random(count, seed):
    emit("=== PART 1c: %d random histories (seed %d)" % (count, seed))
    rng = random.Random(seed)
    for index in range(count):
        length = rng.randint(8, 40)
        ops = [rng.choice(ALL_OPS) for _ in range(length)]
        variant = rng.choice([dict(), dict(), dict(verbose=True),
                              dict(fail_on_cleanup_errors=False),
                              dict(handler="ignore"), dict(handler="custom")])
        emit("--- random %d %r" % (index, sorted(variant.items())))
        for line in run_history(ops, **variant):
            emit(line)


def part1_edge():
    emit("=== PART 1d: edge cases")
    # -- popping the root layer, then using the empty context
    w = World()
    w.do("add_cleanup on root", lambda: w.context.add_cleanup(w.make_cleanup("root1")))
    w.do("pop root", lambda: w.context._pop())
    w.do("stack", lambda: list(w.context._stack))
    w.do("get a on empty", lambda: w.context.a)
    w.do("contains on empty", lambda: "a" in w.context)
    w.do("set a on empty", lambda: setattr(w.context, "a", 1))
    w.do("del a on empty", lambda: delattr(w.context, "a"))
    w.do("add_cleanup on empty", lambda: w.context.add_cleanup(w.make_cleanup("e1")))
    w.do("add_cleanup layer on empty", lambda: w.context.add_cleanup(w.make_cleanup("e2"), layer="feature"))
    w.do("_do_cleanups on empty", lambda: w.context._do_cleanups())
    w.do("_pop on empty", lambda: w.context._pop())
    w.do("set_root on empty", lambda: w.context._set_root_attribute("r", 1))
    w.do("get r", lambda: w.context._root["r"])
    for line in w.log:
        emit(line)
    # -- frames without @cleanups / odd attribute names
    w = World()
    w.context._stack.insert(0, {"@layer": "feature"})
    w.do("add_cleanup into frame without @cleanups", lambda: w.context.add_cleanup(w.make_cleanup("k1")))
    w.do("pop frame without @cleanups", lambda: w.context._pop())
    w.do("set '@layer'", lambda: setattr(w.context, "@layer", "mine"))
    w.do("push", lambda: w.context._push("scenario"))
    w.do("set '@cleanups' in inner", lambda: setattr(w.context, "@cleanups", []))
    w.do("set '@layer' in inner", lambda: setattr(w.context, "@layer", "feature"))
    w.do("add_cleanup layer=feature", lambda: w.context.add_cleanup(w.make_cleanup("k2"), layer="feature"))
    w.do("add_cleanup layer=mine", lambda: w.context.add_cleanup(w.make_cleanup("k3"), layer="mine"))
    w.do("get ''", lambda: getattr(w.context, ""))
    w.do("set ''", lambda: setattr(w.context, "", 1))
    w.do("contains ''", lambda: "" in w.context)
    w.do("pop", lambda: w.context._pop())
    w.do("root cleanups", lambda: w.context._do_cleanups())
    w.do("set _private", lambda: setattr(w.context, "_private", 5))
    w.do("get _private", lambda: (w.context._private, "_private" in w.context))
    w.do("del _private", lambda: delattr(w.context, "_private"))
    w.do("captured", lambda: w.context.captured)
    w.do("user_mode()", lambda: w.context.user_mode().__class__.__name__)
    w.do("bad mode", lambda: use_context_with_mode(w.context, 3).__enter__())
    for line in w.log:
        emit(line)
    # -- masking warnings: who set what, in which mode, at which depth
    for verbose in (False, True):
        for first_mode, second_mode in itertools.product(("behave", "user"), repeat=2):
            for how in ("setattr", "set_root"):
                w = World(verbose=verbose)
                c = w.context

                def in_mode(mode, func):
                    manager = (c.use_with_user_mode() if mode == "user"
                               else c._use_with_behave_mode())
                    with manager:
                        return func()
                w.do("first set in %s mode" % first_mode,
                     lambda: in_mode(first_mode, lambda: setattr(c, "m", 1)))
                c._push("feature")
                c._push("scenario")
                if how == "setattr":
                    w.do("second set in %s mode (depth 3)" % second_mode,
                         lambda: in_mode(second_mode, lambda: setattr(c, "m", 2)))
                    w.do("third set same depth", lambda: in_mode(second_mode, lambda: setattr(c, "m", 3)))
                    c._push()
                    w.do("fourth set (depth 4, shadows two)",
                         lambda: in_mode(second_mode, lambda: setattr(c, "m", 4)))
                else:
                    w.do("inner set", lambda: in_mode(first_mode, lambda: setattr(c, "m", 2)))
                    w.do("set_root in %s mode" % second_mode,
                         lambda: in_mode(second_mode, lambda: c._set_root_attribute("m", 9)))
                    w.do("set_root new attr", lambda: in_mode(second_mode, lambda: c._set_root_attribute("fresh", 1)))
                    w.do("set fresh inner", lambda: in_mode(first_mode, lambda: setattr(c, "fresh", 2)))
                w.do("origin", lambda: sorted((k, v.name) for k, v in c._origin.items()))
                w.do("record keys", lambda: sorted(c._record))
                w.do("record functions", lambda: sorted((k, v[2]) for k, v in c._record.items()))
                emit("--- masking verbose=%s first=%s second=%s how=%s"
                     % (verbose, first_mode, second_mode, how))
                for line in w.log:
                    emit(line)


# ---------------------------------------------------------------------------
# PART 2: real runs
# ---------------------------------------------------------------------------
ENVIRONMENT_PY = r'''
from __future__ import print_function
import os
from behave.fixture import fixture, use_fixture

RAISE = set(filter(None, os.environ.get("C13_RAISE", "").split(",")))
LOG = os.environ["C13_LOG"]
NAMES = ["allattr", "featattr", "ruleattr", "scenattr", "stepattr", "x", "shadow",
         "fixobj", "bgattr"]


def log(message):
    with open(LOG, "a") as f:
        f.write(message + "\n")


def view(context):
    parts = []
    for name in NAMES:
        parts.append("%s=%s" % (name, getattr(context, name, "<absent>")))
    layers = [frame.get("@layer") for frame in context._stack]
    return " ".join(parts) + " layers=%r" % layers


def make_cleanup(context, name):
    def cleanup(*args):
        log("CLEANUP %s args=%r | %s" % (name, args, view(context)))
        if name in RAISE:
            raise RuntimeError("cleanup %s raises" % name)
    cleanup.__name__ = str("cleanup_" + name)
    return cleanup


def hook(context, name, attr=None, value=None):
    log("HOOK %s | %s" % (name, view(context)))
    if attr:
        setattr(context, attr, value)
    context.add_cleanup(make_cleanup(context, "c_" + name))
    context.add_cleanup(make_cleanup(context, "c2_" + name), name)
    if name in RAISE:
        raise RuntimeError("hook %s raises" % name)


@fixture(name="fixture.gen")
def gen_fixture(context, label="default"):
    log("FIXTURE setup %s" % label)
    context.fixobj = "fix-" + label
    yield context.fixobj
    log("FIXTURE cleanup %s | %s" % (label, view(context)))
    if "fixture_" + label in RAISE:
        raise RuntimeError("fixture %s cleanup raises" % label)


@fixture(name="fixture.badsetup")
def bad_fixture(context):
    log("FIXTURE badsetup")
    context.add_cleanup(make_cleanup(context, "c_badsetup"))
    raise RuntimeError("fixture setup raises")
    yield


def before_all(context):
    context.make_cleanup = make_cleanup
    context.c13log = log
    context.c13view = view
    hook(context, "before_all", "allattr", "ALL")
    context.shadow = "shadow-all"


def after_all(context):
    hook(context, "after_all")


def before_feature(context, feature):
    hook(context, "before_feature:" + feature.name, "featattr", "feat-" + feature.name)
    context.shadow = "shadow-" + feature.name


def after_feature(context, feature):
    hook(context, "after_feature:" + feature.name)


def before_rule(context, rule):
    hook(context, "before_rule:" + rule.name, "ruleattr", "rule-" + rule.name)


def after_rule(context, rule):
    hook(context, "after_rule:" + rule.name)


def before_scenario(context, scenario):
    hook(context, "before_scenario:" + scenario.name, "scenattr", "scen-" + scenario.name)
    if "skipme" in scenario.effective_tags:
        scenario.skip("skipped by hook")


def after_scenario(context, scenario):
    hook(context, "after_scenario:" + scenario.name)
    log("STATUS scenario %s = %s" % (scenario.name, scenario.status.name))


def before_step(context, step):
    log("HOOK before_step:%s text=%r table=%r" % (
        step.name, context.text, context.table and context.table.headings))


def after_step(context, step):
    log("HOOK after_step:%s status=%s" % (step.name, step.status.name))


def before_tag(context, tag):
    log("HOOK before_tag:%s" % tag)
    if tag == "fixture.gen":
        use_fixture(gen_fixture, context, label="L%d" % len(context._stack))
    elif tag == "fixture.badsetup":
        use_fixture(bad_fixture, context)


def after_tag(context, tag):
    log("HOOK after_tag:%s" % tag)
'''

STEPS_PY = r'''
# -*- coding: UTF-8 -*-
from __future__ import print_function
from behave import given, when, then, step


@step(u'I set "{name}" to "{value}"')
def step_set(context, name, value):
    setattr(context, name, value)
    context.c13log("STEP set %s=%s | %s" % (name, value, context.c13view(context)))


@step(u'attr "{name}" equals "{value}"')
def step_is(context, name, value):
    actual = getattr(context, name, "<absent>")
    context.c13log("STEP check %s: %s" % (name, actual))
    assert str(actual) == value, "%s: %r != %r" % (name, actual, value)


@step(u'attr "{name}" is absent')
def step_absent(context, name):
    context.c13log("STEP absent %s: %s" % (name, name in context))
    assert name not in context


@step(u'I delete "{name}"')
def step_delete(context, name):
    try:
        delattr(context, name)
        context.c13log("STEP delete %s ok" % name)
    except AttributeError as e:
        context.c13log("STEP delete %s: AttributeError: %s" % (name, e))


@step(u'I add plain cleanup "{name}"')
def step_cleanup(context, name):
    context.add_cleanup(context.make_cleanup(context, name))


@step(u'I add args cleanup "{name}"')
def step_cleanup_args(context, name):
    context.add_cleanup(context.make_cleanup(context, name), "arg1", 2)


@step(u'I add layer cleanup "{name}" for "{layer}"')
def step_cleanup_layer(context, name, layer):
    try:
        context.add_cleanup(context.make_cleanup(context, name), layer=layer)
    except LookupError as e:
        context.c13log("STEP layer %s: LookupError: %s" % (layer, e))


@step(u'a step that fails')
def step_fails(context):
    assert False, "this step fails"


@step(u'a step that raises')
def step_raises(context):
    raise RuntimeError("this step raises")


@step(u'a passing step')
def step_passes(context):
    pass


@step(u'bg step sets "{name}"')
def step_bg(context, name):
    setattr(context, name, "bg")


@step(u'a leaf step')
def step_leaf(context):
    context.c13log("STEP leaf text=%r table=%r" % (
        context.text, context.table and [list(r) for r in context.table.rows]))


@step(u'I run substeps')
def step_substeps(context):
    context.c13log("STEP substeps before text=%r table=%r" % (
        context.text, context.table and context.table.headings))
    result = context.execute_steps(u"""
        Given a leaf step
          | inner |
          | 1     |
        When a leaf step
          \"\"\"
          inner text
          \"\"\"
        Then I set "x" to "from-substep"
    """)
    context.c13log("STEP substeps after result=%r text=%r table=%r mode=%s" % (
        result, context.text, context.table and context.table.headings,
        context._mode.name))


@step(u'I run failing substeps')
def step_failing_substeps(context):
    try:
        context.execute_steps(u"""
            Given a passing step
            When a step that fails
            Then a passing step
        """)
    except AssertionError as e:
        lines = str(e).splitlines()
        context.c13log("STEP failing substeps: AssertionError: %s" % lines[:3])
    context.c13log("STEP failing substeps after text=%r table=%r" % (
        context.text, context.table and context.table.headings))
    try:
        context.execute_steps(u"""
            Given a step that does not exist
        """)
    except AssertionError as e:
        context.c13log("STEP undefined substep: AssertionError: %s" % str(e).splitlines()[:1])
    try:
        context.execute_steps(u"""
            Given a step that raises
        """)
    except AssertionError as e:
        context.c13log("STEP raising substep: AssertionError: %s" % str(e).splitlines()[:3])
    try:
        context.execute_steps(u"not gherkin at all")
    except Exception as e:
        context.c13log("STEP bad substeps: %s: %s" % (e.__class__.__name__, e))
    context.c13log("STEP after all substeps text=%r table=%r" % (
        context.text, context.table and context.table.headings))
'''

ALPHA_FEATURE = u'''
@fixture.gen @alpha
Feature: Alpha
  Background:
    Given bg step sets "bgattr"

  @s1 @fixture.gen
  Scenario: A1
    Given I set "x" to "1"
    And I set "shadow" to "shadow-A1"
    When I add plain cleanup "c_a1"
    And I add args cleanup "c_a1_args"
    Then attr "x" equals "1"
    And attr "shadow" equals "shadow-A1"
    And I delete "shadow"
    And attr "shadow" equals "shadow-Alpha"
    And I delete "shadow"
    And I delete "featattr"

  Scenario: A2
    Then attr "x" is absent
    And attr "featattr" equals "feat-Alpha"
    And attr "shadow" equals "shadow-Alpha"
    And attr "allattr" equals "ALL"

  Scenario: A3 substeps
    When I run substeps
      | outer | table |
      | 1     | 2     |
    Then attr "x" equals "from-substep"
    When I run failing substeps
      """
      outer text
      """
    Then a passing step

  @skipme
  Scenario: A4 skipped by hook
    Given a step that fails

  Rule: R1
    Background:
      Given a passing step

    Scenario: A5 layers
      Given I add layer cleanup "c_a5_rule" for "rule"
      And I add layer cleanup "c_a5_feature" for "feature"
      And I add layer cleanup "c_a5_testrun" for "testrun"
      And I add layer cleanup "c_a5_scenario" for "scenario"
      And I add layer cleanup "c_a5_nowhere" for "nowhere"
      And I add plain cleanup "c_a5"
      Then attr "ruleattr" equals "rule-R1"

    @fixture.badsetup
    Scenario: A6 bad fixture
      Given a passing step

  @ruletag
  Rule: R2
    Scenario Outline: A7 <name>
      Given I set "x" to "<value>"
      And I add plain cleanup "c_a7_<name>"
      Then attr "x" equals "<value>"
      And attr "ruleattr" equals "rule-R2"

      Examples:
        | name | value |
        | one  | 1     |
        | two  | 2     |
'''

BETA_FEATURE = u'''
@beta
Feature: Beta
  Scenario: B1 failing step
    Given I add plain cleanup "c_b1"
    When a step that fails
    Then a passing step

  Scenario: B2 raising step
    Given I add plain cleanup "c_b2"
    When a step that raises
    Then a passing step

  Scenario: B3 undefined
    Given I add plain cleanup "c_b3"
    When an undefined step
    Then a passing step

  Scenario: B4 passes
    Given a passing step
    Then attr "featattr" equals "feat-Beta"
'''

GAMMA_FEATURE = u'''
Feature: Gamma
'''

DELTA_FEATURE = u'''
@fixture.gen
Feature: Delta
  Scenario: D1
    Given I add plain cleanup "c_d1"
    And I add layer cleanup "c_d1_feature" for "feature"

  Rule: DR
    Scenario: D2
      Given I add layer cleanup "c_d2_rule" for "rule"
      And a passing step

    Scenario: D3
      Given a passing step
'''

DELTA = "features/delta.feature"
RUNS = [
    ("delta-all-pass", [DELTA], ""),
    ("delta-scenario-cleanup", [DELTA], "c_d1"),
    ("delta-feature-cleanup", [DELTA], "c_d1_feature"),
    ("delta-rule-cleanup", [DELTA], "c_d2_rule"),
    ("delta-feature-fixture-cleanup", [DELTA], "fixture_L2"),
    ("delta-testrun-cleanup", [DELTA], "c_before_all"),
    ("delta-before-feature-hook", [DELTA], "before_feature:Delta"),
    ("delta-after-feature-hook", [DELTA], "after_feature:Delta"),
    ("delta-before-rule-hook", [DELTA], "before_rule:DR"),
    ("delta-after-rule-hook", [DELTA], "after_rule:DR"),
    ("delta-stop-after-d2", [DELTA, "--stop"], "c_before_scenario:D2"),
    ("delta-stop-after-d1", [DELTA, "--stop"], "c_d1"),
    ("delta-dry-run", [DELTA, "--dry-run"], "c_d1_feature"),
    ("delta-skipped", [DELTA, "--tags=nope", "--show-skipped"], "c_d1_feature"),
    ("plain", [], ""),
    ("raise-scenario-cleanup", [], "c_a1"),
    ("raise-scenario-cleanups-all", [], "c_a1,c_a1_args,c_before_scenario:A1,c2_before_scenario:A1,fixture_L4"),
    ("raise-feature-cleanup", [], "c_before_feature:Alpha"),
    ("raise-feature-fixture", [], "fixture_L2"),
    ("raise-rule-cleanup", [], "c_a5_rule,c_before_rule:R2"),
    ("raise-testrun-cleanup", [], "c_a5_testrun"),
    ("raise-before-all-cleanup", [], "c_before_all,c_after_all"),
    ("raise-layered-from-step", [], "c_a5_feature,c_a5_scenario,c_a5"),
    ("raise-outline-cleanup", [], "c_a7_two"),
    ("raise-failed-scenario-cleanup", [], "c_b1,c_b3"),
    ("raise-hooks", [], "before_scenario:A2,after_scenario:A5 layers,c_after_scenario:A5 layers"),
    ("raise-feature-hooks", [], "before_feature:Beta,c_before_feature:Beta"),
    ("raise-rule-hooks", [], "before_rule:R1,after_rule:R2"),
    ("raise-after-feature", [], "after_feature:Alpha,c_after_feature:Alpha"),
    ("raise-before-all", [], "before_all"),
    ("raise-badsetup-cleanup", [], "c_badsetup"),
    ("dry-run", ["--dry-run"], "c_a1"),
    ("stop", ["--stop"], "c_a1,c_b1"),
    ("tags-s1", ["--tags=s1"], "c_a1"),
    ("tags-s1-show-skipped", ["--tags=s1", "--show-skipped"], "c_before_feature:Alpha"),
    ("tags-not-alpha", ["--tags=not alpha", "--show-skipped"], "c_b2"),
    ("name-select", ["--name=A5", "--show-skipped"], "c_a5_rule"),
    ("junit", ["--junit", "--junit-directory=reports"], "c_a1,c_b1"),
    ("no-capture", ["--no-capture"], "c_a1,c_before_feature:Beta"),
    ("pretty", ["-f", "pretty", "--no-color"], "c_a1,c_a5_feature"),
    ("json", ["-f", "json.pretty"], "c_a1,c_before_rule:R1"),
]


def write(path, text):
    with io.open(path, "w", encoding="utf-8") as f:
        f.write(text)


def part2_real_runs():
    emit("=== PART 2: real runs")
    if os.path.exists(WORKDIR):
        shutil.rmtree(WORKDIR)
    os.makedirs(os.path.join(WORKDIR, "features", "steps"))
    write(os.path.join(WORKDIR, "features", "environment.py"), ENVIRONMENT_PY)
    write(os.path.join(WORKDIR, "features", "steps", "steps.py"), STEPS_PY)
    write(os.path.join(WORKDIR, "features", "alpha.feature"), ALPHA_FEATURE)
    write(os.path.join(WORKDIR, "features", "beta.feature"), BETA_FEATURE)
    write(os.path.join(WORKDIR, "features", "gamma.feature"), GAMMA_FEATURE)
    write(os.path.join(WORKDIR, "features", "delta.feature"), DELTA_FEATURE)
    logfile = os.path.join(WORKDIR, "events.log")
    try:
        for title, options, raising in RUNS:
            if os.path.exists(logfile):
                os.remove(logfile)
            env = dict(os.environ)
            env["PYTHONPATH"] = "/tmp/wtU/C13"
            env["PYTHONDONTWRITEBYTECODE"] = "1"
            env["C13_RAISE"] = raising
            env["C13_LOG"] = logfile
            env.pop("BEHAVE_ARGS", None)
            command = [sys.executable, "-m", "behave", "-f", "plain", "-T"]
            command += options
            if DELTA not in options:
                command += ["features/alpha.feature", "features/beta.feature",
                            "features/gamma.feature"]
            process = subprocess.Popen(command, cwd=WORKDIR, env=env,
                                       stdout=subprocess.PIPE, stderr=subprocess.STDOUT)
            output = process.communicate()[0].decode("utf-8", "replace")
            output = _TOOK.sub("<T>", output)
            output = re.sub(r'"duration": [0-9.e-]+', '"duration": <T>', output)
            emit("--- run %s options=%r raise=%r exit=%d" % (title, options, raising,
                                                            process.returncode))
            emit(output)
            emit("--- events %s" % title)
            if os.path.exists(logfile):
                with open(logfile) as f:
                    emit(f.read())
            reports = os.path.join(WORKDIR, "reports")
            if os.path.isdir(reports):
                for name in sorted(os.listdir(reports)):
                    emit("--- report %s" % name)
                    with io.open(os.path.join(reports, name), encoding="utf-8") as f:
                        text = f.read()
                    text = re.sub(r'time="[^"]*"', 'time="<T>"', text)
                    text = re.sub(r'timestamp="[^"]*"', 'timestamp="<T>"', text)
                    text = re.sub(r'hostname="[^"]*"', 'hostname="<H>"', text)
                    text = _TOOK.sub("<T>", text)
                    emit(text)
                shutil.rmtree(reports)
    finally:
        shutil.rmtree(WORKDIR, ignore_errors=True)


def main():
    emit("transcript for %s (focus: %s)" % (TWIN_ID, FOCUS))
    part1_scripted()
    part1_edge()
    part1_exhaustive(3)
    part1_random(250, 1300 + sum(ord(ch) for ch in TWIN_ID))
    part2_real_runs()
    emit("=== END")


if __name__ == "__main__":
    main()
