# -*- coding: utf-8 -*-
# Common part (copied verbatim into every equiv.py): builds a feature tree
# and runs "python -m behave" from the worktree as a subprocess.
from __future__ import print_function, unicode_literals
import io, json, os, re, shutil, subprocess, sys, tempfile

WORKTREE = "/tmp/wtW/C15"
sys.path.insert(0, WORKTREE)
PYTHON = "/venv/bin/python"

FEATURES = {
"features/alpha.feature": u'''
@feat
Feature: Alpha with feature background
  Some description line one.
  Second description line.

  Background: Common setup
    Given a passing step
    And a table step
      | name  | value |
      | Zoë   | 1     |
      | a\\|b  | long cell text |

  Scenario: All pass
    When I add 2 and 3
    Then the result is 5

  @wip
  Scenario: Failing in the middle
    When a failing step
    Then a passing step

  Scenario: With doc-string
    Given a doc-string step
      """
      Line one with ünïcödé
        indented line two
      \\"\\"\\" inner quotes
      """
    Then a passing step

  Scenario: Undefined step here
    Given a passing step
    When this step is not defined anywhere
    Then a passing step

  @skip_me
  Scenario: Skipped by tag
    Given a passing step

  Scenario Outline: Outline <name>
    Given a passing step
    When I add <a> and <b>
    Then the result is <c>

    Examples: Good
      | name | a | b | c |
      | one  | 1 | 1 | 2 |
      | two  | 2 | 2 | 5 |

    @skip_me
    Examples: Skipped ones
      | name  | a | b | c |
      | three | 3 | 3 | 6 |
''',
"features/beta.feature": u'''
Feature: Beta with rules

  Background:
    Given a passing step

  Scenario: Before the rules
    Then a passing step

  Rule: First rule
    Background: Rule setup
      Given a table step
        | k |
        | v |

    Scenario: R1 one
      When an erroring step
      Then a passing step

    Scenario: R1 two
      When word "hello" and number 42 and float 1.5
      Then a passing step

  Rule: Second rule without background

    Scenario: R2 one
      Given a doc-string step
        """
        single line
        """

    Scenario Outline: R2 outline <x>
      When I add <x> and <x>
      Then a passing step

      Examples:
        | x |
        | 7 |
        | 8 |
''',
"features/gamma.feature": u'''
@skip_me
Feature: Gamma entirely skipped
  Scenario: Never runs
    Given a passing step
''',
"features/delta.feature": u'''
Feature: Delta empty feature
''',
"features/epsilon.feature": u'''
Feature: Epsilon background fails

  Background: Broken
    Given a failing step

  Scenario: E one
    Then a passing step

  Scenario: E two
    Then a passing step
''',
"features/steps/steps.py": u'''
# -*- coding: utf-8 -*-
from __future__ import unicode_literals
from behave import given, when, then, step

@step(u'a passing step')
def step_pass(context):
    pass

@step(u'a failing step')
def step_fail(context):
    assert False, u"XFAIL: expected fäilure\\nsecond line of message"

@step(u'an erroring step')
def step_error(context):
    raise ValueError(u"boom ünicode")

@step(u'a table step')
def step_table(context):
    assert context.table is not None
    context.table_rows = [row.cells for row in context.table]

@step(u'a doc-string step')
def step_text(context):
    assert context.text

@when(u'I add {a:d} and {b:d}')
def step_add(context, a, b):
    context.result = a + b
    if getattr(context, "do_attach", False):
        context.attach("text/plain", ("%d+%d" % (a, b)).encode("utf-8"))
        context.attach("image/png", b"\\x00\\x01\\xff")

@then(u'the result is {c:d}')
def step_result(context, c):
    assert context.result == c, "%r != %r" % (context.result, c)

@when(u'word "{w:w}" and number {n:d} and float {f:f}')
def step_typed(context, w, n, f):
    pass
''',
"features/environment.py": u'''
import os
def before_all(context):
    context.do_attach = bool(os.environ.get("TWIN_ATTACH"))
''',
}


def make_tree():
    root = tempfile.mkdtemp(prefix="twin_C15_")
    for name, text in FEATURES.items():
        path = os.path.join(root, name)
        if not os.path.isdir(os.path.dirname(path)):
            os.makedirs(os.path.dirname(path))
        with io.open(path, "w", encoding="utf-8") as f:
            f.write(text.lstrip("\n"))
    return root


_DURATION = re.compile(r'("duration":\s*)[0-9.e+-]+')
_TIMING = re.compile(r"\b\d+\.\d{3}s\b")
_TOOK = re.compile(r"Took \d+m\d+\.\d+s")
_LINENO = re.compile(r'(File "[^"]*", line )\d+')
_XMLTIME = re.compile(r'\b(time|timestamp|hostname)="[^"]*"')


def normalize(text, root):
    text = text.replace(root, "<ROOT>")
    text = _DURATION.sub(r"\g<1>0", text)
    text = _TIMING.sub("N.NNNs", text)
    text = _TOOK.sub("Took <T>", text)
    text = _LINENO.sub(r"\g<1>N", text)
    text = _XMLTIME.sub(r'\g<1>="<X>"', text)
    return text


def run_behave(root, args, env_extra=None):
    env = dict(os.environ)
    env["PYTHONPATH"] = WORKTREE
    env["PYTHONIOENCODING"] = "utf-8"
    env["PYTHONHASHSEED"] = "0"
    env.pop("TWIN_ATTACH", None)
    if env_extra:
        env.update(env_extra)
    proc = subprocess.Popen([PYTHON, "-m", "behave"] + list(args), cwd=root,
                            env=env, stdout=subprocess.PIPE,
                            stderr=subprocess.PIPE)
    out, err = proc.communicate()
    return (proc.returncode, normalize(out.decode("utf-8", "replace"), root),
            normalize(err.decode("utf-8", "replace"), root))


def show_run(root, args, env_extra=None, outfiles=()):
    print("=" * 78)
    print("RUN: behave %s %s" % (" ".join(args), sorted((env_extra or {}).items())))
    for name in outfiles:
        path = os.path.join(root, name)
        if os.path.exists(path):
            os.remove(path)
    code, out, err = run_behave(root, args, env_extra)
    print("returncode:", code)
    print("--- stdout")
    print(out)
    print("--- stderr")
    print(err)
    for name in outfiles:
        path = os.path.join(root, name)
        print("--- file %s" % name)
        if os.path.exists(path):
            with io.open(path, encoding="utf-8") as f:
                print(normalize(f.read(), root))
        else:
            print("<missing>")


# ---------------------------------------------------------------------------
# SPECIFIC PART (C15-t17): ModelDescriptor.describe_table
# ---------------------------------------------------------------------------
def direct_tables():
    from behave.model import Table, Row
    from behave.model_describe import ModelDescriptor, ModelPrinter

    class Loose(object):
        """Table-like object whose rows need not match the headings."""
        def __init__(self, headings, rows):
            self.headings = headings
            self.rows = rows

    cases = [
        ("simple", Table([u"a", u"b"], rows=[[u"1", u"2"], [u"333", u"4"]])),
        ("no-rows", Table([u"only", u"headings"])),
        ("one-col", Table([u"x"], rows=[[u""], [u"long value"], [u"y"]])),
        ("empty-headings", Loose([], [])),
        ("empty-headings-with-rows", Loose([], [[u"a"], [u"b", u"c"]])),
        ("escapes", Table([u"h|1", u"h\\2", u"h\n3"],
                          rows=[[u"a|b|c", u"\\\\", u"x\ny\nz"],
                                [u"", u"|", u"\\|"]])),
        ("unicode", Table([u"näme", u"wért"],
                          rows=[[u"Zoë", u"日本語"], [u"ß", u" "]])),
        ("wide-heading", Table([u"a very wide heading", u"b"],
                               rows=[[u"1", u"a much wider cell than heading"]])),
        ("rows-longer", Loose([u"a", u"b"], [[u"1", u"2", u"extra|"],
                                             [u"11", u"22"]])),
        ("rows-shorter", Loose([u"a", u"b", u"c"], [[u"1", u"2", u"3"], [u"1"]])),
        ("tuple-rows", Loose([u"a", u"b"], [(u"1", u"22"), (u"333", u"4")])),
        ("non-string-cell", Loose([u"a"], [[1]])),
        ("none-cell", Loose([u"a", u"b"], [[u"x", None]])),
        ("rows-not-list", Loose([u"a"], ((u"1",),))),
        ("row-objects", Loose([u"a", u"b"],
                              [Row([u"a", u"b"], [u"x|", u"yy"], line=3)])),
    ]
    for name, table in cases:
        for indentation in (None, u"", u"    ", u"\t> "):
            label = "describe_table[%s, indentation=%r]" % (name, indentation)
            try:
                text = ModelDescriptor.describe_table(table, indentation)
                print(label, "->", type(text).__name__, repr(text))
                print(text)
            except Exception as e:  # pylint: disable=broad-except
                print(label, "raised", type(e).__name__, str(e))
    # -- POSITIONAL / DEFAULT ARGUMENT FORMS and ModelPrinter
    table = cases[0][1]
    print(repr(ModelDescriptor.describe_table(table)))
    print(repr(ModelDescriptor().describe_table(table, indentation=u"--")))
    stream = io.StringIO()
    printer = ModelPrinter(stream)
    printer.print_table(cases[5][1], u"  ")
    printer.print_table(cases[6][1])
    print(repr(stream.getvalue()))
    # -- THE TABLE IS NOT MODIFIED:
    table = cases[5][1]
    before = (list(table.headings), [list(r.cells) for r in table.rows])
    ModelDescriptor.describe_table(table, u" ")
    after = (list(table.headings), [list(r.cells) for r in table.rows])
    print("table unchanged:", before == after)


def main():
    direct_tables()
    root = make_tree()
    try:
        show_run(root, ["--no-color", "-f", "plain"])
        show_run(root, ["--no-color", "-f", "plain", "--no-multiline", "-T"])
        show_run(root, ["--no-color", "-f", "plain", "--dry-run"])
        show_run(root, ["--no-color", "--tags=-skip_me", "--show-skipped",
                        "-f", "plain", "-o", "plain.txt",
                        "-f", "steps.code", "-o", "code.txt",
                        "-f", "progress3"],
                 outfiles=["plain.txt", "code.txt"])
        show_run(root, ["--no-color", "-f", "progress", "--junit",
                        "--junit-directory", "reports",
                        "features/alpha.feature"],
                 outfiles=["reports/TESTS-alpha.xml"])
    finally:
        shutil.rmtree(root)


if __name__ == "__main__":
    main()
