# -*- coding: utf-8 -*-
"""
Equivalence transcript for property C03 (status roll-up).

Part A: model level, exhaustive over the Status enumeration and child-status
        tuples (Scenario / Feature / Rule / ScenarioOutline .status), with an
        access log of the child ".status" reads (laziness), caching, reset.
Part B: Status predicates, OuterStatus, ScenarioStatus tables.
Part C: real runs of "python -m behave" (subprocess, PYTHONPATH=worktree) on a
        generated project: failures, errors, undefined, pending, hook errors,
        --stop, abort, dry-run, tag/name de-selection, outlines in rules,
        auto-retry.
"""
from __future__ import print_function
import sys
WORKTREE = "/tmp/wtW/C03"
sys.path.insert(0, WORKTREE)

import hashlib
import itertools
import os
import re
import shutil
import subprocess
import tempfile
from collections import Counter

import behave
assert behave.__file__.startswith(WORKTREE), behave.__file__
from behave.model_core import Status, OuterStatus, ScenarioStatus, \
    TagAndStatusStatement
from behave.model import Feature, Rule, Scenario, ScenarioOutline, Step, \
    Background, Examples, Table, reset_model
from behave.parser import parse_feature

ALL = list(Status)
OUT = []


def emit(*parts):
    OUT.append(" ".join(str(p) for p in parts))


def outcome(func):
    try:
        value = func()
    except BaseException as e:    # pylint: disable=broad-except
        return "RAISES %s: %s" % (e.__class__.__name__, e)
    if isinstance(value, Status):
        return value.name
    return repr(value)


def names(statuses):
    return ",".join(s.name for s in statuses) or "-"


class Digest(object):
    """Full lines for short tuples; sha256 + histogram for the long ones."""
    def __init__(self, title):
        self.title = title
        self.sha = hashlib.sha256()
        self.histogram = Counter()
        self.count = 0

    def add(self, line, result, verbose):
        self.count += 1
        self.sha.update((line + "\n").encode("utf-8"))
        self.histogram[result] += 1
        if verbose:
            emit(line)

    def close(self):
        emit("DIGEST", self.title, "n=%d" % self.count, self.sha.hexdigest())
        for key in sorted(self.histogram):
            emit("  HISTOGRAM", self.title, key, self.histogram[key])


# ---------------------------------------------------------------------------
# PART B: STATUS TABLES
# ---------------------------------------------------------------------------
def part_status_tables():
    emit("== STATUS PREDICATES")
    predicates = ["is_passed", "is_failure", "is_error", "is_untested",
                  "is_pending", "is_undefined", "is_final", "has_failed"]
    for status in ALL:
        flags = " ".join("%s=%s" % (p, int(getattr(status, p)()))
                         for p in predicates)
        classes = [p for p in ("is_passed", "is_failure", "is_error",
                               "is_untested") if getattr(status, p)()]
        if status is Status.skipped:
            classes.append("skipped")
        emit(status.name, status.value, flags,
             "normalized=%s" % status.normalized_name,
             "v0=%s" % outcome(status.to_status_v0),
             "classes=%s" % "+".join(classes),
             "hash_ok=%s" % (hash(status) == hash(status.value)),
             "eq_name=%s" % (status == status.name),
             "ne_other=%s" % (status != "nonsense"),
             "from_name=%s" % (Status.from_name(status.name) is status))
    emit("from_name(bad)", outcome(lambda: Status.from_name("bad")))
    emit("pairwise_eq", sum(1 for a in ALL for b in ALL if a == b),
         "set_size", len(set(ALL)),
         "dict_lookup", all({s: s.name for s in ALL}[s] == s.name for s in ALL))
    emit("== OUTER STATUS / SCENARIO STATUS")
    for status in ALL:
        emit(status.name,
             "outer=%s" % outcome(lambda: OuterStatus.from_inner_status(status)),
             "scenario=%s" % outcome(lambda: ScenarioStatus.from_step_status(status)),
             "scenario_dry=%s" % outcome(
                 lambda: ScenarioStatus.from_step_status(status, dry_run=True)))
    for bad in ("passed", None, 11):
        emit("bad=%r" % (bad,),
             "outer=%s" % outcome(lambda: OuterStatus.from_inner_status(bad)),
             "scenario=%s" % outcome(lambda: ScenarioStatus.from_step_status(bad)))

    class Element(object):
        status = Status.hook_error
    emit("from_inner_model_element", outcome(
        lambda: OuterStatus.from_inner_model_element(Element())))
    emit("from_step", outcome(lambda: ScenarioStatus.from_step(Element())))


# ---------------------------------------------------------------------------
# PART A: MODEL LEVEL
# ---------------------------------------------------------------------------
def make_steps(statuses):
    steps = []
    for index, status in enumerate(statuses):
        step = Step("x.feature", 10 + index, u"Given", "given",
                    u"step %d" % index)
        step.status = status
        steps.append(step)
    return steps


def part_scenario():
    emit("== SCENARIO.compute_status (exhaustive, real Step objects)")
    digest = Digest("scenario")
    for length in range(0, 4):
        for statuses in itertools.product(ALL, repeat=length):
            for hook_failed in (False, True):
                if hook_failed and length == 3:
                    continue
                scenario = Scenario("x.feature", 5, u"Scenario", u"S",
                                    steps=make_steps(statuses))
                scenario.hook_failed = hook_failed
                result = outcome(lambda: scenario.status)
                cached = scenario._cached_status.name
                line = "scenario [%s] hook_failed=%d -> %s cached=%s" % (
                    names(statuses), hook_failed, result, cached)
                digest.add(line, result, verbose=(length <= 1))
    digest.close()

    emit("-- with background steps")
    for bg_statuses, statuses in [
            ((Status.passed,), (Status.passed,)),
            ((Status.failed,), (Status.skipped,)),
            ((Status.passed,), (Status.undefined, Status.skipped)),
            ((Status.skipped,), (Status.skipped,)),
            ((Status.passed,), ()),
            ((Status.pending_warn,), (Status.pending_warn,)),
            ((Status.untested,), (Status.passed,)),
            ((Status.error,), (Status.failed,))]:
        background = Background("x.feature", 2, u"Background", u"",
                                steps=make_steps(bg_statuses))
        scenario = Scenario("x.feature", 5, u"Scenario", u"S",
                            steps=make_steps(statuses))
        scenario.background = background
        for step, status in zip(scenario.background_steps, bg_statuses):
            step.status = status    # copies are reset; set again
        emit("bg=[%s] steps=[%s] ->" % (names(bg_statuses), names(statuses)),
             outcome(lambda: scenario.status),
             "all=[%s]" % names(s.status for s in scenario.all_steps))


class Child(object):
    """Child with a logged, read-only status."""
    def __init__(self, name, status, log):
        self.name = name
        self._status = status
        self.log = log
        self.reset_count = 0

    @property
    def status(self):
        self.log.append(self.name)
        return self._status

    def reset(self):
        self.reset_count += 1


def part_container():
    emit("== FEATURE/RULE.compute_status (exhaustive, logged children)")
    for cls in (Feature, Rule):
        digest = Digest(cls.__name__)
        for length in range(0, 4):
            for statuses in itertools.product(ALL, repeat=length):
                for hook_failed in (False, True):
                    if hook_failed and length == 3:
                        continue
                    log = []
                    container = cls("x.feature", 1, cls.__name__, u"C")
                    container.run_items = [
                        Child("c%d" % i, s, log) for i, s in enumerate(statuses)]
                    container.hook_failed = hook_failed
                    result = outcome(lambda: container.status)
                    line = "%s [%s] hook_failed=%d -> %s cached=%s reads=%s" % (
                        cls.__name__, names(statuses), hook_failed, result,
                        container._cached_status.name, ",".join(log) or "-")
                    digest.add(line, result, verbose=(length <= 1))
        digest.close()

    emit("-- long child sequences")
    P, F, S, U, E = (Status.passed, Status.failed, Status.skipped,
                     Status.untested, Status.error)
    for statuses in [(P,) * 6, (S,) * 6, (S, S, P, S, S), (P, S, U, P),
                     (S, S, U, P), (S, P, S, U, F), (P, P, P, E, U),
                     (Status.pending_warn, U), (Status.xpassed, U),
                     (S, Status.executing, U), (Status.untested_undefined, P),
                     (P, Status.untested_pending, F), (Status.unknown, S)]:
        log = []
        feature = Feature("x.feature", 1, u"Feature", u"F")
        feature.run_items = [Child("c%d" % i, s, log)
                             for i, s in enumerate(statuses)]
        emit("Feature [%s] ->" % names(statuses), outcome(lambda: feature.status),
             "reads=%s" % ",".join(log))


def part_invalid_inputs():
    emit("== INVALID CHILD STATUS VALUES (exception types and messages)")

    class Anything(object):
        """Duck-typed status: answers every predicate with a fixed value."""
        def __init__(self, answers):
            self.answers = answers
            self.asked = []

        def __getattr__(self, name):
            if not name.startswith("is_") and name != "has_failed":
                raise AttributeError(name)
            def predicate():
                self.asked.append(name)
                return self.answers.get(name, False)
            return predicate

        def __repr__(self):
            return "<Anything>"

    def weird_values():
        return [("str", "passed"), ("none", None), ("int", 11),
                ("duck-error", Anything({"is_error": True})),
                ("duck-failure", Anything({"is_failure": 1})),
                ("duck-untested", Anything({"is_untested": "yes"})),
                ("duck-none", Anything({}))]

    for title, value in weird_values():
        steps = make_steps([Status.passed, Status.passed])
        steps[1].status = value
        scenario = Scenario("x.feature", 5, u"Scenario", u"S", steps=steps)
        emit("scenario", title, "->", outcome(lambda: scenario.status),
             "asked=%s" % getattr(value, "asked", None))
    for cls in (Feature, Rule):
        for title, value in weird_values():
            log = []
            container = cls("x.feature", 1, cls.__name__, u"C")
            container.run_items = [Child("c0", Status.passed, log),
                                   Child("c1", value, log),
                                   Child("c2", Status.failed, log)]
            emit(cls.__name__, title, "->", outcome(lambda: container.status),
                 "reads=%s" % ",".join(log),
                 "asked=%s" % getattr(value, "asked", None))
    for title, value in weird_values():
        log = []
        outline = ScenarioOutline("x.feature", 3, u"Scenario Outline", u"SO")
        outline._scenarios = [Child("s0", Status.passed, log),
                              Child("s1", value, log),
                              Child("s2", Status.failed, log)]
        emit("outline", title, "->", outcome(lambda: outline.status),
             "reads=%s" % ",".join(log),
             "asked=%s" % getattr(value, "asked", None))

    emit("-- child whose status raises")

    class Exploding(object):
        @property
        def status(self):
            raise KeyError("no status")

    for cls in (Feature, Rule):
        container = cls("x.feature", 1, cls.__name__, u"C")
        container.run_items = [Exploding()]
        emit(cls.__name__, outcome(lambda: container.status))
    outline = ScenarioOutline("x.feature", 3, u"Scenario Outline", u"SO")
    outline._scenarios = [Exploding()]
    emit("outline", outcome(lambda: outline.status))
    scenario = Scenario("x.feature", 5, u"Scenario", u"S", steps=[Exploding()])
    emit("scenario", outcome(lambda: scenario.status))


class FakeTable(object):
    def __init__(self, nrows):
        self.rows = [None] * nrows
        self.modified = False


class FakeExamples(object):
    def __init__(self, nrows):
        self.table = None if nrows is None else FakeTable(nrows)


def part_outline():
    emit("== SCENARIO-OUTLINE.compute_status (exhaustive, logged children)")
    digest = Digest("outline")
    for length in range(0, 4):
        for statuses in itertools.product(ALL, repeat=length):
            for example_rows in ((), (None,), (0,), (2,), (None, 1, 2)):
                if length == 3 and example_rows != (2,):
                    continue
                log = []
                outline = ScenarioOutline(
                    "x.feature", 3, u"Scenario Outline", u"SO",
                    examples=[FakeExamples(n) for n in example_rows])
                outline._scenarios = [Child("s%d" % i, s, log)
                                      for i, s in enumerate(statuses)]
                result = outcome(lambda: outline.status)
                line = "outline [%s] examples=%r -> %s cached=%s reads=%s" % (
                    names(statuses), example_rows, result,
                    outline._cached_status.name, ",".join(log) or "-")
                digest.add(line, result,
                           verbose=(length <= 1 or
                                    (length == 2 and example_rows == (2,)
                                     and Status.skipped in statuses)))
    digest.close()
    emit("-- hook_failed on outline is ignored by compute_status")
    outline = ScenarioOutline("x.feature", 3, u"Scenario Outline", u"SO")
    outline.hook_failed = True
    emit("outline hook_failed ->", outcome(lambda: outline.status))


FEATURE_TEXT = u"""
Feature: Tree
  Background:
    Given a background step

  Scenario: A1
    Given a step
    When another step

  Rule: R1
    Scenario: R1S1
      Given a step

    Scenario Outline: R1O1 <name>
      Given a step with <name>
      Then a result <value>

      Examples: E1
        | name | value |
        | a    | 1     |
        | b    | 2     |

      Examples: E2
        | name | value |
        | c    | 3     |

  Rule: R2
    Scenario: R2S1
      Given a step
"""


def tree_lines(feature):
    lines = []

    def visit(item, depth):
        lines.append("%s%s %s: %s" % ("  " * depth, item.__class__.__name__,
                                      item.name, item.status.name))
        if isinstance(item, ScenarioOutline):
            for scenario in item._scenarios:
                visit(scenario, depth + 1)
        elif isinstance(item, Scenario):
            lines.append("%s  steps=[%s]" % ("  " * depth,
                                             names(s.status for s in item.all_steps)))
        else:
            for run_item in item.run_items:
                visit(run_item, depth + 1)
    visit(feature, 0)
    return lines


def all_scenarios(feature):
    return list(feature.walk_scenarios())


def set_all_steps(scenario, statuses):
    steps = list(scenario.all_steps)
    for index, step in enumerate(steps):
        step.status = statuses[min(index, len(statuses) - 1)]


def part_real_tree():
    emit("== REAL TREE (parsed feature): roll-up, caching, reset")
    P, F, S, U = Status.passed, Status.failed, Status.skipped, Status.untested

    def fresh():
        return parse_feature(FEATURE_TEXT, filename="tree.feature")

    feature = fresh()
    emit("-- fresh, outline not built")
    for line in tree_lines(feature):
        emit(line)

    scenarios_plan = [
        ("all passed", lambda i, n: (P,)),
        ("all skipped", lambda i, n: (S,)),
        ("first failed then skipped", lambda i, n: (P, F, S) if i == 0 else (S,)),
        ("last one error", lambda i, n: (Status.error,) if i == n - 1 else (P,)),
        ("outline row 2 undefined",
         lambda i, n: (P, Status.undefined, S) if i == 3 else (P,)),
        ("aborted after 3", lambda i, n: (P,) if i < 3 else (U,)),
        ("only rule 2 selected", lambda i, n: (P,) if i == n - 1 else (S,)),
        ("first skipped rest untested", lambda i, n: (S,) if i == 0 else (U,)),
        ("pending_warn everywhere", lambda i, n: (Status.pending_warn,)),
        ("outline rows skipped+passed",
         lambda i, n: (S,) if i in (2, 4) else (P,)),
        ("hook_error step in R1S1",
         lambda i, n: (P, Status.hook_error) if i == 1 else (P,)),
    ]
    for title, plan in scenarios_plan:
        feature = fresh()
        scenarios = all_scenarios(feature)     # builds the outline scenarios
        for index, scenario in enumerate(scenarios):
            set_all_steps(scenario, plan(index, len(scenarios)))
        emit("-- plan:", title, "(n=%d)" % len(scenarios))
        for line in tree_lines(feature):
            emit(line)

    emit("-- caching: final status is kept, non-final is recomputed")
    feature = fresh()
    scenarios = all_scenarios(feature)
    emit("untested:", feature.status.name, feature._cached_status.name)
    for scenario in scenarios:
        set_all_steps(scenario, (P,))
    emit("passed:", feature.status.name, feature._cached_status.name)
    set_all_steps(scenarios[0], (F,))
    emit("child changed, cached:", feature.status.name, scenarios[0].status.name)
    scenarios[0].clear_status()
    emit("child cleared:", feature.status.name, scenarios[0].status.name)
    feature.clear_status()
    emit("feature cleared:", feature.status.name)
    feature.set_status("skipped")
    emit("set_status(name):", feature.status.name)
    emit("set_status(bad):", outcome(lambda: feature.set_status("bad")))
    feature.hook_failed = True
    feature.clear_status()
    emit("hook_failed:", feature.status.name)
    for rule in feature.rules:
        rule.hook_failed = True
        rule.clear_status()
    emit("rules hook_failed:", names(r.status for r in feature.rules))
    feature.should_skip = True
    feature.skip_reason = "because"
    feature.reset()
    emit("after reset:", feature.status.name, feature.hook_failed,
         feature.should_skip, feature.skip_reason,
         [r.hook_failed for r in feature.rules])
    for line in tree_lines(feature):
        emit(line)
    reset_model([feature])
    emit("after reset_model:", feature.status.name)

    emit("-- skip()/mark_skipped()")
    feature = fresh()
    scenarios = all_scenarios(feature)
    feature.skip(reason=None)
    for line in tree_lines(feature):
        emit(line)
    feature = fresh()
    outline = [x for x in feature.rules[0].run_items
               if isinstance(x, ScenarioOutline)][0]
    outline.mark_skipped()
    emit("outline.mark_skipped:", outline.status.name, feature.status.name,
         feature.rules[0].status.name)
    feature.rules[1].mark_skipped()
    emit("rule2.mark_skipped:", feature.rules[1].status.name,
         feature.status.name)

    emit("-- base class")
    base = TagAndStatusStatement("x.feature", 1, u"K", u"N", [])
    emit("base.status:", outcome(lambda: base.status))


# ---------------------------------------------------------------------------
# PART A2: AUTO-RETRY (unit level)
# ---------------------------------------------------------------------------
class ScriptedScenario(object):
    """Scenario stand-in whose run() returns scripted "failed" values."""
    def __init__(self, script):
        self.script = list(script)
        self.calls = []

    def run(self, *args, **kwargs):
        self.calls.append((args, sorted(kwargs.items())))
        value = self.script.pop(0)
        if isinstance(value, Exception):
            raise value
        return value


def captured_call(func, *args, **kwargs):
    from io import StringIO
    old_stdout = sys.stdout
    sys.stdout = buffer_ = StringIO()
    try:
        result = outcome(lambda: func(*args, **kwargs))
    finally:
        sys.stdout = old_stdout
    return result, buffer_.getvalue().replace("\n", " | ")


def part_autoretry():
    import functools
    from behave.contrib.scenario_autoretry import patch_scenario_with_autoretry
    emit("== AUTO-RETRY (unit level)")
    scripts = [
        [False], [True, False], [True, True, False], [True, True, True, False],
        [True] * 5, [0, 1], [1, 0], ["failed", ""], [None], [[], ()],
        [True, RuntimeError("run-error"), False], [ValueError("first")],
    ]
    for max_attempts in (0, 1, 2, 3, 4):
        for script in scripts:
            fake = ScriptedScenario(script)
            original_run = fake.run
            patch_scenario_with_autoretry(fake, max_attempts=max_attempts)
            patched = fake.run
            shape = "%s func=%s nargs=%d orig=%s kw=%r" % (
                type(patched).__name__, patched.func.__name__,
                len(patched.args), patched.args[0] == original_run,
                patched.keywords)
            result, printed = captured_call(fake.run, "RUNNER", extra=1)
            emit("max=%d script=%r ->" % (max_attempts, script), result,
                 "calls=%r" % (fake.calls,), "left=%d" % len(fake.script),
                 "printed=[%s]" % printed, shape)
    emit("-- default max_attempts")
    fake = ScriptedScenario([True] * 5)
    patch_scenario_with_autoretry(fake)
    result, printed = captured_call(fake.run, "RUNNER")
    emit(result, len(fake.calls), "printed=[%s]" % printed)
    emit("-- patched twice")
    fake = ScriptedScenario([True] * 10)
    patch_scenario_with_autoretry(fake, 2)
    patch_scenario_with_autoretry(fake, 2)
    result, printed = captured_call(fake.run, "RUNNER")
    emit(result, len(fake.calls), "printed=[%s]" % printed)

    emit("-- scenario outline: each generated scenario is patched, not the outline")
    feature = parse_feature(FEATURE_TEXT, filename="tree.feature")
    outline = [x for x in feature.rules[0].run_items
               if isinstance(x, ScenarioOutline)][0]
    plain = feature.scenarios[0]
    patch_scenario_with_autoretry(outline, max_attempts=2)
    patch_scenario_with_autoretry(plain, max_attempts=2)
    emit("outline.run patched:", "run" in vars(outline),
         "built:", len(outline._scenarios))
    for scenario in outline._scenarios:
        run = vars(scenario).get("run")
        emit("  ", scenario.name, type(run).__name__,
             run.func.__name__, run.args[0].__self__ is scenario,
             run.args[0].__func__ is Scenario.run)
    run = vars(plain).get("run")
    emit("plain:", type(run).__name__, run.func.__name__,
         run.args[0].__self__ is plain)
    emit("same scenarios afterwards:",
         [s.name for s in outline.scenarios] ==
         [s.name for s in outline._scenarios],
         all("run" in vars(s) for s in outline.scenarios))


# ---------------------------------------------------------------------------
# PART C: REAL RUNS
# ---------------------------------------------------------------------------
STEPS_PY = u'''
from behave import given, when, then, step
from behave.api.pending_step import StepNotImplementedError

ATTEMPTS = {}

@step(u'a passing step')
def step_pass(ctx):
    pass

@step(u'a failing step')
def step_fail(ctx):
    assert False, "XFAIL-HERE"

@step(u'an error step')
def step_error(ctx):
    raise RuntimeError("boom")

@step(u'a pending step')
def step_pending(ctx):
    raise StepNotImplementedError("pending-here")

@step(u'an aborting step')
def step_abort(ctx):
    raise KeyboardInterrupt()

@step(u'a step that skips the scenario')
def step_skip(ctx):
    ctx.scenario.skip("skipped by step")

@step(u'a step with value "{value}"')
def step_value(ctx, value):
    assert value != "bad", "bad value"
    if value == "err":
        raise ValueError("err value")

@step(u'a flaky step "{key}" that passes on attempt {n:d}')
def step_flaky(ctx, key, n):
    ATTEMPTS[key] = ATTEMPTS.get(key, 0) + 1
    assert ATTEMPTS[key] >= n, "attempt %d < %d" % (ATTEMPTS[key], n)

@step(u'a hookfail step')
def step_hookfail(ctx):
    pass
'''

ENVIRONMENT_PY = u'''
from __future__ import print_function
import os
from behave.model import ScenarioOutline, Scenario
from behave.contrib.scenario_autoretry import patch_scenario_with_autoretry

LOG = os.environ["C03_LOG"]

def log(*parts):
    with open(LOG, "a") as f:
        f.write(" ".join(str(p) for p in parts) + "\\n")

def maybe_raise(hook, tags):
    if hook + "_error" in tags:
        raise RuntimeError("oops in " + hook)

def before_all(ctx):
    log("before_all")

def before_tag(ctx, tag):
    log("before_tag", tag)
    if tag == "before_tag_error":
        raise RuntimeError("oops in before_tag")

def after_tag(ctx, tag):
    log("after_tag", tag)
    if tag == "after_tag_error":
        raise RuntimeError("oops in after_tag")

def before_feature(ctx, feature):
    log("before_feature", feature.name, feature.status.name)
    for scenario in feature.walk_scenarios(with_outlines=True):
        if "autoretry" in scenario.tags:
            patch_scenario_with_autoretry(scenario, max_attempts=3)
    if "skip_in_hook" in feature.tags:
        feature.skip("by hook")
    maybe_raise("before_feature", feature.tags)

def after_feature(ctx, feature):
    log("after_feature", feature.name, feature.status.name)
    maybe_raise("after_feature", feature.tags)

def before_rule(ctx, rule):
    log("before_rule", rule.name, rule.status.name)
    maybe_raise("before_rule", rule.tags)

def after_rule(ctx, rule):
    log("after_rule", rule.name, rule.status.name)
    maybe_raise("after_rule", rule.tags)

def before_scenario(ctx, scenario):
    log("before_scenario", scenario.name, scenario.status.name)
    if "skip_in_hook" in scenario.tags:
        scenario.skip("by hook")
    maybe_raise("before_scenario", scenario.tags)

def after_scenario(ctx, scenario):
    log("after_scenario", scenario.name, scenario.status.name,
        "steps=" + ",".join(s.status.name for s in scenario.all_steps))
    maybe_raise("after_scenario", scenario.tags)

def before_step(ctx, step):
    if "hookfail" in step.name and step.keyword.strip() == "When":
        raise RuntimeError("oops in before_step")

def after_step(ctx, step):
    log("after_step", step.name, step.status.name)
    if "hookfail" in step.name and step.keyword.strip() == "Then":
        raise RuntimeError("oops in after_step")

def dump(item, depth):
    log("TREE", "  " * depth + item.__class__.__name__, item.name, "=>",
        item.status.name)
    if isinstance(item, ScenarioOutline):
        for scenario in item._scenarios:
            dump(scenario, depth + 1)
    elif isinstance(item, Scenario):
        log("TREE", "  " * depth + "  steps=" +
            ",".join(s.status.name for s in item.all_steps))
    else:
        for run_item in item.run_items:
            dump(run_item, depth + 1)

def after_all(ctx):
    log("after_all", "aborted=%s" % ctx._runner.aborted)
    for feature in ctx._runner.features:
        dump(feature, 0)
'''

FEATURES = {
    "f01_basic.feature": u"""
Feature: Basic
  Scenario: passes
    Given a passing step
    Then a passing step
  Scenario: fails
    Given a passing step
    When a failing step
    Then a passing step
  Scenario: errors
    Given an error step
    Then a passing step
  Scenario: undefined
    Given a passing step
    When an unknown step
    Then a passing step
    And another unknown step
  Scenario: pending
    Given a pending step
    Then a passing step
  @wip
  Scenario: pending in wip
    Given a pending step
    Then a passing step
  @skip
  Scenario: deselected
    Given a passing step
  Scenario: skips itself
    Given a passing step
    When a step that skips the scenario
    Then a failing step
  Scenario: no steps
""",
    "f02_rules.feature": u"""
@rules
Feature: Rules and outlines
  Background:
    Given a passing step

  Scenario: before rules
    Given a passing step

  Rule: All good
    Scenario Outline: good <v>
      Given a step with value "<v>"
      Examples:
        | v |
        | 1 |
        | 2 |

  Rule: Mixed
    Background:
      Given a passing step
    Scenario Outline: mixed <v>
      Given a step with value "<v>"
      Then a passing step
      Examples: first
        | v   |
        | ok  |
        | bad |
      @skip
      Examples: second
        | v   |
        | err |
        | ok2 |
    Scenario: after outline
      Given a passing step

  @skip
  Rule: Deselected
    Scenario: never
      Given a failing step
""",
    "f03_hooks.feature": u"""
Feature: Hook errors
  @before_scenario_error
  Scenario: before scenario hook error
    Given a passing step
  @after_scenario_error
  Scenario: after scenario hook error
    Given a passing step
  @before_tag_error
  Scenario: before tag hook error
    Given a passing step
  @after_tag_error
  Scenario: after tag hook error
    Given a passing step
  Scenario: before step hook error
    Given a passing step
    When a hookfail step
    Then a passing step
  Scenario: after step hook error
    Given a passing step
    Then a hookfail step
    And a passing step
  @skip_in_hook
  Scenario: skipped in hook
    Given a failing step
  Scenario: plain
    Given a passing step
""",
    "f04_feature_hook.feature": u"""
@before_feature_error
Feature: Before feature hook error
  Scenario: one
    Given a passing step
""",
    "f05_after_feature_hook.feature": u"""
@after_feature_error
Feature: After feature hook error
  Scenario: one
    Given a passing step
""",
    "f06_rule_hooks.feature": u"""
Feature: Rule hook errors
  @before_rule_error
  Rule: before rule error
    Scenario: r1
      Given a passing step
  @after_rule_error
  Rule: after rule error
    Scenario: r2
      Given a passing step
  Rule: fine
    Scenario: r3
      Given a passing step
""",
    "f07_all_skipped.feature": u"""
Feature: All deselected
  @skip
  Scenario: s1
    Given a failing step
  @skip
  Scenario Outline: s2 <v>
    Given a step with value "<v>"
    Examples:
      | v |
      | 1 |
""",
    "f08_skip_in_hook.feature": u"""
@skip_in_hook
Feature: Skipped in before_feature
  Scenario: s1
    Given a failing step
""",
    "f09_abort.feature": u"""
Feature: Abort
  Scenario: first passes
    Given a passing step
  Scenario: aborts
    Given a passing step
    When an aborting step
    Then a passing step
  Scenario: never run
    Given a passing step
  Scenario Outline: never run outline <v>
    Given a step with value "<v>"
    Examples:
      | v |
      | 1 |
""",
    "f10_after_abort.feature": u"""
Feature: Never started after abort
  Scenario: x
    Given a passing step
""",
    "f11_retry.feature": u"""
Feature: Auto retry
  @autoretry
  Scenario: flaky passes on second
    Given a flaky step "A" that passes on attempt 2
    Then a passing step
  @autoretry
  Scenario: flaky never passes
    Given a flaky step "B" that passes on attempt 9
    Then a passing step
  @autoretry
  Scenario: stable
    Given a passing step
  @autoretry
  Scenario Outline: flaky outline <k>
    Given a flaky step "<k>" that passes on attempt <n>
    Examples:
      | k | n |
      | C | 1 |
      | D | 3 |
      | E | 4 |
  Scenario: not retried
    Given a flaky step "F" that passes on attempt 2
""",
    "f12_stop.feature": u"""
Feature: Stop
  Scenario: ok
    Given a passing step
  Scenario Outline: rows <v>
    Given a step with value "<v>"
    Examples:
      | v   |
      | ok  |
      | bad |
      | ok2 |
  Scenario: later
    Given a passing step
""",
}
RUNS = [
    ("basic", ["--tags=not @skip", "features/f01_basic.feature"]),
    ("basic show-skipped", ["--tags=not @skip", "--show-skipped",
                            "features/f01_basic.feature"]),
    ("basic dry-run", ["--dry-run", "--tags=not @skip",
                       "features/f01_basic.feature"]),
    ("basic stop", ["--stop", "--tags=not @skip", "features/f01_basic.feature"]),
    ("basic by name", ["-n", "pass", "features/f01_basic.feature"]),
    ("rules", ["--tags=not @skip", "features/f02_rules.feature"]),
    ("rules stop", ["--stop", "--tags=not @skip", "features/f02_rules.feature"]),
    ("rules by name", ["-n", "mixed", "features/f02_rules.feature"]),
    ("rules dry-run", ["--dry-run", "features/f02_rules.feature"]),
    ("hooks", ["features/f03_hooks.feature"]),
    ("feature hooks", ["features/f04_feature_hook.feature",
                       "features/f05_after_feature_hook.feature",
                       "features/f06_rule_hooks.feature"]),
    ("all skipped", ["--tags=not @skip", "features/f07_all_skipped.feature",
                     "features/f08_skip_in_hook.feature"]),
    ("everything deselected", ["--tags=@nothing", "features/f01_basic.feature",
                               "features/f02_rules.feature"]),
    ("abort", ["features/f09_abort.feature", "features/f10_after_abort.feature"]),
    ("retry", ["features/f11_retry.feature"]),
    ("retry stop", ["--stop", "features/f11_retry.feature"]),
    ("stop", ["--stop", "features/f12_stop.feature", "features/f01_basic.feature"]),
    ("all", ["--tags=not @skip", "features"]),
    ("all junit", ["--tags=not @skip", "--junit", "--junit-directory=reports",
                   "-f", "progress", "features"]),
]


def normalize(text, workdir):
    text = text.replace(workdir, "<WORKDIR>")
    text = re.sub(r'line \d+', "line N", text)
    text = re.sub(r'Took \d+m[\d.]+s', "Took XmX.XXXs", text)
    text = re.sub(r'\b\d+\.\d{3,}s\b', "X.XXXs", text)
    text = re.sub(r'0x[0-9a-fA-F]+', "0xADDR", text)
    text = re.sub(r'(?m)^\s+\^+\s*$\n', "", text)     # py3.11+ caret lines
    return text


def part_real_runs():
    emit("== REAL RUNS (python -m behave)")
    workdir = tempfile.mkdtemp(prefix="c03equiv")
    try:
        os.makedirs(os.path.join(workdir, "features", "steps"))
        for name, text in FEATURES.items():
            with open(os.path.join(workdir, "features", name), "w") as f:
                f.write(text)
        with open(os.path.join(workdir, "features", "steps", "steps.py"), "w") as f:
            f.write(STEPS_PY)
        with open(os.path.join(workdir, "features", "environment.py"), "w") as f:
            f.write(ENVIRONMENT_PY)
        with open(os.path.join(workdir, "behave.ini"), "w") as f:
            f.write("[behave]\ndefault_tags =\n")
        log_path = os.path.join(workdir, "hooks.log")
        env = dict(os.environ)
        env["PYTHONPATH"] = WORKTREE
        env["C03_LOG"] = log_path
        env["PYTHONDONTWRITEBYTECODE"] = "1"
        env["PYTHONHASHSEED"] = "0"
        for title, args in RUNS:
            if os.path.exists(log_path):
                os.remove(log_path)
            command = [sys.executable, "-m", "behave", "--no-color",
                       "-f", "plain", "--no-timings"] + args
            process = subprocess.Popen(command, cwd=workdir, env=env,
                                       stdout=subprocess.PIPE,
                                       stderr=subprocess.STDOUT)
            output = process.communicate()[0].decode("utf-8", "replace")
            emit("---- RUN:", title, "ARGS:", " ".join(args))
            emit("exit code:", process.returncode)
            emit(normalize(output, workdir).rstrip())
            emit("---- HOOK LOG:", title)
            if os.path.exists(log_path):
                with open(log_path) as f:
                    emit(normalize(f.read(), workdir).rstrip())
            junit_dir = os.path.join(workdir, "reports")
            if os.path.isdir(junit_dir):
                for name in sorted(os.listdir(junit_dir)):
                    with open(os.path.join(junit_dir, name)) as f:
                        xml = f.read()
                    xml = re.sub(r'time="[^"]*"', 'time="T"', xml)
                    xml = re.sub(r'timestamp="[^"]+"', 'timestamp="TS"', xml)
                    xml = re.sub(r'hostname="[^"]+"', 'hostname="H"', xml)
                    heads = re.findall(r'<testsuite [^>]*>|<testcase [^>]*>', xml)
                    emit("JUNIT", name)
                    for head in heads:
                        emit("  ", normalize(head, workdir))
                shutil.rmtree(junit_dir)
    finally:
        shutil.rmtree(workdir, ignore_errors=True)


def main():
    part_status_tables()
    part_scenario()
    part_container()
    part_outline()
    part_invalid_inputs()
    part_real_tree()
    part_autoretry()
    part_real_runs()
    sys.stdout.write("\n".join(OUT) + "\n")


if __name__ == "__main__":
    main()
