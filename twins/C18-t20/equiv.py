# -*- coding: UTF-8 -*-
"""
Equivalence transcript for the output-capture machinery of behave (C18).

Part 1: in-process checks of behave.capture / behave.log_capture.
Part 2: ``python -m behave`` child processes on a generated project, for all
        8 on/off combinations of the capture switches and some extra option
        sets; records the bytes on the real stdout/stderr of the child,
        a side log written by the hooks (stream identity, root logger state,
        error messages, captured data) and the JUnit reports.

Prints a canonical transcript to stdout.
"""
from __future__ import print_function
import sys
WORKTREE = "/tmp/wtW/C18"
sys.path.insert(0, WORKTREE)

import io
import itertools
import logging
import os
import re
import shutil
import subprocess
import tempfile

import behave
assert behave.__file__.startswith(WORKTREE), behave.__file__
from behave import capture as capture_module
from behave.capture import Captured, CaptureController, capture_output
from behave import log_capture as log_capture_module
from behave.log_capture import LoggingCapture, RecordFilter

OUT = []


def emit(text=""):
    OUT.append(text)


def section(title):
    emit("")
    emit("=" * 70)
    emit("== " + title)
    emit("=" * 70)


def describe_exception(e):
    return "%s: %s" % (e.__class__.__name__, e)


# ---------------------------------------------------------------------------
# PART 1: IN-PROCESS
# ---------------------------------------------------------------------------
class Config(object):
    def __init__(self, **kwargs):
        self.stdout_capture = True
        self.stderr_capture = True
        self.log_capture = True
        self.logging_format = None
        self.logging_datefmt = None
        self.logging_level = None
        self.logging_filter = None
        self.logging_clear_handlers = False
        for name, value in kwargs.items():
            setattr(self, name, value)


class Context(object):
    pass


class NamedStream(io.StringIO):
    def __init__(self, name, falsy=False):
        io.StringIO.__init__(self)
        self.stream_name = name
        self.falsy = falsy

    def __bool__(self):
        return not self.falsy
    __nonzero__ = __bool__

    def __repr__(self):
        return "<stream %s>" % self.stream_name


def stream_label(stream, controller, real):
    if stream is None:
        return "None"
    if stream is real[0]:
        return "REAL-STDOUT"
    if stream is real[1]:
        return "REAL-STDERR"
    if stream is controller.stdout_capture:
        return "CAPTURE-STDOUT"
    if stream is controller.stderr_capture:
        return "CAPTURE-STDERR"
    return repr(stream)


def controller_state(controller, real):
    return "sys.stdout=%s sys.stderr=%s old_stdout=%s old_stderr=%s" % (
        stream_label(sys.stdout, controller, real),
        stream_label(sys.stderr, controller, real),
        stream_label(controller.old_stdout, controller, real),
        stream_label(controller.old_stderr, controller, real))


class LoggingSandbox(object):
    """Save/restore the global logging state around one check."""
    def __enter__(self):
        root = logging.getLogger()
        self.root_handlers = root.handlers[:]
        self.root_level = root.level
        self.logger_dict = dict(logging.Logger.manager.loggerDict)
        self.logger_handlers = dict(
            (name, logger.handlers[:])
            for name, logger in self.logger_dict.items()
            if hasattr(logger, "handlers"))
        root.handlers[:] = []
        return self

    def __exit__(self, *exc_info):
        root = logging.getLogger()
        root.handlers[:] = self.root_handlers
        root.setLevel(self.root_level)
        manager_dict = logging.Logger.manager.loggerDict
        for name in list(manager_dict.keys()):
            if name not in self.logger_dict:
                logger = manager_dict[name]
                if hasattr(logger, "handlers"):
                    logger.handlers[:] = []
        for name, handlers in self.logger_handlers.items():
            self.logger_dict[name].handlers[:] = handlers
        return False


def check_capture_controller():
    section("CaptureController: start/stop sequences")
    operations = {
        "setup": lambda c, ctx: c.setup_capture(ctx),
        "start": lambda c, ctx: c.start_capture(),
        "stop": lambda c, ctx: c.stop_capture(),
        "teardown": lambda c, ctx: c.teardown_capture(),
        "write": lambda c, ctx: (sys.stdout.write(u"OUT-x\n"),
                                 sys.stderr.write(u"ERR-x\n"),
                                 logging.getLogger("equiv").warning("LOG-x")),
    }
    sequences = [
        ["setup", "start", "write", "stop", "teardown"],
        ["setup", "start", "start", "write", "stop", "stop", "teardown"],
        ["setup", "stop", "start", "write", "stop", "teardown"],
        ["setup", "start", "write", "stop", "start", "write", "stop",
         "teardown"],
        ["setup", "start", "write", "stop", "setup", "start", "write",
         "stop", "teardown"],
        ["start", "write", "stop"],
        ["stop"],
        ["teardown"],
        ["setup", "write", "teardown", "teardown"],
    ]
    switch_sets = list(itertools.product([True, False], repeat=3))
    for sequence in sequences:
        for switches in switch_sets:
            for falsy_real in (False, True):
                emit("-- sequence=%s switches(out,err,log)=%s falsy_real=%s" % (
                    ",".join(sequence), switches, falsy_real))
                config = Config(stdout_capture=switches[0],
                                stderr_capture=switches[1],
                                log_capture=switches[2])
                real = (NamedStream("real-out", falsy_real),
                        NamedStream("real-err", falsy_real))
                saved = (sys.stdout, sys.stderr)
                with LoggingSandbox():
                    logging.getLogger().setLevel(logging.WARNING)
                    sys.stdout, sys.stderr = real
                    controller = CaptureController(config)
                    context = Context()
                    try:
                        for operation in sequence:
                            try:
                                operations[operation](controller, context)
                                outcome = "ok"
                            except Exception as e:  # pylint: disable=broad-except
                                outcome = describe_exception(e)
                            emit("   %-8s -> %s | %s" % (
                                operation, outcome,
                                controller_state(controller, real)))
                        captured = controller.captured
                        emit("   captured: stdout=%r stderr=%r log=%r bool=%s" % (
                            captured.stdout, captured.stderr,
                            captured.log_output, bool(captured)))
                        emit("   report: %r" % controller.make_capture_report())
                        emit("   real: out=%r err=%r" % (
                            io.StringIO.getvalue(real[0]),
                            io.StringIO.getvalue(real[1])))
                        emit("   context attrs: %s" % sorted(vars(context).keys()))
                        root = logging.getLogger()
                        emit("   root: handlers=%s level=%s" % (
                            [h.__class__.__name__ for h in root.handlers],
                            root.level))
                    finally:
                        sys.stdout, sys.stderr = saved

    section("capture_output() context manager")
    for enabled in (True, False):
        for fail in (False, True):
            config = Config(log_capture=False)
            real = (NamedStream("real-out"), NamedStream("real-err"))
            saved = (sys.stdout, sys.stderr)
            sys.stdout, sys.stderr = real
            controller = CaptureController(config)
            try:
                controller.setup_capture(Context())
                try:
                    with capture_output(controller, enabled=enabled):
                        sys.stdout.write(u"OUT-cm\n")
                        sys.stderr.write(u"ERR-cm\n")
                        inside = controller_state(controller, real)
                        if fail:
                            raise RuntimeError("cm-boom")
                    outcome = "ok"
                except RuntimeError as e:
                    outcome = describe_exception(e)
                emit("enabled=%s fail=%s -> %s" % (enabled, fail, outcome))
                emit("   inside: %s" % inside)
                emit("   after:  %s" % controller_state(controller, real))
                emit("   captured=%r real_out=%r real_err=%r" % (
                    controller.captured.output,
                    io.StringIO.getvalue(real[0]),
                    io.StringIO.getvalue(real[1])))
            finally:
                sys.stdout, sys.stderr = saved


def check_captured():
    section("Captured arithmetic and reports")
    values = [None, u"", u"a", u"a\n", u"line1\nline2", u"  padded  \n\n"]
    for stdout, stderr, log_output in itertools.product(values, repeat=3):
        captured = Captured(stdout, stderr, log_output)
        emit("Captured(%r, %r, %r): bool=%s output=%r report=%r" % (
            stdout, stderr, log_output, bool(captured), captured.output,
            captured.make_report()))
    first = Captured(u"o1", u"e1", u"l1")
    second = Captured(u"o2\n", None, u"l2")
    third = first + second
    emit("add: %r %r %r" % (third.stdout, third.stderr, third.log_output))
    first += second
    first += Captured()
    emit("iadd: %r %r %r" % (first.stdout, first.stderr, first.log_output))
    first.reset()
    emit("reset: %r %r %r bool=%s" % (first.stdout, first.stderr,
                                      first.log_output, bool(first)))
    try:
        first.add("text")
    except AssertionError as e:
        emit("add(str): %s" % describe_exception(e))


class NamedHandler(logging.Handler):
    def __init__(self, name):
        logging.Handler.__init__(self)
        self.handler_name = name
        self.seen = []

    def emit(self, record):
        self.seen.append(record.getMessage())

    def __repr__(self):
        return "<H %s>" % self.handler_name


def handler_label(handler):
    if isinstance(handler, LoggingCapture):
        return "<LoggingCapture level=%r>" % (handler.level,)
    return repr(handler)


def logging_state(names):
    root = logging.getLogger()
    parts = ["root(level=%s)=%s" % (root.level,
                                    [handler_label(h) for h in root.handlers])]
    for name in names:
        logger = logging.Logger.manager.loggerDict.get(name)
        if logger is None:
            parts.append("%s=<missing>" % name)
        elif hasattr(logger, "handlers"):
            parts.append("%s=%s" % (name,
                                    [handler_label(h) for h in logger.handlers]))
        else:
            parts.append("%s=<%s>" % (name, logger.__class__.__name__))
    return " ".join(parts)


def old_handlers_label(handler):
    return [(getattr(logger, "name", "?"), handler_label(h))
            for logger, h in handler.old_handlers]


def check_record_filter():
    section("RecordFilter")
    specs = [u"foo", u"foo,bar", u"-foo", u"-foo,-bar", u"foo,-bar",
             u"-bar,foo,foo.sub", u"-", u"-,foo", u" foo, bar", u"", u"foo,,bar",
             u"foo,", u",foo", u"--foo", u"foo,foo,-foo,-foo"]
    names = [u"foo", u"bar", u"foo.sub", u"foobar", u"", u"root", u"-foo",
             u" bar", u"baz"]
    for spec in specs:
        try:
            record_filter = RecordFilter(spec)
        except Exception as e:  # pylint: disable=broad-except
            emit("RecordFilter(%r) -> %s" % (spec, describe_exception(e)))
            continue
        emit("RecordFilter(%r): include=%s exclude=%s" % (
            spec, sorted(record_filter.include), sorted(record_filter.exclude)))
        results = []
        for name in names:
            record = logging.LogRecord(name, logging.INFO, "x.py", 1, "m", (),
                                       None)
            results.append((name, record_filter.filter(record)))
        emit("   filter: %s" % results)
    try:
        RecordFilter(None)
    except Exception as e:  # pylint: disable=broad-except
        emit("RecordFilter(None) -> %s" % e.__class__.__name__)


def check_logging_capture():
    section("LoggingCapture construction")
    configs = [
        dict(),
        dict(logging_format=u"%(name)s|%(levelname)s|%(message)s"),
        dict(logging_format=u""),
        dict(logging_datefmt=u"%Y"),
        dict(logging_format=u"%(asctime)s %(message)s", logging_datefmt=u"DATE"),
        dict(logging_datefmt=u""),
        dict(logging_level=logging.WARNING),
        dict(logging_level=0),
        dict(logging_level=logging.ERROR, logging_filter=u"equiv.a"),
        dict(logging_filter=u"-equiv.a"),
        dict(logging_filter=u"equiv.a,-equiv.b"),
        dict(logging_filter=u""),
    ]
    levels = [None, 0, logging.INFO, logging.CRITICAL]
    for kwargs in configs:
        for level in levels:
            config = Config(**kwargs)
            try:
                if level is None:
                    handler = LoggingCapture(config)
                else:
                    handler = LoggingCapture(config, level=level)
            except Exception as e:  # pylint: disable=broad-except
                emit("LoggingCapture(%s, level=%r) -> %s" % (
                    sorted(kwargs.items()), level, describe_exception(e)))
                continue
            emit("LoggingCapture(%s, level=%r): level=%r fmt=%r datefmt=%r "
                 "filters=%s old_level=%r old_handlers=%r bool=%s capacity=%r" % (
                     sorted(kwargs.items()), level, handler.level,
                     handler.formatter._fmt, handler.formatter.datefmt,
                     [(sorted(f.include), sorted(f.exclude))
                      for f in handler.filters],
                     handler.old_level, handler.old_handlers, bool(handler),
                     handler.capacity))
            with LoggingSandbox():
                handler.inveigle()
                for name, log_level, message in [
                        ("equiv.a", logging.DEBUG, "a-debug"),
                        ("equiv.a", logging.WARNING, "a-warning"),
                        ("equiv.b", logging.ERROR, "b-error"),
                        ("equiv.c", logging.CRITICAL, "c-critical %s")]:
                    args = ("arg",) if "%s" in message else ()
                    logging.getLogger(name).log(log_level, message, *args)
                handler.abandon()
                value = handler.getvalue()
                if kwargs.get("logging_format", u"").startswith(u"%(asctime)s") \
                        and not kwargs.get("logging_datefmt"):
                    value = re.sub(r"\d{4}-\d\d-\d\d \d\d:\d\d:\d\d,\d+", "<TS>",
                                   value)
                emit("   value=%r bool=%s any_errors=%s find(a-w)=%s "
                     "find(zzz)=%s find(c-critical arg)=%s" % (
                         value, bool(handler), handler.any_errors(),
                         handler.find_event("a-w"), handler.find_event("zzz"),
                         handler.find_event("c-critical arg$")))
                handler.flush()
                emit("   after flush: records=%d" % len(handler.buffer))
                handler.truncate()
                emit("   after truncate: value=%r bool=%s any_errors=%s" % (
                    handler.getvalue(), bool(handler), handler.any_errors()))

    section("LoggingCapture inveigle/abandon")
    logger_names = ["equiv", "equiv.x", "equiv.x.y.z", "equiv.x.y", "other"]
    for clear_handlers in (False, True):
        for root_level in (logging.WARNING, logging.NOTSET, logging.ERROR):
            for with_stale in (False, True):
                for capture_level in (None, logging.INFO):
                    emit("-- clear=%s root_level=%s stale_capture=%s level=%s" % (
                        clear_handlers, root_level, with_stale, capture_level))
                    with LoggingSandbox():
                        root = logging.getLogger()
                        root.setLevel(root_level)
                        root_h1 = NamedHandler("root-1")
                        root_h2 = NamedHandler("root-2")
                        root.addHandler(root_h1)
                        stale = None
                        if with_stale:
                            stale = LoggingCapture(Config())
                            root.addHandler(stale)
                            stale2 = LoggingCapture(Config())
                            root.addHandler(stale2)
                        root.addHandler(root_h2)
                        logger_x = logging.getLogger("equiv.x")
                        logger_z = logging.getLogger("equiv.x.y.z")
                        x1, x2, x3 = [NamedHandler("x-%d" % i) for i in (1, 2, 3)]
                        for h in (x1, x2, x3):
                            logger_x.addHandler(h)
                        z1 = NamedHandler("z-1")
                        logger_z.addHandler(z1)
                        logging.getLogger("other")
                        config = Config(logging_clear_handlers=clear_handlers,
                                        logging_level=capture_level)
                        handler = LoggingCapture(config)
                        emit("   before:   %s" % logging_state(logger_names))
                        handler.inveigle()
                        emit("   inveigle: %s" % logging_state(logger_names))
                        emit("      old_level=%r old_handlers=%s" % (
                            handler.old_level, old_handlers_label(handler)))
                        logger_x.warning("x-warning")
                        logger_z.info("z-info")
                        root.error("root-error")
                        logging.getLogger("other").debug("other-debug")
                        emit("      value=%r" % handler.getvalue())
                        emit("      seen: %s" % [
                            (h, h.seen) for h in (root_h1, root_h2, x1, x2, x3, z1)])
                        handler.abandon()
                        emit("   abandon:  %s" % logging_state(logger_names))
                        emit("      old_level=%r old_handlers=%s" % (
                            handler.old_level, old_handlers_label(handler)))
                        handler.abandon()
                        emit("   abandon2: %s" % logging_state(logger_names))
                        handler.inveigle()
                        handler.inveigle()
                        emit("   inveigle x2: %s" % logging_state(logger_names))
                        emit("      old_level=%r old_handlers=%s" % (
                            handler.old_level, old_handlers_label(handler)))
                        handler.abandon()
                        emit("   abandon3: %s" % logging_state(logger_names))
    emit("-- abandon without inveigle")
    with LoggingSandbox():
        root = logging.getLogger()
        root.setLevel(logging.ERROR)
        root.addHandler(NamedHandler("root-1"))
        handler = LoggingCapture(Config(logging_clear_handlers=True))
        handler.abandon()
        emit("   %s old_level=%r" % (logging_state([]), handler.old_level))

    section("log_capture.capture decorator")
    calls = []

    def hook(context, *args):
        calls.append(args)
        logging.getLogger("equiv.hook").warning("hook-warning %s", args)
        logging.getLogger("equiv.hook").error("hook-error")
        if args and args[0] == "boom":
            raise ValueError("hook-boom")
        return "hook-result"

    class HookContext(object):
        config = Config()

    decorated = [("plain", log_capture_module.capture(hook)),
                 ("level=ERROR", log_capture_module.capture(level=logging.ERROR)(hook)),
                 ("level=CRITICAL",
                  log_capture_module.capture(level=logging.CRITICAL)(hook)),
                 ("empty-call", log_capture_module.capture()(hook))]
    for label, func in decorated:
        for args in [(), ("scenario",), ("boom",)]:
            saved = sys.stdout
            sys.stdout = buffer = io.StringIO()
            try:
                with LoggingSandbox():
                    logging.getLogger().setLevel(logging.WARNING)
                    try:
                        result = repr(func(HookContext(), *args))
                    except ValueError as e:
                        result = describe_exception(e)
                    state = logging_state([])
            finally:
                sys.stdout = saved
            emit("%s%r -> %s printed=%r %s" % (label, args, result,
                                              buffer.getvalue(), state))
    emit("calls: %s" % calls)
    emit("MemoryHandler is LoggingCapture: %s" % (
        log_capture_module.MemoryHandler is LoggingCapture))


# ---------------------------------------------------------------------------
# PART 2: CHILD PROCESSES
# ---------------------------------------------------------------------------
FEATURE_MAIN = u'''
Feature: Capture A

  Scenario: A1 passing
    Given printing "A1-s1"
    When printing "A1-s2"

  Scenario: A2 failing at second step
    Given printing "A2-s1"
    When failing after "A2-s2"
    Then printing "A2-s3"

  Scenario: A3 raising
    Given printing "A3-s1"
    When raising after "A3-s2"

  Scenario: A4 nested steps then failure
    Given printing "A4-s1"
    When nested printing "A4-n"
    Then failing after "A4-s3"

  Scenario: A5 nested failing
    Given printing "A5-s1"
    When nested failing "A5-n"
    Then printing "A5-s3"

  @hookerr_before_step
  Scenario: A6 before_step hook error
    Given printing "A6-s1"
    When printing "A6-s2"

  @hookerr_after_step
  Scenario: A7 after_step hook error
    Given printing "A7-s1"
    When printing "A7-s2"

  Scenario: A8 undefined step
    Given printing "A8-s1"
    When an undefined step is used
    Then printing "A8-s3"

  Scenario: A9 assert without message
    Given bare assert after "A9-s1"

  Scenario: A10 silent failure
    Given silently failing

  Scenario: A11 scenario skipped by step
    Given printing "A11-s1"
    When skipping scenario after "A11-s2"
    Then printing "A11-s3"

  Scenario: A12 pending step
    Given pending after "A12-s1"

  @hookerr_before_scenario
  Scenario: A13 before_scenario hook error
    Given printing "A13-s1"

  @hookerr_after_scenario
  Scenario: A14 after_scenario hook error
    Given printing "A14-s1"

  Scenario: A15 changes root logger
    Given root logger is modified after "A15-s1"
    When failing after "A15-s2"

  Scenario Outline: A16 outline <marker>
    Given printing "<marker>-s1"
    When <action> after "<marker>-s2"

    Examples:
      | marker | action  |
      | A16-a  | failing |
      | A16-b  | raising |

  Scenario: A17 passing at end
    Given printing "A17-s1"
'''

FEATURE_B = u'''
Feature: Capture B

  Background:
    Given printing "B-background"

  Scenario: B1 failing
    When failing after "B1-s1"

  Scenario: B2 passing
    When printing "B2-s1"

  Scenario: B3 nested nested failing
    When doubly nested failing "B3-n"
'''

FEATURE_INTERRUPT = u'''
Feature: Interrupt

  Scenario: I1 passing first
    Given printing "I1-s1"

  Scenario: I2 interrupted
    Given printing "I2-s1"
    When interrupting after "I2-s2"
    Then printing "I2-s3"

  Scenario: I3 not run
    Given printing "I3-s1"
'''

FEATURE_INTERRUPT_HOOK = u'''
Feature: Interrupt in hook

  Scenario: J1 passing first
    Given printing "J1-s1"

  @interrupt_before_step
  Scenario: J2 interrupted in before_step
    Given printing "J2-s1"

  Scenario: J3 not run
    Given printing "J3-s1"
'''

FEATURE_INTERRUPT_HOOK2 = u'''
Feature: Interrupt in after_step hook

  @interrupt_after_step
  Scenario: K1 interrupted in after_step
    Given printing "K1-s1"
    When printing "K1-s2"

  Scenario: K2 not run
    Given printing "K2-s1"
'''

STEPS = u'''
# -*- coding: UTF-8 -*-
from __future__ import print_function
import logging
import sys
from behave import step
from behave.api.pending_step import StepNotImplementedError

log = logging.getLogger("equiv.steps")
other = logging.getLogger("equiv.other")


def produce(marker):
    sys.stdout.write(u"OUT:%s\\n" % marker)
    sys.stderr.write(u"ERR:%s\\n" % marker)
    log.warning(u"LOG:%s", marker)
    other.error(u"LOGOTHER:%s", marker)
    log.debug(u"LOGDEBUG:%s", marker)
    logging.getLogger().info(u"LOGROOT:%s", marker)


@step(u'printing "{marker}"')
def step_printing(context, marker):
    produce(marker)


@step(u'failing after "{marker}"')
def step_failing(context, marker):
    produce(marker)
    assert False, u"FAILED:%s" % marker


@step(u'raising after "{marker}"')
def step_raising(context, marker):
    produce(marker)
    raise RuntimeError(u"RAISED:%s" % marker)


@step(u'bare assert after "{marker}"')
def step_bare_assert(context, marker):
    produce(marker)
    assert False


@step(u'silently failing')
def step_silently_failing(context):
    assert False, u"FAILED:silent"


@step(u'interrupting after "{marker}"')
def step_interrupting(context, marker):
    produce(marker)
    raise KeyboardInterrupt()


@step(u'pending after "{marker}"')
def step_pending(context, marker):
    produce(marker)
    raise StepNotImplementedError(u"PENDING:%s" % marker)


@step(u'skipping scenario after "{marker}"')
def step_skipping(context, marker):
    produce(marker)
    context.scenario.skip(u"SKIP:%s" % marker)


@step(u'root logger is modified after "{marker}"')
def step_modify_root(context, marker):
    produce(marker)
    root = logging.getLogger()
    root.setLevel(logging.CRITICAL)
    root.addHandler(logging.NullHandler())


@step(u'nested printing "{marker}"')
def step_nested_printing(context, marker):
    produce(marker + "-before")
    context.execute_steps(u"""
        Given printing "{0}-1"
        When printing "{0}-2"
    """.format(marker))
    context.note("in-nested-step: " + context.streams())
    produce(marker + "-after")


@step(u'nested failing "{marker}"')
def step_nested_failing(context, marker):
    produce(marker + "-before")
    context.execute_steps(u"""
        Given printing "{0}-1"
        When failing after "{0}-2"
        Then printing "{0}-3"
    """.format(marker))
    produce(marker + "-after")


@step(u'doubly nested failing "{marker}"')
def step_doubly_nested_failing(context, marker):
    produce(marker + "-outer")
    try:
        context.execute_steps(u'When nested failing "{0}-inner"'.format(marker))
    except AssertionError as e:
        context.note("doubly-nested: caught AssertionError; " + context.streams())
        raise
'''

ENVIRONMENT = u'''
# -*- coding: UTF-8 -*-
from __future__ import print_function
import logging
import os
import re
import sys

SIDE_LOG = os.environ["EQUIV_SIDE_LOG"]
MODE = os.environ.get("EQUIV_MODE", "")
ORIGINAL = []
log = logging.getLogger("equiv.hooks")


def note(message):
    with open(SIDE_LOG, "a") as f:
        f.write(message + "\\n")


class SideLogHandler(logging.Handler):
    """A 'real' logging handler of the user: what arrives here was not isolated."""
    def emit(self, record):
        note("REAL-LOG-HANDLER: %s:%s:%s" % (record.levelname, record.name,
                                             record.getMessage()))

    def __repr__(self):
        return "<SideLogHandler>"


def label(stream, context):
    if stream is ORIGINAL[0]:
        return "REAL-STDOUT"
    if stream is ORIGINAL[1]:
        return "REAL-STDERR"
    if stream is getattr(context, "stdout_capture", None):
        return "CAPTURE-STDOUT"
    if stream is getattr(context, "stderr_capture", None):
        return "CAPTURE-STDERR"
    return "OTHER:%s" % stream.__class__.__name__


def streams(context):
    return "sys.stdout=%s sys.stderr=%s" % (label(sys.stdout, context),
                                            label(sys.stderr, context))


def handler_label(handler):
    name = handler.__class__.__name__
    if name == "LoggingCapture":
        return "LoggingCapture(level=%r)" % (handler.level,)
    return name


def root_state():
    root = logging.getLogger()
    named = []
    for name in sorted(logging.Logger.manager.loggerDict.keys()):
        logger = logging.Logger.manager.loggerDict[name]
        if name.startswith("equiv") and getattr(logger, "handlers", None):
            named.append("%s=%s" % (name, [handler_label(h)
                                           for h in logger.handlers]))
    return "root.level=%s root.handlers=%s %s" % (
        root.level, [handler_label(h) for h in root.handlers], " ".join(named))


def produce(marker):
    sys.stdout.write(u"OUT:%s\\n" % marker)
    sys.stderr.write(u"ERR:%s\\n" % marker)
    log.warning(u"LOG:%s", marker)


def captured_text(captured):
    if captured is None:
        return "None"
    return "stdout=%r stderr=%r log=%r" % (captured.stdout, captured.stderr,
                                           captured.log_output)


def before_all(context):
    ORIGINAL[:] = [sys.stdout, sys.stderr]
    context.note = note
    context.streams = lambda: streams(context)
    if "user-handlers" in MODE:
        logging.getLogger().addHandler(SideLogHandler())
        logging.getLogger("equiv.other").addHandler(SideLogHandler())
        logging.getLogger("equiv.other").addHandler(logging.NullHandler())
        logging.getLogger().setLevel(logging.WARNING)
    if "setup-logging" in MODE:
        context.config.setup_logging()
    note("before_all: %s | %s" % (streams(context), root_state()))
    produce("hook-before_all")


def before_feature(context, feature):
    note("before_feature %s: %s | %s" % (feature.name, streams(context),
                                         root_state()))
    produce("hook-before_feature")


def before_scenario(context, scenario):
    note("before_scenario %s: %s | %s" % (scenario.name, streams(context),
                                          root_state()))
    produce("hook-before_scenario:" + scenario.name)
    if "hookerr_before_scenario" in scenario.tags:
        raise RuntimeError("HOOKERR:before_scenario")


def before_step(context, step):
    note("  before_step %s: %s" % (step.name, streams(context)))
    produce("hook-before_step:" + step.name)
    if "hookerr_before_step" in context.tags and "s2" in step.name:
        raise RuntimeError("HOOKERR:before_step")
    if "interrupt_before_step" in context.tags:
        raise KeyboardInterrupt()


def after_step(context, step):
    note("  after_step %s: status=%s %s" % (step.name, step.status.name,
                                            streams(context)))
    produce("hook-after_step:" + step.name)
    if "hookerr_after_step" in context.tags and "s1" in step.name:
        raise RuntimeError("HOOKERR:after_step")
    if "interrupt_after_step" in context.tags:
        raise KeyboardInterrupt()


def after_scenario(context, scenario):
    note("after_scenario %s: status=%s %s | %s" % (
        scenario.name, scenario.status.name, streams(context), root_state()))
    note("  runner.captured: %s" % captured_text(context._runner.captured))
    note("  context.captured: %s" % captured_text(context.captured))
    for step in scenario.all_steps:
        note("  step %r: status=%s hook_failed=%s captured=(%s)" % (
            step.name, step.status.name, step.hook_failed,
            captured_text(step.captured)))
        note("    error_message=%r" % (step.error_message,))
    produce("hook-after_scenario:" + scenario.name)
    if "hookerr_after_scenario" in scenario.tags:
        raise RuntimeError("HOOKERR:after_scenario")


def after_feature(context, feature):
    note("after_feature %s: status=%s %s | %s" % (
        feature.name, feature.status.name, streams(context), root_state()))
    for scenario in feature.walk_scenarios():
        note("  scenario %r: status=%s captured=(%s)" % (
            scenario.name, scenario.status.name,
            captured_text(scenario.captured)))
        note("    error_message=%r" % (scenario.error_message,))
    produce("hook-after_feature")


def after_all(context):
    note("after_all: %s | %s" % (streams(context), root_state()))
    produce("hook-after_all")
'''


def write_file(path, text):
    dirname = os.path.dirname(path)
    if not os.path.isdir(dirname):
        os.makedirs(dirname)
    with io.open(path, "w", encoding="UTF-8") as f:
        f.write(text.lstrip())


def normalize(text, workdir):
    text = text.replace(os.path.realpath(workdir), "<TMP>")
    text = text.replace(workdir, "<TMP>")
    text = re.sub(r"Took \d+m\d+\.\d+s", "Took <T>", text)
    text = re.sub(r"Took \d+min \d+\.\d+s", "Took <T>", text)
    text = re.sub(r"\b\d+\.\d+s\b", "<T>s", text)
    text = re.sub(r"0x[0-9a-fA-F]+", "0x<ADDR>", text)
    text = re.sub(r' time="[^"]*"', ' time="<T>"', text)
    text = re.sub(r' timestamp="[^"]*"', ' timestamp="<TS>"', text)
    text = re.sub(r' hostname="[^"]*"', ' hostname="<HOST>"', text)
    return text


def run_behave(workdir, label, args, mode=""):
    side_log = os.path.join(workdir, "side.log")
    if os.path.exists(side_log):
        os.remove(side_log)
    reports = os.path.join(workdir, "reports")
    if os.path.isdir(reports):
        shutil.rmtree(reports)
    env = dict(os.environ)
    env["PYTHONPATH"] = WORKTREE
    env["EQUIV_SIDE_LOG"] = side_log
    env["EQUIV_MODE"] = mode
    env["PYTHONHASHSEED"] = "0"
    env["PYTHONDONTWRITEBYTECODE"] = "1"
    env.pop("BEHAVE_ARGS", None)
    command = [sys.executable, "-m", "behave", "--no-color"] + list(args)
    process = subprocess.Popen(command, cwd=workdir, env=env,
                               stdout=subprocess.PIPE, stderr=subprocess.PIPE)
    stdout, stderr = process.communicate()
    emit("")
    emit("#" * 70)
    emit("## RUN %s: behave %s (mode=%r)" % (label, " ".join(args), mode))
    emit("#" * 70)
    emit("returncode: %s" % process.returncode)
    emit("---- child stdout:")
    emit(normalize(stdout.decode("UTF-8", "replace"), workdir))
    emit("---- child stderr:")
    emit(normalize(stderr.decode("UTF-8", "replace"), workdir))
    emit("---- side log:")
    if os.path.exists(side_log):
        with io.open(side_log, encoding="UTF-8") as f:
            emit(normalize(f.read(), workdir))
    else:
        emit("<no side log>")
    if os.path.isdir(reports):
        for name in sorted(os.listdir(reports)):
            emit("---- report %s:" % name)
            with io.open(os.path.join(reports, name), encoding="UTF-8") as f:
                emit(normalize(f.read(), workdir))


def check_child_processes():
    workdir = tempfile.mkdtemp(prefix="equiv_c18_")
    try:
        write_file(os.path.join(workdir, "features", "main.feature"), FEATURE_MAIN)
        write_file(os.path.join(workdir, "features", "second.feature"), FEATURE_B)
        write_file(os.path.join(workdir, "other", "interrupt.feature"),
                   FEATURE_INTERRUPT)
        write_file(os.path.join(workdir, "other", "interrupt_hook.feature"),
                   FEATURE_INTERRUPT_HOOK)
        write_file(os.path.join(workdir, "other", "interrupt_hook2.feature"),
                   FEATURE_INTERRUPT_HOOK2)
        for base in ("features", "other"):
            write_file(os.path.join(workdir, base, "steps", "steps.py"), STEPS)
            write_file(os.path.join(workdir, base, "environment.py"), ENVIRONMENT)

        section("CHILD PROCESSES: all 8 capture switch combinations")
        switch_options = [
            ("--capture", "--no-capture"),
            ("--capture-stderr", "--no-capture-stderr"),
            ("--logcapture", "--no-logcapture"),
        ]
        number = 0
        for combination in itertools.product(*switch_options):
            number += 1
            run_behave(workdir, "combo-%d" % number,
                       ["-f", "plain"] + list(combination) + ["features/"],
                       mode="user-handlers")
            run_behave(workdir, "interrupt-%d" % number,
                       ["-f", "plain"] + list(combination)
                       + ["other/interrupt.feature"], mode="user-handlers")

        section("CHILD PROCESSES: other option sets")
        extra_runs = [
            ("pretty", ["-f", "pretty", "features/main.feature"], ""),
            ("progress", ["-f", "progress", "features/"], ""),
            ("plain-no-user-handlers", ["-f", "plain", "features/"], ""),
            ("setup-logging", ["-f", "plain", "features/second.feature"],
             "setup-logging"),
            ("clear-handlers", ["-f", "plain", "--logging-clear-handlers",
                                "features/"], "user-handlers"),
            ("clear-handlers-nologcapture",
             ["-f", "plain", "--logging-clear-handlers", "--no-logcapture",
              "features/second.feature"], "user-handlers"),
            ("level-error", ["-f", "plain", "--logging-level=ERROR",
                             "features/second.feature"], "user-handlers"),
            ("level-debug", ["-f", "plain", "--logging-level=DEBUG",
                             "features/second.feature"], "user-handlers"),
            ("filter-include", ["-f", "plain", "--logging-filter=equiv.steps",
                                "features/second.feature"], "user-handlers"),
            ("filter-exclude", ["-f", "plain",
                                "--logging-filter=-equiv.steps,-equiv.hooks",
                                "features/second.feature"], "user-handlers"),
            ("filter-mixed", ["-f", "plain",
                              "--logging-filter=equiv.steps,-equiv.other",
                              "features/second.feature"], "user-handlers"),
            ("format", ["-f", "plain",
                        "--logging-format=%(name)s/%(levelname)s/%(message)s",
                        "--logging-datefmt=%Y", "features/second.feature"],
             "user-handlers"),
            ("junit", ["-f", "plain", "--junit", "--junit-directory=reports",
                       "features/"], "user-handlers"),
            ("junit-no-capture", ["-f", "plain", "--junit",
                                  "--junit-directory=reports", "--no-capture",
                                  "--no-capture-stderr", "--no-logcapture",
                                  "features/second.feature"], "user-handlers"),
            ("stop", ["-f", "plain", "--stop", "features/"], "user-handlers"),
            ("dry-run", ["-f", "plain", "--dry-run", "features/second.feature"],
             "user-handlers"),
            ("verbose-hook-errors", ["-f", "plain", "--verbose",
                                     "--tags=hookerr_before_step,hookerr_after_step",
                                     "features/main.feature"], "user-handlers"),
            ("wip", ["--wip", "features/second.feature"], "user-handlers"),
            ("interrupt-hook", ["-f", "plain", "other/interrupt_hook.feature"],
             "user-handlers"),
            ("interrupt-hook-nocapture",
             ["-f", "plain", "--no-capture", "--no-capture-stderr",
              "--no-logcapture", "other/interrupt_hook.feature"],
             "user-handlers"),
            ("interrupt-hook2", ["-f", "plain", "other/interrupt_hook2.feature"],
             "user-handlers"),
            ("interrupt-all", ["-f", "plain", "other/"], "user-handlers"),
        ]
        for label, args, mode in extra_runs:
            run_behave(workdir, label, args, mode=mode)
    finally:
        shutil.rmtree(workdir, ignore_errors=True)


def main():
    check_captured()
    check_capture_controller()
    check_record_filter()
    check_logging_capture()
    check_child_processes()
    text = u"\n".join(OUT) + u"\n"
    text = re.sub(r"0x[0-9a-fA-F]+", "0x<ADDR>", text)
    if sys.version_info[0] < 3:
        text = text.encode("UTF-8")
    sys.stdout.write(text)


if __name__ == "__main__":
    main()
