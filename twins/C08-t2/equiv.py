# -*- coding: utf-8 -*-
"""
Equivalence transcript for twin C08-t2 (TagExpression.check, v1.py).

Exercises check() directly (truth tables, boundary cases, how the tags
argument is consumed, exception behaviour), through make_tag_expression()
and end-to-end through "python -m behave --tags=..." (scenario selection).
"""
from __future__ import print_function
import itertools
import os
import shutil
import subprocess
import sys
import tempfile
sys.path.insert(0, "/tmp/wtT/C08")

from behave.tag_expression.v1 import TagExpression
from behave.tag_expression.builder import (
    TagExpressionProtocol, make_tag_expression
)


class LoggingTags(object):
    """Iterable that records how often it is iterated/consumed."""
    def __init__(self, tags, log):
        self.tags = tags
        self.log = log

    def __iter__(self):
        self.log.append("iter")
        for tag in self.tags:
            self.log.append("yield:%s" % tag)
            yield tag
        self.log.append("done")


# -- SECTION 1: Truth tables over all subsets of {a, b, c}
print("== truth tables")
UNIVERSE = ["a", "b", "c"]
SUBSETS = [list(c) for n in range(len(UNIVERSE) + 1)
           for c in itertools.combinations(UNIVERSE, n)]
PARTS_LIST = [
    [], ["@a"], ["-@a"], ["~@a"], ["@a,@b"], ["@a", "@b"], ["-a,-b"],
    ["-a", "-b"], ["@a,-@b", "~c"], ["@a,@b,@c"], ["@a", "@b", "@c"],
    ["~@a,~@b,~@c"], ["-a", "~b", "-@c"], ["@a,-a"], ["@a", "-a"],
    ["@a,@b", "-a,-b"], ["@a:1,@b:2", "~@c:3"], ["@zzz"], ["-zzz"],
    [""], [","], ["@a,"], ["--a"], ["@-a"], ["@~a"], ["a b"], ["-a b"],
]
for parts in PARTS_LIST:
    expr = TagExpression(parts)
    results = [expr.check(tags) for tags in SUBSETS]
    print("%r ands=%r -> %s types=%s" % (
        parts, expr.ands, "".join("1" if r else "0" for r in results),
        sorted(set(type(r).__name__ for r in results))))

# -- SECTION 2: Unusual element tags (decorated, negated-looking, empty, dups)
print("== unusual element tags")
ODD_TAGS = [
    [""], ["-a"], ["~a"], ["@a"], ["a", "a"], ("a", "b"), set(["a"]),
    frozenset(["b"]), {"a": 1}, "a", "abc", u"\xe4", ["a b"], ["-a b"], ["a", None, 3],
]
for parts in (["a"], ["-a"], ["--a"], [""], ["-"], ["a b"], ["-a b"], [u"\xe4,-a"]):
    expr = TagExpression(parts)
    print("%r -> %s" % (parts, "".join(
        "1" if expr.check(tags) else "0" for tags in ODD_TAGS)))

# -- SECTION 3: How the tags argument is consumed
print("== consumption of tags argument")
for parts in ([], ["a"], ["-a"], ["a,b", "c"], ["zzz", "a"], ["a", "zzz", "b"]):
    log = []
    expr = TagExpression(parts)
    outcome = expr.check(LoggingTags(["a", "b"], log))
    print("%r -> %r log=%r" % (parts, outcome, log))
gen = (t for t in ["a", "c"])
print("generator ->", TagExpression(["a", "c"]).check(gen), list(gen))

# -- SECTION 4: Exceptions
print("== exceptions")
BAD_TAGS = [None, 3, [["a"]], [{}], object]
for parts in ([], ["a"], ["-a,b"]):
    expr = TagExpression(parts)
    for bad in BAD_TAGS:
        try:
            print("%r check(%r) -> %r" % (parts, bad, expr.check(bad)))
        except Exception as e:  # pylint: disable=broad-except
            print("%r check(%r) -> EXC %s: %s" % (
                parts, bad, e.__class__.__name__, e))
# -- User-modified CNF state with odd terms (short-circuit position matters)
for ands in ([["a", None]], [[None, "a"]], [["zzz"], [None]], [[None], ["zzz"]],
             [["a"], []], [[], ["a"]], [("a", "-b")], ["ab"], [["-zzz", 3]]):
    expr = TagExpression([])
    expr.ands = ands
    try:
        print("ands=%r -> %r" % (ands, expr.check(["a"])))
    except Exception as e:  # pylint: disable=broad-except
        print("ands=%r -> EXC %s: %s" % (ands, e.__class__.__name__, e))

# -- SECTION 5: via make_tag_expression
print("== make_tag_expression")
TEXTS = ["@a", "-@a", "@a,@b", "@a @b", "~@a,@b -c", ["@a,-@b", "~c"],
         "not a", "a and not b", "a or b", ["@a", "not @b"]]
for protocol in (TagExpressionProtocol.V1, TagExpressionProtocol.AUTO_DETECT):
    for text in TEXTS:
        expr = make_tag_expression(text, protocol)
        print("%s %r -> %s %s" % (
            protocol.name, text, expr.__class__.__module__,
            "".join("1" if expr.check(tags) else "0" for tags in SUBSETS)))

# -- SECTION 6: End-to-end scenario selection with behave --tags
print("== behave --tags")
FEATURE = u"""\
Feature: F
  @a
  Scenario: S_a
    Given a step
  @b
  Scenario: S_b
    Given a step
  @a @b
  Scenario: S_ab
    Given a step
  @c
  Scenario: S_c
    Given a step
  Scenario: S_none
    Given a step
"""
STEPS = u"""\
from behave import given
@given(u"a step")
def step_impl(ctx):
    pass
"""
workdir = tempfile.mkdtemp(prefix="c08t2_")
try:
    os.makedirs(os.path.join(workdir, "features", "steps"))
    with open(os.path.join(workdir, "features", "f.feature"), "w") as f:
        f.write(FEATURE)
    with open(os.path.join(workdir, "features", "steps", "steps.py"), "w") as f:
        f.write(STEPS)
    env = dict(os.environ, PYTHONPATH="/tmp/wtT/C08", PYTHONDONTWRITEBYTECODE="1")
    TAG_ARGS = [
        [], ["--tags=@a"], ["--tags=-@a"], ["--tags=~@a"], ["--tags=@a,@b"],
        ["--tags=@a", "--tags=@b"], ["--tags=~@a", "--tags=-@b"],
        ["--tags=@a,@c", "--tags=~@b"], ["--tags=a", "--tags=-b,c"],
        ["--tags=not @a"], ["--tags=@a and not @b"], ["--tags=~@a and @b"],
    ]
    for tag_args in TAG_ARGS:
        cmd = [sys.executable, "-m", "behave", "-f", "plain", "--no-timings",
               "--no-skipped", "--no-color"] + tag_args + ["features"]
        proc = subprocess.Popen(cmd, cwd=workdir, env=env,
                                stdout=subprocess.PIPE, stderr=subprocess.STDOUT)
        output = proc.communicate()[0].decode("utf-8")
        selected = [line.strip() for line in output.splitlines()
                    if line.strip().startswith("Scenario:")]
        summary = [line.strip() for line in output.splitlines()
                   if ("scenario" in line and " passed, " in line) or "Error" in line]
        print("%r rc=%s selected=%r %r" % (
            tag_args, proc.returncode, selected, summary))
finally:
    shutil.rmtree(workdir, ignore_errors=True)
