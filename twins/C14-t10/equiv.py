# -*- coding: UTF-8 -*-
"""
Equivalence transcript for the C14 twins (summary conservation).

Prints a canonical transcript of what the summary code does, observed only
through public behaviour:

  PART A: the summary line formatters (all formats, dict and counter inputs)
  PART B: the counter value objects (StatusCounts, HookErrorCounts, SummaryCounts)
  PART C: the ModelVisitor traversal (call logs, cancelled visits, bad items)
  PART D: complete behave runs in sub-processes (driver script) with
          SummaryReporterV1 in every output format and SummaryReporterV2,
          compared with a direct census of the model after the run.

USAGE: /venv/bin/python equiv.py > transcript.txt
"""

from __future__ import absolute_import, print_function
import sys
WORKTREE = "/tmp/wtV/C14"
sys.path.insert(0, WORKTREE)

import os
import re
import shutil
import subprocess
import tempfile
import textwrap

from behave.model_core import Status
from behave.model import Feature, Rule, Scenario, ScenarioOutline, Step
from behave.model_visitor import ModelVisitor, IModelVisitor
from behave.parser import parse_feature
from behave import summary as summary_module
from behave.summary import (
    StatusCounts, HookErrorCounts, SummaryCounts, SummaryCollector,
    STATUS_ORDER
)
from behave.reporter import summary as reporter_summary


def show(*args):
    # -- CANONICAL: Memory addresses differ from run to run.
    args = [re.sub(r" at 0x[0-9a-fA-F]+", " at 0x?", arg)
            if isinstance(arg, str) else arg for arg in args]
    print(*args)
    sys.stdout.flush()


def call(label, func, *args, **kwargs):
    try:
        result = func(*args, **kwargs)
        show("%s -> %r" % (label, result))
        return result
    except Exception as e:  # pylint: disable=broad-except
        show("%s !! %s: %s" % (label, e.__class__.__name__, e))
        return None


# ---------------------------------------------------------------------------
# PART A: FORMATTERS
# ---------------------------------------------------------------------------
def part_a():
    show("=" * 70)
    show("PART A: summary line formatters")
    names = [status.name for status in Status]
    dict_cases = []
    dict_cases.append(("empty", {}))
    dict_cases.append(("only-all", {"all": 7}))
    dict_cases.append(("zero6", {"all": 0, "passed": 0, "failed": 0, "error": 0,
                                 "hook_error": 0, "skipped": 0, "untested": 0}))
    dict_cases.append(("one-passed", {"all": 1, "passed": 1, "failed": 0,
                                      "skipped": 0, "untested": 0}))
    dict_cases.append(("no-all", {"passed": 2, "failed": 1, "skipped": 3,
                                  "untested": 0, "undefined": 4}))
    dict_cases.append(("no-all-one", {"passed": 0, "failed": 1}))
    dict_cases.append(("no-passed", {"all": 3, "failed": 1, "error": 2}))
    dict_cases.append(("every-status-1", dict([(name, 1) for name in names],
                                              all=len(names))))
    dict_cases.append(("every-status-0", dict([(name, 0) for name in names],
                                              all=0)))
    dict_cases.append(("every-status-n", dict([(name, n + 2)
                                               for n, name in enumerate(names)])))
    dict_cases.append(("wrong-all", {"all": 1, "passed": 5, "failed": 2}))
    dict_cases.append(("all-none", {"all": None, "passed": 5, "failed": 2,
                                    "cleanup_error": 3}))
    dict_cases.append(("big", {"all": 123456, "passed": 123000, "failed": 400,
                               "skipped": 56, "untested": 0}))
    dict_cases.append(("none-value", {"passed": None, "failed": 1}))
    dict_cases.append(("text-value", {"passed": "x", "failed": 1}))
    dict_cases.append(("float-value", {"passed": 1.0, "failed": 0.0,
                                       "undefined": 0.0, "skipped": 0.0}))
    dict_cases.append(("status-keys", {Status.passed: 2, Status.failed: 1}))
    dict_cases.append(("steps-table", {
        "undefined": 1, "untested_undefined": 2, "pending": 3,
        "pending_warn": 4, "untested_pending": 5, "all": 21,
        "passed": 1, "failed": 1, "error": 1, "hook_error": 1,
        "skipped": 1, "untested": 1}))
    counter_cases = [
        ("SC-empty", StatusCounts()),
        ("SC-p3f1", StatusCounts.from_counts(passed=3, failed=1)),
        ("SC-all", StatusCounts.from_counts(
            passed=1, failed=2, error=3, skipped=4, untested=5, pending=6,
            pending_warn=7, untested_pending=8, undefined=9,
            untested_undefined=10, hook_error=11, cleanup_error=12)),
        ("HC-empty", HookErrorCounts()),
        ("HC-some", HookErrorCounts.from_counts(on_feature=1, on_step=2)),
    ]
    statement_types = ["feature", "rule", "scenario", "step", "hook.errors", ""]
    format_names = ["v1", "v1A", "v1B", "v2", "v3", "v0", None]
    for case_name, data in dict_cases + counter_cases:
        for format_name in format_names:
            func = reporter_summary.select_format_summary_by_name(format_name)
            for statement_type in statement_types:
                before = repr(data)
                label = "A %s %s %r" % (case_name, format_name, statement_type)
                call(label, func, statement_type, data)
                if repr(data) != before:
                    show("   MUTATED: %s" % repr(data))

    # -- DIRECT USE: format_summary_with_schema() with its optional params.
    with_schema = reporter_summary.format_summary_with_schema
    data = {"all": 9, "passed": 4, "failed": 2, "skipped": 3, "untested": 0,
            "undefined": 0, "error": 0}
    variants = [
        {},
        {"schema": None},
        {"schema": ""},
        {"schema": "{statement}|{count}|{parts}|{suffix}|{end}"},
        {"schema": "{count:>6}:{statement:^12}:{parts}"},
        {"item_schema": None},
        {"item_schema": ""},
        {"item_schema": "{name}={value}"},
        {"item_schema": "{value:03}"},
        {"item_schema": "{name!r}"},
        {"item_schema": "{other}"},
        {"schema": "{missing}"},
        {"use_passed_for_all": True},
        {"use_passed_for_all": 1},
        {"use_passed_for_all": 0},
        {"use_passed_for_all": True, "item_schema": ""},
        {"use_passed_for_all": True, "item_schema": "{name}:{value}"},
        {"use_passed_for_all": True, "schema": "{count}{suffix}/{parts}"},
        {"end": ""},
        {"end": " END"},
        {"use_passed_for_all": True, "end": ""},
    ]
    for variant in variants:
        for statement_type in ("scenario", "step"):
            for source_name, source in (("dict", data),
                                        ("no-all", {"passed": 1, "failed": 0}),
                                        ("no-passed", {"failed": 1}),
                                        ("empty", {}),
                                        ("counter", StatusCounts.from_counts(passed=1))):
                label = "A.schema %s %s %s" % (sorted(variant.items()),
                                               statement_type, source_name)
                call(label, with_schema, statement_type, source, **variant)
    call("A.positional", with_schema, "step", data,
         "{count}#{statement}#{parts}", "{name}", True, ";")
    call("A.badtype-1", with_schema, "step", None)
    call("A.badtype-2", with_schema, "step", [("passed", 1)])
    call("A.badtype-3", with_schema, None, {"passed": 1})
    call("A.badtype-4", reporter_summary.format_summary_v1, "step", None)

    for summary in ({}, {"all": 5}, {"all": 5, "passed": 2, "failed": 1},
                    {"passed": 2, "failed": 1}, {"all": "x", "passed": 2}):
        call("A.sum %r" % sorted(summary.items(), key=str),
             reporter_summary.compute_summary_sum, summary)
    call("A.sum counter", reporter_summary.compute_summary_sum,
         StatusCounts.from_counts(passed=2, skipped=3))
    for word, count in (("step", 0), ("step", 1), ("step", 2), ("", 0),
                        ("step", 1.0), ("step", "1"), ("step", None)):
        call("A.pluralize %r %r" % (word, count),
             reporter_summary.pluralize, word, count)
    call("A.pluralize suffix", reporter_summary.pluralize, "class", 2, "es")
    for value in (0, 7, 10, 12345, -3, 1.5, "abc"):
        call("A.number_width %r" % (value,), reporter_summary.number_width, value)
    show("A.constants OPTIONAL_V1=%r" % (
        [s.name for s in reporter_summary.OPTIONAL_STATUS_PARTS_V1],))
    show("A.constants OPTIONAL_V2=%r" % (
        [s.name for s in reporter_summary.OPTIONAL_STATUS_PARTS_V2],))
    show("A.constants STATUS_ORDER=%r" % ([s.name for s in STATUS_ORDER],))
    show("A.constants same STATUS_ORDER=%r" % (
        reporter_summary.STATUS_ORDER is summary_module.STATUS_ORDER,))
    show("A.constants FORMAT_MAP=%r default=%r" % (
        sorted(reporter_summary.OUTPUT_FORMAT_MAP.keys()),
        reporter_summary.OUTPUT_FORMAT_DEFAULT))


# ---------------------------------------------------------------------------
# PART B: COUNTER VALUE OBJECTS
# ---------------------------------------------------------------------------
def describe_counts(counts):
    return "%s items=%r" % (counts.__class__.__name__,
                            [(getattr(k, "name", k), v) for k, v in counts.items()])


def part_b():
    show("=" * 70)
    show("PART B: counter value objects")
    sc0 = StatusCounts()
    sc1 = StatusCounts.from_counts(passed=3, failed=1, undefined=2)
    sc2 = StatusCounts({"passed": 1, Status.skipped: 2}, error=4)
    sc3 = StatusCounts.from_dict({"passed": 3, "failed": 1, "undefined": 2})
    hc0 = HookErrorCounts()
    hc1 = HookErrorCounts.from_counts(on_feature=1, on_step=3)
    hc2 = HookErrorCounts({"on_rule": 2, "other": 9}, on_scenario=1)
    hc3 = HookErrorCounts.from_dict({"on_feature": 1, "on_step": 3})
    everything = [("sc0", sc0), ("sc1", sc1), ("sc2", sc2), ("sc3", sc3),
                  ("hc0", hc0), ("hc1", hc1), ("hc2", hc2), ("hc3", hc3)]
    for name, counts in everything:
        show("B %s: %s" % (name, describe_counts(counts)))
        show("B %s: str=%s | repr=%r" % (name, counts, counts))
        show("B %s: all=%r bool=%r len=%r" % (name, counts.all, bool(counts),
                                               len(counts)))
        call("B %s.get('all')" % name, counts.get, "all")
        call("B %s.get('all', 5)" % name, counts.get, "all", 5)
        call("B %s['all']" % name, counts.__getitem__, "all")
        call("B %s.get('passed')" % name, counts.get, "passed")
        call("B %s.get('passed', -1)" % name, counts.get, "passed", -1)
        call("B %s.get(Status.passed)" % name, counts.get, Status.passed)
        call("B %s.get(Status.passed, -1)" % name, counts.get, Status.passed, -1)
        call("B %s[Status.passed]" % name, counts.__getitem__, Status.passed)
        call("B %s['on_step']" % name, counts.__getitem__, "on_step")
        call("B %s.get('on_step')" % name, counts.get, "on_step")
        call("B %s['nope']" % name, counts.__getitem__, "nope")
        call("B %s.get('nope')" % name, counts.get, "nope")
        call("B %s.get('nope', 'dflt')" % name, counts.get, "nope", "dflt")
        call("B %s.total()" % name, counts.total)
        call("B %s.as_dict()" % name, lambda c=counts: list(c.as_dict().items()))
        call("B %s 'all' in" % name, lambda c=counts: "all" in c)
        call("B %s 'passed' in" % name, lambda c=counts: Status.passed in c)
        call("B %s has __nonzero__" % name, lambda c=counts: hasattr(c, "__nonzero__"))
        call("B %s isinstance" % name, lambda c=counts: (
            isinstance(c, dict), isinstance(c, summary_module.Counter),
            isinstance(c, StatusCounts), isinstance(c, HookErrorCounts)))
    for name1, counts1 in everything:
        for name2, counts2 in everything:
            call("B %s == %s" % (name1, name2), lambda: counts1 == counts2)
            call("B %s != %s" % (name1, name2), lambda: counts1 != counts2)
    for name, counts in everything:
        for other in (None, 0, "text", {}, {"passed": 1}, dict(counts.items()),
                      summary_module.Counter()):
            call("B %s == %r" % (name, other), lambda: counts == other)
            call("B %s != %r" % (name, other), lambda: counts != other)

    # -- INCREMENT / RESET:
    counts = StatusCounts()
    for status in (Status.passed, Status.passed, Status.cleanup_error,
                   Status.executing, Status.unknown, Status.xfailed):
        call("B sc.increment(%s)" % status.name, counts.increment, status)
    call("B sc.increment()", counts.increment)
    call("B sc.increment(delta=5)", counts.increment, Status.failed, 5)
    call("B sc.increment('passed')", counts.increment, "passed")
    call("B sc.increment(None)", counts.increment, None)
    show("B sc after: %s | %s" % (describe_counts(counts), counts))
    call("B sc.reset()", counts.reset)
    show("B sc after reset: %s | %r bool=%r" % (describe_counts(counts), counts,
                                                  bool(counts)))
    hcounts = HookErrorCounts()
    for name in ("on_feature", "on_rule", "on_scenario", "on_step", "on_step",
                 "all", "on_tag", None):
        call("B hc.increment(%r)" % (name,), hcounts.increment, name)
    call("B hc.increment(delta)", hcounts.increment, "on_rule", 4)
    show("B hc after: %s | %s | iter=%r" % (describe_counts(hcounts), hcounts,
                                            list(hcounts)))
    # -- ARITHMETIC (inherited from Counter):
    total = StatusCounts()
    total += sc1
    total += sc2
    show("B sc += : %s %s all=%r" % (type(total).__name__, describe_counts(total),
                                      total.all))
    call("B sc1 + sc2", lambda: sorted(
        (k.name, v) for k, v in (sc1 + sc2).items()))
    call("B sc copy", lambda: (type(sc1.copy()).__name__, sc1.copy() == sc1,
                               describe_counts(sc1.copy())))
    call("B hc copy", lambda: describe_counts(hc1.copy()))
    call("B StatusCounts(bad key)", StatusCounts, {1: 2})
    call("B StatusCounts(bad name)", StatusCounts, {"nope": 2})
    call("B StatusCounts(kw bad name)", StatusCounts, nope=2)
    call("B StatusCounts.from_dict(list)", StatusCounts.from_dict, [1])
    call("B StatusCounts.from_counts(bad)", lambda: StatusCounts.from_counts(x=1))
    call("B HookErrorCounts.from_dict(list)", HookErrorCounts.from_dict, [1])
    call("B HookErrorCounts.from_counts(bad)",
         lambda: HookErrorCounts.from_counts(x=1))
    import pickle
    import copy
    for name, counts in everything:
        call("B pickle %s" % name, lambda c=counts: describe_counts(
            pickle.loads(pickle.dumps(c))))
        call("B deepcopy %s" % name, lambda c=counts: repr(copy.deepcopy(c)))
    show("B public names StatusCounts=%r" % sorted(
        n for n in dir(StatusCounts) if not n.startswith("_")))
    show("B public names HookErrorCounts=%r" % sorted(
        n for n in dir(HookErrorCounts) if not n.startswith("_")))
    show("B all is property: %r %r" % (
        isinstance(getattr(StatusCounts, "all"), property),
        isinstance(getattr(HookErrorCounts, "all"), property)))
    show("B hash: %r %r" % (StatusCounts.__hash__, HookErrorCounts.__hash__))

    summary_counts = SummaryCounts()
    show("B SummaryCounts: str=%r repr=%r bool=%r len=%r" % (
        str(summary_counts), summary_counts, bool(summary_counts),
        len(summary_counts)))
    summary_counts.features.increment(Status.passed)
    summary_counts.scenarios.increment(Status.failed, 2)
    summary_counts.steps.increment(Status.undefined, 3)
    summary_counts.hook_errors.increment("on_step")
    show("B SummaryCounts: str=%r repr=%r bool=%r" % (
        str(summary_counts), summary_counts, bool(summary_counts)))
    call("B SummaryCounts.as_dict(nested)", lambda: [
        (name, list(value.items()))
        for name, value in summary_counts.as_dict(nested=True).items()])
    call("B SummaryCounts == dict", lambda: summary_counts == summary_counts.as_dict())
    call("B SummaryCounts == other", lambda: summary_counts == SummaryCounts())
    call("B SummaryCounts != self", lambda: summary_counts != summary_counts)
    call("B SummaryCounts.get('all')", summary_counts.get, "all")
    call("B SummaryCounts['steps']", summary_counts.__getitem__, "steps")
    call("B SummaryCounts.from_counts", lambda: repr(SummaryCounts.from_counts(
        steps=StatusCounts.from_counts(passed=2),
        hook_errors=HookErrorCounts.from_counts(on_rule=1))))
    call("B SummaryCounts.from_counts(bad)", lambda: SummaryCounts.from_counts(
        steps=HookErrorCounts()))
    call("B SummaryCounts.from_counts(unexpected)",
         lambda: SummaryCounts.from_counts(other=1))
    call("B SummaryCounts.from_dict", lambda: repr(SummaryCounts.from_dict(
        {"rules": StatusCounts.from_counts(skipped=2), "other": 1})))


# ---------------------------------------------------------------------------
# PART C: MODEL VISITOR
# ---------------------------------------------------------------------------
FEATURE_TEXT_C = u'''
@f1
Feature: Visitor Tree
  Background: B0
    Given a background step

  Scenario: S1
    Given a step passes
    When another step passes

  @outline
  Scenario Outline: SO2 <name>
    Given a step with <name>
    Examples: E1
      | name |
      | a    |
      | b    |
    Examples: E2
      | name |
      | c    |

  Rule: R1
    Background: B1
      Given a rule background step
    Scenario: R1S1
      Then a step passes
    Scenario Outline: R1SO2 <n>
      Then a step with <n>
      Examples:
        | n |
        | 1 |
        | 2 |

  Rule: R2 (empty)

  Rule: R3
    Scenario: R3S1 (no steps)
'''


class LoggingVisitor(IModelVisitor):
    def __init__(self, cancel_on=None, cancel_value=False, check_base=False):
        self.log = []
        self.cancel_on = cancel_on or ()
        self.cancel_value = cancel_value
        self.check_base = check_base

    def _on(self, kind, item):
        name = getattr(item, "name", None)
        self.log.append("%s:%s" % (kind, name))
        if name in self.cancel_on or kind in self.cancel_on:
            return self.cancel_value
        return None

    def on_feature(self, feature):
        if self.check_base:
            IModelVisitor.on_feature(self, feature)
        return self._on("feature", feature)

    def on_rule(self, rule):
        if self.check_base:
            IModelVisitor.on_rule(self, rule)
        return self._on("rule", rule)

    def on_scenario_outline(self, scenario_outline):
        if self.check_base:
            IModelVisitor.on_scenario_outline(self, scenario_outline)
        return self._on("outline", scenario_outline)

    def on_scenario(self, scenario):
        if self.check_base:
            IModelVisitor.on_scenario(self, scenario)
        return self._on("scenario", scenario)

    def on_step(self, step):
        if self.check_base:
            IModelVisitor.on_step(self, step)
        return self._on("step", step)


class DerivedVisitor(ModelVisitor):
    """Inheritance-based visitor that overrides some visit methods."""
    def __init__(self):
        super(DerivedVisitor, self).__init__()
        self.log = []

    def on_feature(self, feature):
        self.log.append("on_feature:%s" % feature.name)

    def on_scenario(self, scenario):
        self.log.append("on_scenario:%s" % scenario.name)
        return True

    def on_step(self, step):
        self.log.append("on_step:%s" % step.name)
        return 0 if step.name == "another step passes" else "text"

    def visit_rule(self, rule):
        self.log.append("visit_rule(override):%s" % rule.name)
        return super(DerivedVisitor, self).visit_rule(rule)

    def visit_scenario_outline(self, scenario_outline):
        self.log.append("visit_outline(override):%s" % scenario_outline.name)
        return "skipped-outline"


class ScenarioSubclass(Scenario):
    pass


class StepSubclass(Step):
    pass


def part_c():
    show("=" * 70)
    show("PART C: model visitor")

    def new_feature():
        return parse_feature(FEATURE_TEXT_C, filename="features/visitor.feature")

    feature = new_feature()
    rules = list(feature.rules)
    outline = [x for x in feature.scenarios if isinstance(x, ScenarioOutline)][0]
    scenario = [x for x in feature.scenarios if not isinstance(x, ScenarioOutline)][0]
    step = scenario.steps[0]
    items = [("feature", feature), ("rule1", rules[0]), ("rule2", rules[1]),
             ("rule3", rules[2]), ("outline", outline), ("scenario", scenario),
             ("outline-row", outline.scenarios[1]), ("step", step),
             ("background", feature.background), ("table", outline.examples[0].table),
             ("examples", outline.examples[0]), ("tag", feature.tags[0]),
             ("none", None), ("text", "feature"), ("number", 42),
             ("class-Feature", Feature), ("dict", {}),
             ("empty-list", []), ("empty-tuple", ()),
             ("list", [scenario, step]), ("tuple", (step, rules[2])),
             ("list-bad", [step, 3, scenario]),
             ("generator", (x for x in [step])), ("set", set([1]))]
    for item_name, item in items:
        for method_name in ("visit", "__call__", "visit_many", "visit_items_of"):
            visitor = LoggingVisitor()
            walker = ModelVisitor(visitor)
            method = getattr(walker, method_name)
            if item_name == "generator":
                item = (x for x in [step])
            label = "C %s(%s)" % (method_name, item_name)
            try:
                result = method(item)
                show("%s -> %r" % (label, result))
            except Exception as e:  # pylint: disable=broad-except
                text = str(e)
                show("%s !! %s: %s" % (label, e.__class__.__name__,
                                        text.split(" at 0x")[0]))
            show("   log=%r" % (visitor.log,))

    # -- CANCELLED VISITS:
    cancel_points = ["feature", "rule", "outline", "scenario", "step",
                     "S1", "SO2 <name>", "SO2 b -- @1.2 E1", "R1", "R1S1",
                     "R1SO2 2 -- @1.2 ", "a background step", "a step with c",
                     "R3S1 (no steps)", "R2 (empty)"]
    for cancel_value in (False, 0, "", [], True, 1, "stop", None):
        for cancel_point in cancel_points:
            visitor = LoggingVisitor(cancel_on=(cancel_point,),
                                     cancel_value=cancel_value)
            walker = ModelVisitor(visitor)
            result = call("C cancel %r at %r" % (cancel_value, cancel_point),
                          walker.visit_feature, new_feature())
            show("   n=%d last=%r" % (len(visitor.log), visitor.log[-1:]))
            del result
    visitor = LoggingVisitor(check_base=True)
    call("C full walk", ModelVisitor(visitor).visit, new_feature())
    for entry in visitor.log:
        show("   %s" % entry)

    # -- TYPED VISIT METHODS WITH WRONG TYPES:
    walker = ModelVisitor(LoggingVisitor())
    for method_name in ("visit_feature", "visit_rule", "visit_scenario_outline",
                        "visit_scenario", "visit_step"):
        for item_name, item in items[:8] + items[12:14]:
            label = "C %s(%s)" % (method_name, item_name)
            call(label, getattr(walker, method_name), item)
    show("   log.size=%d" % len(walker.visitor.log))

    # -- INHERITANCE-BASED VISITOR:
    derived = DerivedVisitor()
    call("C derived.visit(feature)", derived.visit, new_feature())
    show("   log=%r" % (derived.log,))
    derived = DerivedVisitor()
    call("C derived(list)", derived, [scenario, rules[0], outline])
    show("   log=%r" % (derived.log,))
    derived = DerivedVisitor()
    call("C derived.visit_many(custom)", derived.visit_many, [1, 2, 0, 3],
         lambda x: derived.log.append(x) or x)
    show("   log=%r" % (derived.log,))
    call("C ModelVisitor(bad)", ModelVisitor, object())
    call("C ModelVisitor() is own visitor", lambda: (
        lambda v: v.visitor is v)(ModelVisitor()))
    call("C ModelVisitor().visit(feature)", ModelVisitor().visit, new_feature())
    for value in (None, True, False, 0, 1, "", "x", [], [0]):
        call("C should_continue_visit(%r)" % (value,),
             ModelVisitor.should_continue_visit, value)

    # -- SUBCLASSES OF MODEL ELEMENTS:
    sub_scenario = ScenarioSubclass("features/x.feature", 1, u"Scenario", u"Sub")
    sub_step = StepSubclass("features/x.feature", 2, u"Given", "given", u"sub step")
    sub_scenario.steps.append(sub_step)
    visitor = LoggingVisitor()
    call("C visit(sub-scenario)", ModelVisitor(visitor).visit, sub_scenario)
    call("C visit(sub-step)", ModelVisitor(visitor).visit, sub_step)
    show("   log=%r" % (visitor.log,))

    # -- COLLECTOR ON AN UNTESTED MODEL:
    collector = SummaryCollector()
    call("C collector(feature)", collector, [new_feature(), new_feature()])
    show("   counts=%r" % (collector.summary_counts,))
    call("C collector.visit(rule)", collector.visit, rules[0])
    call("C collector.visit(outline)", collector.visit, outline)
    call("C collector.visit(step)", collector.visit, step)
    call("C collector.visit(background)", collector.visit, feature.background)
    show("   counts=%r duration=%r failures=%r" % (
        collector.summary_counts, collector.duration,
        collector.has_failures_or_errors()))


# ---------------------------------------------------------------------------
# PART D: COMPLETE RUNS (in sub-processes)
# ---------------------------------------------------------------------------
DRIVER = u'''
# -*- coding: UTF-8 -*-
from __future__ import absolute_import, print_function
import sys
sys.path.insert(0, %(worktree)r)
import io
import os
from collections import OrderedDict
from behave.configuration import Configuration
from behave.runner import Runner
from behave.model import Rule, ScenarioOutline
from behave.reporter.summary import (
    SummaryReporterV1, SummaryReporterV2, SummaryReporter
)
from behave.summary import SummaryCollector, SummaryCounts


class CallLogStream(io.StringIO):
    pass


def census_of(features):
    census = OrderedDict([("features", {}), ("rules", {}), ("scenarios", {}),
                          ("steps", {})])
    failing = []
    errored = []

    def count(kind, item):
        name = item.status.name
        census[kind][name] = census[kind].get(name, 0) + 1

    def walk_scenario(scenario):
        count("scenarios", scenario)
        if scenario.status.name == "failed":
            failing.append(scenario)
        elif scenario.status.name in ("error", "hook_error", "cleanup_error",
                                      "undefined", "pending"):
            errored.append(scenario)
        for step in scenario.all_steps:
            count("steps", step)

    def walk_container(container):
        for run_item in container.run_items:
            if isinstance(run_item, Rule):
                count("rules", run_item)
                walk_container(run_item)
            elif isinstance(run_item, ScenarioOutline):
                for scenario in run_item.scenarios:
                    walk_scenario(scenario)
            else:
                walk_scenario(run_item)

    for feature in features:
        count("features", feature)
        walk_container(feature)
    return census, failing, errored


def main(args):
    config = Configuration(command_args=args, load_config=False)
    config.reporters = [r for r in config.reporters
                        if not isinstance(r, SummaryReporterV1)]
    reporters = []
    for output_format in ("v1", "v1A", "v1B", "v2", "v3", "v9", None):
        for reporter_class in (SummaryReporterV1, SummaryReporterV2):
            if output_format is None:
                reporter = reporter_class(config)
            else:
                config.userdata["behave.reporter.summary.output_format"] = output_format
                reporter = reporter_class(config)
                config.userdata.pop("behave.reporter.summary.output_format")
            reporter.stream = CallLogStream()
            reporter.show_duration = False
            if reporter_class is SummaryReporterV2:
                # -- SummaryReporterV2.print_summary() needs this attribute.
                reporter.summary_counts.hook_failed = SummaryCounts().hook_errors
            reporters.append(reporter)
    # -- ONE REPORTER: That does not show rules / failed scenarios.
    for reporter_class in (SummaryReporterV1, SummaryReporterV2):
        reporter = reporter_class(config)
        reporter.stream = CallLogStream()
        reporter.show_duration = False
        reporter.show_rules = False
        reporter.show_failed_scenarios = False
        if reporter_class is SummaryReporterV2:
            reporter.summary_counts.hook_failed = SummaryCounts().hook_errors
        reporters.append(reporter)
    raw_v2 = SummaryReporterV2(config)   # -- AS-IS (print_summary may fail).
    raw_v2.stream = CallLogStream()
    raw_v2.show_duration = False
    config.reporters.extend(reporters)

    runner = Runner(config)
    failed = None
    try:
        failed = runner.run()
    except BaseException as e:
        print("RUN-EXCEPTION: %%s: %%s" %% (e.__class__.__name__, e))
    sys.stdout.flush()
    print("@@RESULT failed=%%r aborted=%%r" %% (failed, runner.aborted))
    print("@@SummaryReporter is V1: %%r" %% (SummaryReporter is SummaryReporterV1))

    features = runner.features
    census, failing, errored = census_of(features)
    for kind, table in census.items():
        print("@@CENSUS %%s total=%%d %%r" %% (kind, sum(table.values()),
                                            sorted(table.items())))
    print("@@CENSUS failing=%%r" %% [(str(s.location), s.name) for s in failing])
    print("@@CENSUS errored=%%r" %% [(str(s.location), s.name) for s in errored])

    for reporter in reporters:
        kind = reporter.__class__.__name__
        print("@@REPORTER %%s format=%%r rules=%%r" %% (
            kind, reporter.output_format, reporter.show_rules))
        for line in reporter.stream.getvalue().splitlines():
            print("   |%%s" %% line)
        print("   failed_scenarios=%%r" %% [
            (str(s.location), s.name) for s in reporter.failed_scenarios])
        print("   errored_scenarios=%%r" %% [
            (str(s.location), s.name) for s in reporter.errored_scenarios])
        if isinstance(reporter, SummaryReporterV1):
            for name in ("feature_summary", "rule_summary", "scenario_summary",
                         "step_summary"):
                table = getattr(reporter, name)
                print("   %%s=%%r keys=%%r" %% (name, sorted(table.items()),
                                             list(table.keys())))
                key = name.replace("_summary", "s")
                expected = dict(census[key])
                counted = dict((k, v) for k, v in table.items()
                               if v and k != "all")
                print("   %%s conserved=%%r" %% (name, counted == expected))
        else:
            counts = reporter.summary_counts
            print("   counts=%%r" %% (counts,))
            for name in ("features", "rules", "scenarios", "steps"):
                value = getattr(counts, name)
                counted = dict((k.name, v) for k, v in value.items() if v)
                print("   %%s all=%%r conserved=%%r" %% (
                    name, value.all, counted == dict(census[name])))
            print("   hook_errors=%%r" %% (list(counts.hook_errors.items()),))
            collector = reporter.summary_collector
            print("   failed_features=%%r errored_features=%%r" %% (
                [f.name for f in collector.failed_features],
                [f.name for f in collector.errored_features]))
            print("   has_failures_or_errors=%%r" %% collector.has_failures_or_errors())

    # -- RAW V2 REPORTER and PRINT HELPERS: After the run.
    for feature in features:
        raw_v2.feature(feature)
    try:
        raw_v2.end()
    except Exception as e:
        print("@@RAW-V2 end() !! %%s: %%s" %% (e.__class__.__name__, e))
    for line in raw_v2.stream.getvalue().splitlines():
        print("   |%%s" %% line)
    other = io.StringIO()
    reporters[0].print_summary(stream=other, with_duration=False)
    reporters[0].print_problematic_scenarios(stream=other)
    reporters[1].print_summary(stream=other, with_duration=False)
    reporters[1].print_failing_scenarios(stream=other)
    reporters[1].print_errored_scenarios(stream=other)
    print("@@OTHER-STREAM")
    for line in other.getvalue().splitlines():
        print("   |%%s" %% line)
    print("@@REPORTER-0 stream after")
    for line in reporters[0].stream.getvalue().splitlines():
        print("   |%%s" %% line)

    # -- STANDALONE COLLECTOR: After the run.
    collector = SummaryCollector()
    result = collector(list(features))
    print("@@COLLECTOR result=%%r counts=%%r" %% (result, collector.summary_counts))
    print("@@COLLECTOR as_dict=%%r" %% [
        (name, list(value.items()))
        for name, value in collector.summary_counts.as_dict(nested=True).items()])
    print("@@COLLECTOR failed=%%r errored=%%r" %% (
        [s.name for s in collector.failed_scenarios],
        [s.name for s in collector.errored_scenarios]))
    try:
        collector.reset()
    except Exception as e:
        print("@@COLLECTOR reset() !! %%s: %%s" %% (e.__class__.__name__, e))
    print("@@COLLECTOR after reset counts=%%r failed=%%r" %% (
        collector.summary_counts, collector.failed_scenarios))


if __name__ == "__main__":
    main(sys.argv[1:])
'''

STEPS = u'''
# -*- coding: UTF-8 -*-
from behave import given, when, then, step
from behave.api.pending_step import StepNotImplementedError, PendingStepError


@step(u'a step passes')
def step_passes(ctx):
    pass

@step(u'another step passes')
def step_passes2(ctx):
    pass

@step(u'a step fails')
def step_fails(ctx):
    assert False, "XFAIL-STEP"

@step(u'a step raises an error')
def step_errors(ctx):
    raise RuntimeError("XERROR-STEP")

@step(u'a step is pending')
def step_pending(ctx):
    raise StepNotImplementedError("PENDING-STEP")

@step(u'a step is pending too')
def step_pending2(ctx):
    raise PendingStepError("PENDING-STEP-2")

@step(u'a step with "{outcome}" outcome')
def step_with_outcome(ctx, outcome):
    if outcome == "failed":
        assert False, "XFAIL-OUTCOME"
    elif outcome == "error":
        raise ValueError("XERROR-OUTCOME")
    elif outcome == "skip":
        ctx.scenario.skip("SKIPPED-IN-STEP")
    elif outcome == "abort":
        ctx.abort("ABORT-BY-STEP")
    elif outcome == "interrupt":
        raise KeyboardInterrupt()

@step(u'a background step')
def step_background(ctx):
    pass

@step(u'a background step that fails in "{name}"')
def step_background_fails(ctx, name):
    assert name not in ctx.scenario.name, "XFAIL-BACKGROUND"

@step(u'I execute failing sub-steps')
def step_substeps(ctx):
    ctx.execute_steps(u"Given a step passes\\nWhen a step fails")
'''

ENVIRONMENT = u'''
# -*- coding: UTF-8 -*-
from __future__ import print_function

def _maybe_fail(ctx, hook_name, item_name=None):
    userdata = ctx.config.userdata
    wanted = userdata.get("hook_error", "")
    kind = userdata.get("hook_error_kind", "error")
    target = userdata.get("hook_error_at", None)
    if hook_name != wanted:
        return
    if target is not None and item_name is not None and target not in item_name:
        return
    if kind == "assert":
        assert False, "HOOK-FAILED in %s" % hook_name
    elif kind == "interrupt":
        raise KeyboardInterrupt()
    raise RuntimeError("HOOK-ERROR in %s" % hook_name)

def before_all(ctx):
    _maybe_fail(ctx, "before_all")

def after_all(ctx):
    _maybe_fail(ctx, "after_all")

def before_feature(ctx, feature):
    _maybe_fail(ctx, "before_feature", feature.name)
    if "skip_in_hook" in feature.tags:
        feature.skip("SKIP-FEATURE-IN-HOOK")

def after_feature(ctx, feature):
    _maybe_fail(ctx, "after_feature", feature.name)

def before_rule(ctx, rule):
    _maybe_fail(ctx, "before_rule", rule.name)

def after_rule(ctx, rule):
    _maybe_fail(ctx, "after_rule", rule.name)

def before_scenario(ctx, scenario):
    _maybe_fail(ctx, "before_scenario", scenario.name)
    if "skip_in_hook" in scenario.tags:
        scenario.skip("SKIP-SCENARIO-IN-HOOK")

def after_scenario(ctx, scenario):
    _maybe_fail(ctx, "after_scenario", scenario.name)

def before_step(ctx, step):
    _maybe_fail(ctx, "before_step", step.name)

def after_step(ctx, step):
    _maybe_fail(ctx, "after_step", step.name)

def before_tag(ctx, tag):
    _maybe_fail(ctx, "before_tag", tag)

def after_tag(ctx, tag):
    _maybe_fail(ctx, "after_tag", tag)
'''

FEATURES = {
    "a_basic.feature": u'''
@basic
Feature: A Basic
  Scenario: A1 passes
    Given a step passes
    When another step passes

  @failing
  Scenario: A2 fails
    Given a step passes
    When a step fails
    Then another step passes

  @erroring
  Scenario: A3 errors
    Given a step raises an error
    Then another step passes

  Scenario: A4 undefined
    Given a step passes
    When an unknown step is used
    Then another step passes

  Scenario: A5 pending
    Given a step is pending
    Then a step passes

  Scenario: A6 pending too
    Given a step passes
    When a step is pending too

  @wip @skip_in_hook
  Scenario: A7 skipped in hook
    Given a step passes

  Scenario: A8 without steps

  Scenario: A9 skips itself
    Given a step with "skip" outcome
    Then a step fails

  Scenario: A10 sub-steps
    Given I execute failing sub-steps
''',
    "b_rules.feature": u'''
@rules
Feature: B Rules
  Background: B.Background
    Given a background step

  Scenario: B1 before rules
    Given a step passes

  @outline
  Scenario Outline: B2 outline <outcome>
    Given a step with "<outcome>" outcome
    Then another step passes

    @good
    Examples: Good
      | outcome |
      | passed  |
      | ok      |

    @bad
    Examples: Bad
      | outcome |
      | failed  |
      | error   |
      | skip    |

  @r1
  Rule: B.R1
    Background: B.R1.Background
      Given a background step that fails in "B.R1.S2"

    Scenario: B.R1.S1
      Given a step passes

    Scenario: B.R1.S2
      Given a step passes
      Then another step passes

    Scenario Outline: B.R1.O3 <outcome>
      Given a step with "<outcome>" outcome
      Examples:
        | outcome |
        | passed  |
        | failed  |
        | passed  |

  @r2
  Rule: B.R2 all pass
    Scenario: B.R2.S1
      Given a step passes
    Scenario: B.R2.S2
      Given a step passes

  Rule: B.R3 empty

  @r4
  Rule: B.R4 undefined
    Scenario: B.R4.S1
      Given some unknown step
''',
    "c_passing.feature": u'''
@passing
Feature: C Passing
  Scenario: C1
    Given a step passes
  Scenario Outline: C2 <n>
    Given a step with "<n>" outcome
    Examples:
      | n |
      | 1 |
      | 2 |
''',
    "d_empty.feature": u'''
Feature: D Empty
''',
    "e_skipped.feature": u'''
@skip_in_hook
Feature: E Skipped in hook
  Scenario: E1
    Given a step passes
  Rule: E.R1
    Scenario: E.R1.S1
      Given a step fails
''',
    "f_abort.feature": u'''
@abort
Feature: F Abort
  Scenario: F1
    Given a step passes
  Scenario: F2 aborts
    Given a step with "abort" outcome
    Then a step passes
  Scenario: F3 after abort
    Given a step passes
  Rule: F.R1
    Scenario: F.R1.S1
      Given a step passes
''',
    "g_interrupt.feature": u'''
@interrupt
Feature: G Interrupt
  Scenario: G1
    Given a step passes
  Scenario: G2 interrupts
    Given a step with "interrupt" outcome
  Scenario: G3 after interrupt
    Given a step passes
''',
    "z_last.feature": u'''
@last
Feature: Z Last
  Scenario: Z1
    Given a step passes
  Rule: Z.R1
    Scenario Outline: Z.R1.O1 <x>
      Given a step with "<x>" outcome
      Examples:
        | x      |
        | passed |
        | failed |
''',
}

NORMAL = ["features/a_basic.feature", "features/b_rules.feature",
          "features/c_passing.feature", "features/d_empty.feature",
          "features/e_skipped.feature", "features/z_last.feature"]
RUNS = [
    ("all-normal", NORMAL),
    ("passing-only", ["features/c_passing.feature"]),
    ("empty-only", ["features/d_empty.feature"]),
    ("no-features-selected", ["--tags=@nothing_has_this"] + NORMAL),
    ("stop", ["--stop"] + NORMAL),
    ("stop-passing-first", ["--stop", "features/c_passing.feature",
                            "features/b_rules.feature", "features/z_last.feature"]),
    ("dry-run", ["--dry-run"] + NORMAL),
    ("tags-bad", ["--tags=@bad or @r1"] + NORMAL),
    ("tags-not", ["--tags=not @outline and not @basic"] + NORMAL),
    ("tags-wip", ["--tags=@wip", "features/a_basic.feature"]),
    ("name", ["-n", "S1", "-n", "A1"] + NORMAL),
    ("file-line", ["features/b_rules.feature:33", "features/a_basic.feature:8",
                   "features/z_last.feature:6"]),
    ("abort", ["features/c_passing.feature", "features/f_abort.feature",
               "features/z_last.feature"]),
    ("interrupt", ["features/g_interrupt.feature", "features/c_passing.feature"]),
    ("stop-abort", ["--stop", "features/f_abort.feature", "features/z_last.feature"]),
    ("hook before_all", ["-D", "hook_error=before_all"] + NORMAL),
    ("hook after_all", ["-D", "hook_error=after_all", "features/c_passing.feature"]),
    ("hook before_feature", ["-D", "hook_error=before_feature",
                             "-D", "hook_error_at=B Rules"] + NORMAL),
    ("hook before_feature all", ["-D", "hook_error=before_feature"] + NORMAL),
    ("hook after_feature", ["-D", "hook_error=after_feature",
                            "-D", "hook_error_at=C Passing"] + NORMAL),
    ("hook before_rule", ["-D", "hook_error=before_rule",
                          "-D", "hook_error_at=B.R2"] + NORMAL),
    ("hook after_rule assert", ["-D", "hook_error=after_rule",
                                "-D", "hook_error_kind=assert",
                                "features/b_rules.feature", "features/z_last.feature"]),
    ("hook before_scenario", ["-D", "hook_error=before_scenario",
                              "-D", "hook_error_at=S1"] + NORMAL),
    ("hook before_scenario outline rows", ["-D", "hook_error=before_scenario",
                                           "-D", "hook_error_at=outline",
                                           "features/b_rules.feature"]),
    ("hook after_scenario assert", ["-D", "hook_error=after_scenario",
                                    "-D", "hook_error_kind=assert",
                                    "-D", "hook_error_at=C2",
                                    "features/c_passing.feature",
                                    "features/z_last.feature"]),
    ("hook before_step", ["-D", "hook_error=before_step",
                          "-D", "hook_error_at=another step passes"] + NORMAL),
    ("hook after_step", ["-D", "hook_error=after_step",
                         "-D", "hook_error_at=a background step",
                         "features/b_rules.feature"]),
    ("hook before_tag", ["-D", "hook_error=before_tag",
                         "-D", "hook_error_at=r1"] + NORMAL),
    ("hook after_tag", ["-D", "hook_error=after_tag",
                        "-D", "hook_error_at=outline"] + NORMAL),
    ("hook before_scenario stop", ["--stop", "-D", "hook_error=before_scenario",
                                   "-D", "hook_error_at=B.R1.S1",
                                   "features/c_passing.feature",
                                   "features/b_rules.feature",
                                   "features/z_last.feature"]),
    ("hook before_scenario interrupt", ["-D", "hook_error=before_scenario",
                                        "-D", "hook_error_kind=interrupt",
                                        "-D", "hook_error_at=B.R2.S1",
                                        "features/b_rules.feature",
                                        "features/z_last.feature"]),
    ("dry-run hook", ["--dry-run", "-D", "hook_error=before_scenario",
                      "features/b_rules.feature"]),
    ("dry-run tags", ["--dry-run", "--tags=@r1 or @good",
                      "features/b_rules.feature"]),
]


def part_d():
    show("=" * 70)
    show("PART D: complete runs")
    workdir = tempfile.mkdtemp(prefix="c14_equiv_")
    try:
        features_dir = os.path.join(workdir, "features")
        steps_dir = os.path.join(features_dir, "steps")
        os.makedirs(steps_dir)
        for name, text in FEATURES.items():
            with open(os.path.join(features_dir, name), "wb") as f:
                f.write(text.lstrip().encode("UTF-8"))
        with open(os.path.join(steps_dir, "steps.py"), "wb") as f:
            f.write(STEPS.lstrip().encode("UTF-8"))
        with open(os.path.join(features_dir, "environment.py"), "wb") as f:
            f.write(ENVIRONMENT.lstrip().encode("UTF-8"))
        driver = os.path.join(workdir, "driver.py")
        with open(driver, "wb") as f:
            f.write((DRIVER % {"worktree": WORKTREE}).lstrip().encode("UTF-8"))
        env = dict(os.environ)
        env["PYTHONPATH"] = WORKTREE
        env["PYTHONHASHSEED"] = "0"
        env["PYTHONDONTWRITEBYTECODE"] = "1"
        env.pop("BEHAVE_ARGS", None)
        for run_name, run_args in RUNS:
            show("-" * 70)
            show("RUN %s: %s" % (run_name, " ".join(run_args)))
            command = [sys.executable, driver, "--no-color", "-f", "plain",
                       "--no-timings", "--no-capture"] + run_args
            process = subprocess.Popen(command, cwd=workdir, env=env,
                                       stdout=subprocess.PIPE,
                                       stderr=subprocess.STDOUT)
            output = process.communicate()[0].decode("UTF-8", "replace")
            started = False
            for line in output.splitlines():
                line = line.replace(workdir, "<WORKDIR>")
                if line.startswith("@@") or line.startswith("RUN-EXCEPTION"):
                    started = True
                if not started and (line.lstrip().startswith("File \"") or
                                    line.lstrip().startswith("^")):
                    # -- TRACEBACK LOCATIONS: Depend on line numbers, ignore.
                    continue
                show("  " + line.rstrip())
            show("  EXIT-CODE: %s" % process.returncode)
    finally:
        shutil.rmtree(workdir, ignore_errors=True)


if __name__ == "__main__":
    part_a()
    part_b()
    part_c()
    part_d()
