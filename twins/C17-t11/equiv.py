# -*- coding: UTF-8 -*-
"""
Equivalence transcript for property C17 (rerun file <-> selected scenarios).

Prints a canonical transcript of:
  1. Status predicates for every Status member
  2. FileLocationParser / FeatureListParser / collect_feature_locations
  3. RerunFormatter.eof()/close()/report_scenario_failures() call logs
  4. parse_features() selections by location
  5. end-to-end: behave run -> rerun file -> second run (subprocesses)
"""
from __future__ import absolute_import, print_function
import sys
WORKTREE = "/tmp/wtV/C17"
sys.path.insert(0, WORKTREE)

import io
import os
import re
import shutil
import subprocess

from behave.model_core import Status, ScenarioStatus, OuterStatus, FileLocation
from behave.formatter.rerun import RerunFormatter
from behave.formatter.base import StreamOpener
from behave import runner_util
from behave.runner_util import (
    FileLocationParser, FeatureListParser, collect_feature_locations,
    parse_features, FeatureScenarioLocationCollector2,
)
from behave.parser import parse_feature

HERE = os.path.dirname(os.path.abspath(__file__))
WORK = os.path.join(HERE, "_work")
PYTHON = "/venv/bin/python"


def section(title):
    print("")
    print("=" * 70)
    print("== %s" % title)
    print("=" * 70)


def show_exc(e):
    return "%s: %s" % (type(e).__name__, e)


def norm(text):
    text = text.replace(WORK, "<WORK>")
    text = re.sub(r"Took \d+m[\d.]+s", "Took <T>", text)
    text = re.sub(r"\b\d+\.\d{3}s\b", "<T>s", text)
    text = re.sub(r'(File "[^"]*behave/[^"]*", line )\d+', r"\1<N>", text)
    return text


def write_file(path, text):
    dirname = os.path.dirname(path)
    if dirname and not os.path.isdir(dirname):
        os.makedirs(dirname)
    with io.open(path, "w", encoding="utf-8") as f:
        f.write(text)


# ---------------------------------------------------------------------------
# PROJECT FILES
# ---------------------------------------------------------------------------
FEATURE_A = u"""\
Feature: Alice mixed

  Scenario: A1 passes
    Given a step passes
    Then a step passes

  Scenario: A2 fails
    Given a step passes
    When a step fails
    Then a step passes

  Scenario: A3 raises
    Given a step raises an error

  Scenario: A4 undefined
    Given a step passes
    When this step does not exist anywhere

  @skipme
  Scenario: A5 skipped by hook
    Given a step fails

  Scenario Outline: A6 outline <kind>
    Given a step <kind>

    Examples: E1
      | kind   |
      | passes |
      | fails  |

    Examples: E2
      | kind            |
      | raises an error |
      | passes          |

  Scenario: A7 passes at the end
    Given a step passes
"""

FEATURE_B = u"""\
Feature: Bob with rules

  Scenario: B1 outside rule fails
    Given a step fails

  Rule: R1

    Scenario: B2 in rule passes
      Given a step passes

    Scenario: B3 in rule raises
      Given a step raises an error

    Scenario Outline: B4 in rule <kind>
      Given a step <kind>

      Examples:
        | kind   |
        | fails  |
        | passes |

  Rule: R2

    Scenario: B5 in second rule passes
      Given a step passes

    @wip
    Scenario: B6 excluded by tag
      Given a step fails
"""

FEATURE_C = u"""\
Feature: Charly all pass

  Scenario: C1
    Given a step passes

  Scenario: C2
    Given a step passes
"""

FEATURE_D = u"""\
Feature: Dora hooks

  Scenario: D1 passes
    Given a step passes

  @bad_before
  Scenario: D2 before_scenario hook error
    Given a step passes

  @bad_after
  Scenario: D3 after_scenario hook error
    Given a step passes

  Scenario: D4 passes
    Given a step passes
"""

FEATURE_E = u"""\
Feature: Emil first problem is an error

  Scenario: E1 raises
    Given a step raises an error

  Scenario: E2 fails
    Given a step fails

  Scenario: E3 pending
    Given a step is pending

  Scenario: E4 passes
    Given a step passes
"""

FEATURE_F = u"""\
@skipme
Feature: Fred is skipped entirely

  Scenario: F1
    Given a step fails
"""

STEPS = u"""\
from behave import given, when, then, step

@step(u'a step passes')
def step_passes(ctx):
    pass

@step(u'a step fails')
def step_fails(ctx):
    assert False, "XFAIL-STEP"

@step(u'a step raises an error')
def step_raises(ctx):
    raise RuntimeError("XERROR-STEP")

@step(u'a step is pending')
def step_pending(ctx):
    raise NotImplementedError("PENDING-STEP")
"""

ENVIRONMENT = u"""\
def before_feature(ctx, feature):
    if "skipme" in feature.tags:
        feature.skip("by hook")

def before_scenario(ctx, scenario):
    if "skipme" in scenario.tags:
        scenario.skip("by hook")
    if "bad_before" in scenario.tags:
        raise RuntimeError("BAD-BEFORE")

def after_scenario(ctx, scenario):
    if "bad_after" in scenario.tags:
        raise RuntimeError("BAD-AFTER")
"""


def make_project():
    if os.path.isdir(WORK):
        shutil.rmtree(WORK)
    os.makedirs(WORK)
    write_file(os.path.join(WORK, "features", "alice.feature"), FEATURE_A)
    write_file(os.path.join(WORK, "features", "bob.feature"), FEATURE_B)
    write_file(os.path.join(WORK, "features", "charly.feature"), FEATURE_C)
    write_file(os.path.join(WORK, "features", "dora.feature"), FEATURE_D)
    write_file(os.path.join(WORK, "features", "emil.feature"), FEATURE_E)
    write_file(os.path.join(WORK, "features", "fred.feature"), FEATURE_F)
    write_file(os.path.join(WORK, "features", "steps", "steps.py"), STEPS)
    write_file(os.path.join(WORK, "features", "environment.py"), ENVIRONMENT)
    write_file(os.path.join(WORK, "behave.ini"),
               u"[behave]\nshow_timings = false\ncolor = false\n")


def run_behave(args):
    env = dict(os.environ)
    env["PYTHONPATH"] = WORKTREE
    env["PYTHONDONTWRITEBYTECODE"] = "1"
    env.pop("BEHAVE_ARGS", None)
    proc = subprocess.Popen([PYTHON, "-m", "behave"] + list(args), cwd=WORK,
                            env=env, stdout=subprocess.PIPE,
                            stderr=subprocess.STDOUT)
    output = proc.communicate()[0].decode("utf-8", "replace")
    print("$ behave %s" % " ".join(args))
    print("returncode: %s" % proc.returncode)
    print(norm(output))


def show_file(name):
    path = os.path.join(WORK, name)
    if not os.path.exists(path):
        print("FILE %s: <MISSING>" % name)
        return
    with io.open(path, encoding="utf-8") as f:
        contents = f.read()
    print("FILE %s: (%d chars)" % (name, len(contents)))
    for line in contents.splitlines(True):
        print("  |%r" % norm(line))


# ---------------------------------------------------------------------------
# 1. STATUS
# ---------------------------------------------------------------------------
def check_status():
    section("1. Status predicates")
    predicates = ["has_failed", "is_error", "is_failure", "is_passed",
                  "is_untested", "is_pending", "is_undefined", "is_final"]
    for status in Status:
        values = []
        for name in predicates:
            result = getattr(status, name)()
            values.append("%s=%r" % (name, result))
        print("%-18s %s" % (status.name, " ".join(values)))
    for status in Status:
        try:
            scenario_status = ScenarioStatus.from_step_status(status).name
        except Exception as e:  # pylint: disable=broad-except
            scenario_status = show_exc(e)
        outer = OuterStatus.from_inner_status(status).name
        try:
            v0 = status.to_status_v0().name
        except AssertionError as e:
            v0 = show_exc(e)
        print("%-18s scenario=%s outer=%s v0=%s norm=%s eqstr=%r hash=%r" % (
            status.name, scenario_status, outer, v0, status.normalized_name,
            status == status.name, hash(status)))
    for text in ["failed", "error", "passed", "nope"]:
        try:
            print("from_name(%r).has_failed() = %r" %
                  (text, Status.from_name(text).has_failed()))
        except LookupError as e:
            print("from_name(%r): %s" % (text, show_exc(e)))
    for other in ["error", 21, None, Status.error]:
        print("Status.error == %r: %r; in-tuple: %r" % (
            other, Status.error == other, other in (Status.error, Status.failed)))


# ---------------------------------------------------------------------------
# 2. LOCATION PARSING
# ---------------------------------------------------------------------------
def show_locations(locations):
    for location in locations:
        print("    %s | filename=%r line=%r" % (
            norm(str(location)), norm(location.filename), location.line))
    print("    (%d locations)" % len(locations))


def check_location_parsing():
    section("2. FileLocationParser / FeatureListParser / collect_feature_locations")
    texts = ["alice.feature", "alice.feature:10", "  alice.feature:10  ",
             "features/a b.feature:003", "alice.feature:", "alice.feature:x",
             ":12", "a:1:2", "", "   ", "alice.feature:10\n", "C:\\x\\a.feature:7",
             u"f\u00e4.feature:12", "a.feature: 5", "a.feature :5"]
    for text in texts:
        location = FileLocationParser.parse(text)
        print("parse(%r) -> %r | str=%r" % (text, location, str(location)))

    os.chdir(WORK)
    listings = [
        ("empty", u"", None),
        ("only comments", u"# one\n   # two\n\n   \n", None),
        ("plain", u"features/alice.feature:7\nfeatures/bob.feature\n", None),
        ("plain+here", u"alice.feature:7\n  bob.feature  \n#x\ncharly.feature:3\n",
         "features"),
        ("abs", u"%s/features/alice.feature:11\n" % WORK, "features"),
        ("normpath", u"./features/../features//alice.feature:7\n", None),
        ("glob", u"features/*.feature\n", None),
        ("glob+here", u"[ab]*.feature\nd?ra.feature\nzzz*.feature\n", "features"),
        ("glob with line", u"features/*.feature:7\n", None),
        ("mixed", u"features/alice.feature:3\n# c\nfeatures/b*.feature\n\n"
                  u"features/alice.feature:8\nfeatures/alice.feature\n", None),
        ("crlf", u"features/alice.feature:3\r\nfeatures/bob.feature:4\r\n", None),
        ("here=.", u"features/emil.feature:3\n", "."),
        ("here=''", u"features/emil.feature:3\n", ""),
        ("hash inside", u"features/a#b.feature:3\n", None),
    ]
    for name, text, here in listings:
        print("FeatureListParser.parse [%s] here=%r" % (name, here))
        if "glob" in name or name == "mixed":
            locations = FeatureListParser.parse(text, here)
            locations2 = sorted(locations, key=lambda x: (x.filename, x.line or 0))
            print("    same-order-as-sorted: %r" %
                  ([str(x) for x in locations] == [str(x) for x in locations2]))
            show_locations(locations2)
        else:
            show_locations(FeatureListParser.parse(text, here))

    write_file(os.path.join(WORK, "lists", "some.txt"),
               u"# -- list\n../features/alice.feature:7\n\n../features/bob.feature:3\n"
               u"../features/bob.feature:9\n")
    write_file(os.path.join(WORK, "top.txt"), u"features/charly.feature\n")
    write_file(os.path.join(WORK, "empty.txt"), u"")
    for name in ["lists/some.txt", "@lists/some.txt", "top.txt", "@top.txt",
                 "empty.txt", "missing.txt", "@missing.txt", "features"]:
        print("FeatureListParser.parse_file(%r)" % name)
        try:
            show_locations(FeatureListParser.parse_file(name))
        except Exception as e:  # pylint: disable=broad-except
            print("    raised %s" % show_exc(e))

    path_sets = [
        ["features"],
        ["features/alice.feature"],
        ["features/alice.feature:12", "features/bob.feature:3"],
        ["@lists/some.txt"],
        ["@top.txt", "features/emil.feature:6", "@lists/some.txt"],
        ["@@top.txt"],
        ["@empty.txt"],
        ["@missing.txt"],
        ["features/missing.feature"],
        ["features/missing.feature:3"],
        ["features/steps/steps.py"],
        ["top.txt"],
        [],
    ]
    for strict in (True, False):
        for paths in path_sets:
            print("collect_feature_locations(%r, strict=%r)" % (paths, strict))
            try:
                show_locations(collect_feature_locations(paths, strict=strict))
            except Exception as e:  # pylint: disable=broad-except
                print("    raised %s" % show_exc(e))


# ---------------------------------------------------------------------------
# 3. RERUN FORMATTER (direct)
# ---------------------------------------------------------------------------
class RecordingStream(object):
    def __init__(self, log):
        self.log = log
        self.closed = False

    def write(self, text):
        self.log.append(("write", text))

    def flush(self):
        self.log.append(("flush",))

    def close(self):
        self.log.append(("stream.close",))
        self.closed = True


class RecordingStreamOpener(object):
    def __init__(self, name, log):
        self.name = name
        self.log = log
        self.stream = None
        self.encoding = "UTF-8"

    def open(self):
        self.log.append(("opener.open",))
        self.stream = RecordingStream(self.log)
        return self.stream

    def close(self):
        self.log.append(("opener.close",))
        return False


class FakeConfig(object):
    pass


class BrokenFeature(object):
    """Feature whose walk_scenarios() breaks after two scenarios."""
    status = Status.failed

    def __init__(self, scenarios):
        self.scenarios = scenarios

    def walk_scenarios(self):
        for index, scenario in enumerate(self.scenarios):
            if index == 2:
                raise ValueError("BROKEN-WALK")
            yield scenario


class DescribedRerunFormatter(RerunFormatter):
    show_failed_scenarios_descriptions = True


def make_features_with_statuses():
    """Parses the feature files and assigns scenario statuses by hand."""
    plan = {
        "alice.feature": [Status.passed, Status.failed, Status.error,
                          Status.error, Status.skipped, Status.passed,
                          Status.failed, Status.error, Status.passed,
                          Status.passed],
        "bob.feature": [Status.failed, Status.passed, Status.error,
                        Status.failed, Status.passed, Status.passed,
                        Status.skipped],
        "charly.feature": [Status.passed, Status.passed],
        "dora.feature": [Status.passed, Status.hook_error, Status.hook_error,
                         Status.passed],
        "emil.feature": [Status.error, Status.failed, Status.pending,
                         Status.undefined],
        "fred.feature": [Status.skipped],
    }
    features = []
    for name in sorted(plan):
        filename = os.path.join("features", name)
        with io.open(os.path.join(WORK, filename), encoding="utf-8") as f:
            feature = parse_feature(f.read(), filename=filename)
        scenarios = feature.walk_scenarios()
        assert len(scenarios) == len(plan[name]), (name, len(scenarios))
        for scenario, status in zip(scenarios, plan[name]):
            for step in scenario.steps:
                step.status = Status.passed
            scenario.set_status(status)
        features.append(feature)
    return features


def show_log(log):
    for entry in log:
        print("    %r" % (entry,))
    print("    (%d calls)" % len(log))


def check_rerun_formatter():
    section("3. RerunFormatter (direct)")
    os.chdir(WORK)
    features = make_features_with_statuses()
    for feature in features:
        print("feature %s status=%s" % (feature.filename, feature.status.name))

    for formatter_class in (RerunFormatter, DescribedRerunFormatter):
        print("-- %s: all features" % formatter_class.__name__)
        log = []
        formatter = formatter_class(RecordingStreamOpener("out/rr.txt", log),
                                    FakeConfig())
        formatter.eof()     # -- WITHOUT FEATURE
        print("  after eof() w/o feature: %r %r" %
              (formatter.failed_scenarios, formatter.current_feature))
        for feature in features:
            formatter.uri(feature.filename)
            formatter.feature(feature)
            print("  current_feature: %s" % formatter.current_feature.name)
            formatter.eof()
            print("  after eof(): current=%r failed=%s" % (
                formatter.current_feature,
                [str(s.location) for s in formatter.failed_scenarios]))
            formatter.eof()     # -- REPEATED
        formatter.close()
        show_log(log)
        print("  stream=%r" % (formatter.stream,))
        formatter.reset()
        print("  after reset: %r %r" %
              (formatter.failed_scenarios, formatter.current_feature))

    print("-- subsets / orders")
    orders = [[2], [5], [2, 5], [4, 0], [3, 3], [1, 4, 0, 3], []]
    for order in orders:
        log = []
        formatter = DescribedRerunFormatter(
            RecordingStreamOpener("rr_subset.txt", log), FakeConfig())
        for index in order:
            formatter.feature(features[index])
            formatter.eof()
        formatter.close()
        print("  order=%r" % order)
        show_log(log)

    print("-- broken walk_scenarios")
    log = []
    formatter = RerunFormatter(RecordingStreamOpener("rr_broken.txt", log),
                               FakeConfig())
    broken = BrokenFeature(features[0].walk_scenarios()[1:5])
    formatter.feature(broken)
    try:
        formatter.eof()
    except ValueError as e:
        print("  raised %s" % show_exc(e))
    print("  failed=%s current_is_broken=%r" % (
        [str(s.location) for s in formatter.failed_scenarios],
        formatter.current_feature is broken))

    print("-- close() with stale files (real StreamOpener)")
    for stream_name in ["stale.txt", "nodir/stale.txt", None, ""]:
        for with_stale in (True, False):
            for feature_indexes in ([2], [0, 4], []):
                if stream_name and with_stale:
                    write_file(os.path.join(WORK, stream_name), u"OLD CONTENTS\n")
                elif stream_name and os.path.exists(stream_name):
                    os.remove(stream_name)
                opener = StreamOpener(stream_name)
                formatter = RerunFormatter(opener, FakeConfig())
                for index in feature_indexes:
                    formatter.feature(features[index])
                    formatter.eof()
                outcome = "ok"
                try:
                    formatter.close()
                except Exception as e:  # pylint: disable=broad-except
                    outcome = "raised %s" % type(e).__name__
                print("  name=%r stale=%r features=%r -> %s; opener.stream closed=%r" % (
                    stream_name, with_stale, feature_indexes, outcome,
                    getattr(opener.stream, "closed", None)))
                if stream_name:
                    show_file(stream_name)
                    if os.path.exists(stream_name):
                        os.remove(stream_name)
    if os.path.isdir("nodir"):
        shutil.rmtree("nodir")

    print("-- close() with stale file that is a directory / pre-opened stream")
    os.makedirs("stale_dir")
    formatter = RerunFormatter(StreamOpener("stale_dir"), FakeConfig())
    try:
        formatter.close()
        print("  ok")
    except Exception as e:  # pylint: disable=broad-except
        print("  raised %s" % type(e).__name__)
    print("  stale_dir exists: %r" % os.path.isdir("stale_dir"))
    if os.path.isdir("stale_dir"):
        os.rmdir("stale_dir")
    stream = io.StringIO()
    formatter = RerunFormatter(StreamOpener(stream=stream), FakeConfig())
    formatter.feature(features[4])
    formatter.eof()
    formatter.close()
    print("  pre-opened stream closed=%r contents=%r" %
          (stream.closed, stream.getvalue()))


# ---------------------------------------------------------------------------
# 4. PARSE FEATURES
# ---------------------------------------------------------------------------
def show_selection(features):
    for feature in features:
        print("    feature %s" % norm(feature.filename))
        for scenario in feature.walk_scenarios():
            print("      %-4d %-8s should_skip=%-5r %s" % (
                scenario.line, scenario.status.name,
                getattr(scenario, "should_skip", None), scenario.name))
    print("    (%d features)" % len(features))


def check_parse_features():
    section("4. parse_features selections")
    os.chdir(WORK)
    cases = [
        ["features/alice.feature"],
        ["features/alice.feature:7"],
        ["features/alice.feature:7", "features/alice.feature:12"],
        ["features/alice.feature:8"],
        ["features/alice.feature:1"],
        ["features/alice.feature:0"],
        ["features/alice.feature:23"],
        ["features/alice.feature:28"],
        ["features/alice.feature:29"],
        ["features/alice.feature:33", "features/alice.feature:36"],
        ["features/alice.feature:999"],
        ["features/alice.feature:12", "features/alice.feature"],
        ["features/bob.feature:6"],
        ["features/bob.feature:8", "features/bob.feature:27"],
        ["features/bob.feature:14", "features/bob.feature:19"],
        ["features/bob.feature:3", "features/alice.feature:7",
         "features/bob.feature:11"],
        ["features/alice.feature:7", "features/charly.feature",
         "features/dora.feature:7", "features/dora.feature:11"],
        ["features/empty.feature", "features/empty.feature:3",
         "features/charly.feature:6"],
        [],
    ]
    write_file(os.path.join(WORK, "features", "empty.feature"), u"# nothing\n")
    for case in cases:
        print("parse_features(%r)" % case)
        try:
            show_selection(parse_features(case))
        except Exception as e:  # pylint: disable=broad-except
            print("    raised %s" % show_exc(e))
        locations = [FileLocationParser.parse(x) for x in case]
        print("  same with FileLocation objects:")
        try:
            show_selection(parse_features(locations))
        except Exception as e:  # pylint: disable=broad-except
            print("    raised %s" % show_exc(e))
    os.remove(os.path.join(WORK, "features", "empty.feature"))


# ---------------------------------------------------------------------------
# 5. END-TO-END
# ---------------------------------------------------------------------------
def show_rerun_selection(name):
    print("parse_features(collect_feature_locations(['@%s']))" % name)
    os.chdir(WORK)
    try:
        locations = collect_feature_locations(["@" + name])
        show_locations(locations)
        show_selection(parse_features(locations))
    except Exception as e:  # pylint: disable=broad-except
        print("    raised %s" % show_exc(e))


def check_end_to_end():
    section("5. end-to-end: run -> rerun file -> second run")
    os.chdir(WORK)
    print("-- RUN 1: everything")
    run_behave(["-f", "rerun", "-o", "rerun.txt", "-f", "plain", "--tags=not @wip",
                "features"])
    show_file("rerun.txt")
    show_rerun_selection("rerun.txt")

    print("-- RUN 2: fed back")
    run_behave(["-f", "rerun", "-o", "rerun2.txt", "-f", "plain", "@rerun.txt"])
    show_file("rerun2.txt")
    show_file("rerun.txt")
    show_rerun_selection("rerun2.txt")

    print("-- RUN 3: passing features only, stale rerun file gets removed")
    run_behave(["-f", "rerun", "-o", "rerun.txt", "-f", "progress",
                "features/charly.feature", "features/fred.feature"])
    show_file("rerun.txt")

    print("-- RUN 4: passing features only, no stale rerun file")
    run_behave(["-f", "rerun", "-o", "rerun.txt", "-f", "progress",
                "features/charly.feature"])
    show_file("rerun.txt")

    print("-- RUN 5: subset by location, rerun file in new directory")
    run_behave(["-f", "rerun", "-o", "reports/sub/rerun.txt",
                "features/emil.feature:6", "features/emil.feature:3",
                "features/dora.feature:7", "features/bob.feature:17"])
    show_file("reports/sub/rerun.txt")
    show_rerun_selection("reports/sub/rerun.txt")
    shutil.copy("reports/sub/rerun.txt", "rerun5.txt")

    print("-- RUN 6: listfile fed back, dry-run (and from a subdirectory)")
    run_behave(["-f", "rerun", "-o", "rerun6.txt", "-f", "plain", "--dry-run",
                "@rerun5.txt"])
    show_file("rerun6.txt")
    run_behave(["-f", "rerun", "-o", "rerun6b.txt", "--dry-run",
                "@reports/sub/rerun.txt"])
    show_file("rerun6b.txt")

    print("-- RUN 7: stop at first failure")
    run_behave(["-f", "rerun", "-o", "rerun7.txt", "--stop", "--no-summary",
                "features/charly.feature", "features/emil.feature",
                "features/alice.feature"])
    show_file("rerun7.txt")

    print("-- RUN 8: rerun to stdout")
    run_behave(["-f", "rerun", "--no-summary", "features/bob.feature",
                "features/charly.feature"])


def main():
    make_project()
    try:
        check_status()
        check_location_parsing()
        check_rerun_formatter()
        check_parse_features()
        check_end_to_end()
    finally:
        os.chdir(HERE)
        shutil.rmtree(WORK, ignore_errors=True)


if __name__ == "__main__":
    main()
