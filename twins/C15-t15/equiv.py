# -*- coding: utf-8 -*-
"""
Equivalence transcript for twin C15-t15 (PlainFormatter: rule indentation
property, step line schema).  Runs real behave runs (subprocess, PYTHONPATH
points to the worktree) with plain/plain0/steps.code next to other
formatters, and drives PlainFormatter (and subclasses) directly in-process for
boundary cases.  Prints a canonical transcript.
"""
from __future__ import absolute_import, print_function, unicode_literals
import io
import json
import os
import re
import shutil
import subprocess
import sys
import tempfile

WORKTREE = "/tmp/wtW/C15"
sys.path.insert(0, WORKTREE)

# ---------------------------------------------------------------------------
# FIXTURE TREE
# ---------------------------------------------------------------------------
FILES = {}
FILES["features/basic.feature"] = u'''
@feat
Feature: Basic fäture
  A description line.
  Second description line.

  Background: Common
    Given a passing step
    And a table step
      | name  | value   |
      | Alice | 1\\|2    |
      | Böb   | x\\\\y    |

  @ok
  Scenario: Passing scénario
    Given a passing step
    When I add 3 and 4
    Then the float 1.5 is seen
    And a doc-string step
      """
      line one
        indented "quoted" line
      ünicode line
      """

  @bad
  Scenario: Failing scenario
    Given a passing step
    When a failing step
    Then a passing step

  Scenario: Undefined scenario
    Given a passing step
    When an undefined step
    Then a passing step

  @skip
  Scenario: Skipped scenario
    Given a passing step

  Scenario: Error scenario
    Given a step that raises "böse"
    Then a passing step

  Scenario: Attach scenario
    Given a step that attaches data
    And a step that attaches data
    Then a custom value "abc" is seen

  @outline
  Scenario Outline: Outline <name>
    Given a passing step
    When I add <a> and <b>
    Then the word "<name>" is seen

    Examples: First
      | name | a | b |
      | one  | 1 | 2 |
      | two  | 3 | 4 |

    @skip
    Examples: Second
      | name  | a | b |
      | three | 5 | 6 |

    Examples: Third
      | name | a | b |
      | four | 7 | x |
'''
FILES["features/rules.feature"] = u'''
Feature: With rules

  Background: Feature background
    Given a passing step

  Scenario: Before rules
    When I add 1 and 1

  Rule: First rule
    Background: Rule background
      Given a table step
        | a |
        | 1 |

    Scenario: R1 S1
      When a passing step

    Scenario: R1 failing
      When a failing step
      Then a passing step

    Scenario Outline: R1 outline <n>
      When I add <n> and <n>

      Examples:
        | n |
        | 1 |
        | 2 |

  Rule: Second rule

    Scenario: R2 S1
      Given a doc-string step
        """
        only line
        """

  @skip
  Rule: Skipped rule
    Scenario: R3 S1
      Given a passing step
'''
FILES["features/empty.feature"] = u'''
Feature: Empty feature
  Nothing here.
'''
FILES["features/bgfail.feature"] = u'''
Feature: Background fails

  Background:
    Given a failing step

  Scenario: BF one
    Then a passing step

  Scenario: BF two
    Then a passing step
'''
FILES["features/steps/steps.py"] = u'''# -*- coding: utf-8 -*-
from __future__ import unicode_literals
from behave import given, when, then, step, register_type


class Custom(object):
    def __init__(self, text):
        self.text = text


def parse_custom(text):
    return Custom(text)

register_type(Custom=parse_custom)


@step(u'a passing step')
def step_pass(ctx):
    pass

@step(u'a failing step')
def step_fail(ctx):
    assert False, u"XFAIL first line\\nsecond lïne"

@step(u'a table step')
def step_table(ctx):
    assert ctx.table is not None

@step(u'a doc-string step')
def step_text(ctx):
    assert ctx.text

@step(u'I add {a:d} and {b:d}')
def step_add(ctx, a, b):
    ctx.sum = a + b

@step(u'the float {x:f} is seen')
def step_float(ctx, x):
    pass

@step(u'the word "{word}" is seen')
def step_word(ctx, word):
    pass

@step(u'a custom value "{value:Custom}" is seen')
def step_custom(ctx, value):
    assert isinstance(value, Custom)

@step(u'a step that raises "{msg}"')
def step_raise(ctx, msg):
    raise RuntimeError(msg)

@step(u'a step that attaches data')
def step_attach(ctx):
    ctx.attach("text/plain", b"hello \\xc3\\xa4")
'''
FILES["rec_formatter.py"] = u'''# -*- coding: utf-8 -*-
from __future__ import unicode_literals
from behave.formatter.base import Formatter


class RecordingFormatter(Formatter):
    name = "rec"
    description = "records events"

    def __init__(self, stream_opener, config):
        super(RecordingFormatter, self).__init__(stream_opener, config)
        self.stream = self.open()

    def _w(self, text):
        self.stream.write(text + u"\\n")

    def uri(self, uri):
        self._w(u"uri %s" % uri)

    def feature(self, feature):
        self._w(u"feature %s" % feature.name)

    def rule(self, rule):
        self._w(u"rule %s" % rule.name)

    def background(self, background):
        self._w(u"background %s @%s" % (background.name, background.location))

    def scenario(self, scenario):
        self._w(u"scenario %s @%s" % (scenario.name, scenario.location))

    def step(self, step):
        self._w(u"step %s %s" % (step.keyword, step.name))

    def match(self, match):
        args = [(a.name, a.original, repr(type(a.value).__name__))
                for a in match.arguments]
        self._w(u"match %s %r" % (match.location, args))

    def result(self, step):
        self._w(u"result %s => %s" % (step.name, step.status.name))

    def eof(self):
        self._w(u"eof")

    def close(self):
        self._w(u"close")
        self.close_stream()
'''


FILES["aligned_formatter.py"] = u'''# -*- coding: utf-8 -*-
from behave.formatter.plain import PlainFormatter


class AlignedPlainFormatter(PlainFormatter):
    name = "plain.aligned"
    SHOW_ALIGNED_KEYWORDS = True
    SHOW_TAGS = True
    DEFAULT_INDENT_SIZE = 3
'''


def make_tree():
    root = tempfile.mkdtemp(prefix="c15twin_")
    for relname, content in FILES.items():
        path = os.path.join(root, relname)
        dirname = os.path.dirname(path)
        if not os.path.isdir(dirname):
            os.makedirs(dirname)
        with io.open(path, "w", encoding="utf-8") as f:
            f.write(content)
    return root


# ---------------------------------------------------------------------------
# NORMALISATION
# ---------------------------------------------------------------------------
DURATION_JSON = re.compile(r'("duration":\s*)[-+0-9.eE]+')
DURATION_TXT = re.compile(r'\b\d+\.\d{3}s\b')
DURATION_SUMMARY = re.compile(r'Took \d+min \d+\.\d+s|Took \d+m\d+\.\d+s')


def normalise(text, root):
    text = text.replace(root, "<ROOT>")
    text = DURATION_JSON.sub(r'\g<1>0', text)
    text = DURATION_TXT.sub("N.NNNs", text)
    text = DURATION_SUMMARY.sub("Took T", text)
    return text


def emit(title, text):
    print("=" * 8, title)
    for line in text.splitlines():
        print("  | " + line.rstrip())


def run_behave(root, label, args, outputs):
    env = dict(os.environ)
    env["PYTHONPATH"] = os.pathsep.join([WORKTREE, root])
    env["PYTHONIOENCODING"] = "utf-8"
    env["COLUMNS"] = "80"
    env.pop("BEHAVE_ARGS", None)
    for name in outputs:
        path = os.path.join(root, name)
        if os.path.exists(path):
            os.remove(path)
    cmd = [sys.executable, "-m", "behave"] + args
    proc = subprocess.Popen(cmd, cwd=root, env=env, stdout=subprocess.PIPE,
                            stderr=subprocess.STDOUT)
    out, _ = proc.communicate()
    out = out.decode("utf-8", "replace")
    print("#" * 70)
    print("RUN", label, " ".join(args))
    print("returncode:", proc.returncode)
    emit("stdout", normalise(out, root))
    results = {}
    for name in outputs:
        path = os.path.join(root, name)
        if not os.path.exists(path):
            emit(name, "<missing>")
            continue
        with io.open(path, "r", encoding="utf-8") as f:
            content = f.read()
        results[name] = content
        emit(name, normalise(content, root))
    return results


def describe_json(text, root):
    """Parse the JSON report, print a canonical dump and read it back."""
    try:
        data = json.loads(text)
    except ValueError as e:
        print("JSON INVALID:", e.__class__.__name__)
        return
    canonical = json.dumps(data, indent=1, sort_keys=True, ensure_ascii=True)
    emit("json canonical", normalise(canonical, root))
    from behave.json_parser import JsonParser
    try:
        features = JsonParser().parse_features(data)
    except Exception as e:      # pylint: disable=broad-except
        print("READBACK:", e.__class__.__name__, e)
        return
    def loc(x):
        return (x.location.filename, x.location.line)

    for feature in features:
        print("READBACK feature", repr(feature.name), loc(feature),
              feature.tags)
        if feature.background:
            print("   background", repr(feature.background.name),
                  [(s.name, s.status.name) for s in feature.background.steps])
        for scenario in feature.scenarios:
            print("   scenario", repr(scenario.name), loc(scenario),
                  scenario.tags)
            for step in scenario.steps:
                print("      step", step.keyword, repr(step.name),
                      step.status.name, repr(step.error_message),
                      repr(step.text),
                      step.table and (step.table.headings,
                                      [list(r) for r in step.table.rows]))


COMMON = ["--no-color", "--no-summary"]
RUNS = [
    ("all-formatters",
     ["-f", "json.pretty", "-o", "out.json", "-f", "plain", "-o", "plain.txt",
      "-f", "progress", "-o", "p1.txt", "-f", "progress2", "-o", "p2.txt",
      "-f", "progress3", "-o", "p3.txt", "-f", "pretty", "-o", "pretty.txt",
      "-f", "rec_formatter:RecordingFormatter", "-o", "rec.txt",
      "--tags=~@skip", "features"],
     ["out.json", "plain.txt", "p1.txt", "p2.txt", "p3.txt", "pretty.txt",
      "rec.txt"]),
    ("reverse-order-show-skipped",
     ["-f", "rec_formatter:RecordingFormatter", "-o", "rec.txt",
      "-f", "progress3", "-o", "p3.txt", "-f", "plain", "-o", "plain.txt",
      "-f", "json", "-o", "out.json", "--tags=~@skip", "--show-skipped",
      "features"],
     ["out.json", "plain.txt", "p3.txt", "rec.txt"]),
    ("no-skipped-no-multiline-timings",
     ["-f", "json", "-o", "out.json", "-f", "plain", "-o", "plain.txt",
      "-f", "progress2", "-o", "p2.txt", "-f", "progress3", "-o", "p3.txt",
      "--tags=~@skip", "--no-skipped", "--no-multiline", "--show-timings",
      "features"],
     ["out.json", "plain.txt", "p2.txt", "p3.txt"]),
    ("dry-run",
     ["-f", "json.pretty", "-o", "out.json", "-f", "plain", "-o", "plain.txt",
      "-f", "progress3", "-o", "p3.txt",
      "-f", "rec_formatter:RecordingFormatter", "-o", "rec.txt",
      "--dry-run", "features"],
     ["out.json", "plain.txt", "p3.txt", "rec.txt"]),
    ("only-empty-feature",
     ["-f", "json", "-o", "out.json", "-f", "plain", "-o", "plain.txt",
      "-f", "progress3", "-o", "p3.txt", "features/empty.feature"],
     ["out.json", "plain.txt", "p3.txt"]),
    ("no-feature-selected",
     ["-f", "json", "-o", "out.json", "-f", "plain", "-o", "plain.txt",
      "--tags=@nonexistent", "--no-skipped", "features"],
     ["out.json", "plain.txt"]),
    ("stop-on-failure",
     ["-f", "json.pretty", "-o", "out.json", "-f", "plain", "-o", "plain.txt",
      "-f", "rec_formatter:RecordingFormatter", "-o", "rec.txt",
      "--stop", "features/basic.feature"],
     ["out.json", "plain.txt", "rec.txt"]),
    ("json-on-stdout",
     ["-f", "json", "features/rules.feature", "features/bgfail.feature"],
     []),
    ("plain-variants",
     ["-f", "plain", "-o", "plain.txt", "-f", "behave.formatter.plain:Plain0Formatter", "-o", "plain0.txt",
      "-f", "steps.code", "-o", "code.txt",
      "-f", "aligned_formatter:AlignedPlainFormatter", "-o", "aligned.txt",
      "--tags=~@skip", "--show-timings", "features"],
     ["plain.txt", "plain0.txt", "code.txt", "aligned.txt"]),
    ("plain-variants-dry-run-no-multiline",
     ["-f", "aligned_formatter:AlignedPlainFormatter", "-o", "aligned.txt",
      "-f", "plain", "-o", "plain.txt", "-f", "behave.formatter.plain:Plain0Formatter", "-o", "plain0.txt",
      "--dry-run", "--no-multiline", "--no-timings", "--show-skipped",
      "features/rules.feature", "features/basic.feature"],
     ["plain.txt", "plain0.txt", "aligned.txt"]),
    ("plain-on-stdout",
     ["-f", "plain", "--tags=~@skip", "--no-skipped",
      "features/rules.feature", "features/bgfail.feature",
      "features/empty.feature"],
     []),
    ("colored-pretty",
     ["-f", "pretty", "-o", "pretty.txt", "-f", "json", "-o", "out.json",
      "--color", "features/rules.feature"],
     ["pretty.txt", "out.json"]),
]


def real_runs(root):
    for label, args, outputs in RUNS:
        use_common = [a for a in COMMON
                      if not (a == "--no-color" and "--color" in args)]
        results = run_behave(root, label, use_common + args, outputs)
        if "out.json" in results:
            describe_json(results["out.json"], root)


# ---------------------------------------------------------------------------
# DIRECT (IN-PROCESS) USE OF PlainFormatter
# ---------------------------------------------------------------------------
def direct_plain_formatter():
    from behave.formatter.base import StreamOpener
    from behave.formatter.plain import PlainFormatter, Plain0Formatter
    from behave.model import (Feature, Rule, Scenario, Step, Background,
                              Table)
    from behave.model_core import Status
    from behave.configuration import Configuration

    print("#" * 70)
    print("DIRECT PlainFormatter")

    class Aligned(PlainFormatter):
        SHOW_ALIGNED_KEYWORDS = True
        SHOW_TAGS = True

    class NoBackgrounds(PlainFormatter):
        SHOW_BACKGROUNDS = False
        DEFAULT_INDENT_SIZE = 0

    class Wide(Plain0Formatter):
        DEFAULT_INDENT_SIZE = 5
        RAISE_OUTPUT_ERRORS = False

    class AsciiStream(io.StringIO):
        """Text stream that rejects non-ASCII text (like an ascii console)."""
        encoding = "ascii"

        def write(self, text):
            text.encode("ascii")
            return io.StringIO.write(self, text)

        def close(self):
            pass

    class KeepStream(io.StringIO):
        def close(self):
            pass

    def attempt(label, func, *args):
        try:
            result = func(*args)
            print("  ", label, "->", repr(result))
        except Exception as e:      # pylint: disable=broad-except
            print("  ", label, "raised", e.__class__.__name__, "|", e)

    def make_step(keyword, name, status, error_message=None, text=None,
                  table=None, duration=0.25):
        step = Step("f.feature", 5, keyword, keyword.lower(), name, text=text,
                    table=table)
        step.status = status
        step.error_message = error_message
        step.duration = duration
        return step

    def script(formatter, feature_name):
        table = Table([u"h1", u"h2"], rows=[[u"a", u"b|c"], [u"\u00e4", u""]])
        feature = Feature("f.feature", 1, u"Feature", feature_name,
                          tags=[u"ft"])
        rule = Rule("f.feature", 20, u"Rule", u"R1", tags=[u"rt", u"rt2"])
        bg = Background("f.feature", 2, u"Background", u"BG", steps=[])
        sc1 = Scenario("f.feature", 3, u"Scenario", u"S1", tags=[u"a", u"b"])
        sc2 = Scenario("f.feature", 9, u"Scenario", u"")
        steps1 = [
            make_step(u"Given", u"g1", Status.passed, text=u"doc\n  string"),
            make_step(u"When", u"w1 \u00fc", Status.failed,
                      error_message=u"Assertion Failed: x\nline2"),
            make_step(u"Then", u"t1", Status.skipped, table=table),
            make_step(u"And", u"a1", Status.undefined,
                      error_message=u"", text=u""),
            make_step(u"But", u"b1", Status.error,
                      error_message=u"err \u20ac", text=u"d\u00f6c",
                      table=table),
            make_step(u"*", u"star", Status.untested),
            make_step(u"Angenommen", u"long keyword", Status.passed),
        ]
        attempt("result-empty-queue", formatter.result, steps1[0])
        formatter.uri("f.feature")
        attempt("feature", formatter.feature, feature)
        print("   multiline_indentation:", repr(formatter.multiline_indentation),
              "rule:", repr(getattr(formatter, "current_rule", None)))
        for container in (None, rule, None):
            if container is not None:
                attempt("rule", formatter.rule, container)
            else:
                formatter.current_rule = None
            attempt("background", formatter.background, bg)
            attempt("scenario-1", formatter.scenario, sc1)
            for step in steps1:
                formatter.step(step)
            print("   queued:", len(formatter.steps))
            for step in steps1:
                # -- NOTE: The reported step is the queued one (not the arg).
                attempt("result %s" % step.name, formatter.result, steps1[-1])
                print("   queued:", len(formatter.steps))
            attempt("result-empty-queue", formatter.result, steps1[0])
            attempt("scenario-2", formatter.scenario, sc2)
            formatter.step(steps1[1])
            formatter.step(steps1[2])
            attempt("scenario-1-again (drops queue)", formatter.scenario, sc1)
            print("   queued:", len(formatter.steps))
            print("   multiline_indentation:",
                  repr(formatter.multiline_indentation))
        attempt("eof", formatter.eof)
        attempt("feature-again", formatter.feature, feature)
        print("   rule:", repr(formatter.current_rule))
        attempt("eof", formatter.eof)
        attempt("close", formatter.close)

    variants = [
        ("plain default", PlainFormatter, [], KeepStream),
        ("plain no-timings", PlainFormatter, ["--no-timings"], KeepStream),
        ("plain timings", PlainFormatter, ["--show-timings"], KeepStream),
        ("plain no-multiline", PlainFormatter, ["--no-multiline"], KeepStream),
        ("plain0", Plain0Formatter, ["--show-timings"], KeepStream),
        ("aligned+tags", Aligned, ["--no-timings"], KeepStream),
        ("aligned+tags timings", Aligned, ["--show-timings"], KeepStream),
        ("no-backgrounds indent0", NoBackgrounds, [], KeepStream),
        ("wide plain0", Wide, [], KeepStream),
        ("plain ascii-stream", PlainFormatter, [], AsciiStream),
        ("aligned ascii-stream", Aligned, ["--show-timings"], AsciiStream),
        ("wide ascii-stream (no raise)", Wide, ["--no-timings"], AsciiStream),
    ]
    for label, cls, args, stream_class in variants:
        print("-" * 60)
        print("VARIANT", label)
        config = Configuration(command_args=args, load_config=False)
        stream = stream_class()
        formatter = cls(StreamOpener(stream=stream), config)
        print("   has-property:", isinstance(formatter.indent_size, int),
              "show_timings:", formatter.show_timings,
              "show_multiline:", formatter.show_multiline,
              "aligned:", formatter.show_aligned_keywords)
        script(formatter,
               u"F" if stream_class is AsciiStream else u"F\u00e4")
        print("   output:")
        for line in stream.getvalue().splitlines():
            print("     |" + line.rstrip("\n") + "|")


def main():
    root = make_tree()
    try:
        real_runs(root)
    finally:
        shutil.rmtree(root, ignore_errors=True)
    direct_plain_formatter()


if __name__ == "__main__":
    main()
