# -*- coding: UTF-8 -*-
"""
Equivalence transcript for property C03 (status roll-up).

Prints a canonical transcript of what the status machinery does:

  PART A  Status predicates for every enum member (and odd operands)
  PART B  OuterStatus / ScenarioStatus conversion functions
  PART C  Scenario.compute_status over all step-status tuples (len <= 3)
  PART D  Feature/Rule.compute_status over all child-status tuples (len <= 3)
          with access-counting children (laziness is part of the transcript)
  PART E  ScenarioOutline.compute_status over all scenario-status tuples
  PART F  status property caching / set_status / clear_status / reset
  PART G  scenario_autoretry wrapper with scripted run() outcomes
  PART H  real runs (subprocess, own driver) over a feature tree with
          rules, outlines, background, hooks errors, --stop, --dry-run,
          de-selection, abort, skip, auto-retry

Usage: /venv/bin/python equiv.py > transcript.txt
"""

from __future__ import print_function
import sys
sys.path.insert(0, "/tmp/wtU/C03")

import itertools
import os
import re
import shutil
import subprocess
import tempfile
import hashlib

from behave.model_core import Status, OuterStatus, ScenarioStatus
from behave import model
from behave.model import (Feature, Rule, Scenario, ScenarioOutline, Step,
                          Background, Examples, Table)

ALL = list(Status)
OUT = []


def emit(text=""):
    OUT.append(text)


def outcome(func, *args, **kwargs):
    try:
        result = func(*args, **kwargs)
    except BaseException as e:  # pylint: disable=broad-except
        return "RAISES %s(%s)" % (e.__class__.__name__, e)
    if isinstance(result, Status):
        return result.name
    return repr(result)


def digest(lines):
    text = "\n".join(lines).encode("utf-8")
    return hashlib.sha1(text).hexdigest()


# ---------------------------------------------------------------------------
# PART A
# ---------------------------------------------------------------------------
def part_a():
    emit("== PART A: Status predicates")
    predicates = ["has_failed", "is_passed", "is_failure", "is_error",
                  "is_untested", "is_pending", "is_undefined", "is_final"]
    for status in ALL:
        row = ["%s=%s" % (name, outcome(getattr(status, name)))
               for name in predicates]
        emit("%-20s value=%-3d norm=%-10s v0=%-28s %s" % (
            status.name, status.value, status.normalized_name,
            outcome(status.to_status_v0), " ".join(row)))
    # -- CLASSIFICATION: exactly one class per reportable status
    for status in ALL:
        classes = [name for name, flag in [
            ("passed", status.is_passed()), ("failure", status.is_failure()),
            ("error", status.is_error()), ("skipped", status is Status.skipped),
            ("untested", status.is_untested())] if flag]
        emit("class %-20s %s" % (status.name, ",".join(classes) or "-"))
    # -- ODD OPERANDS / protocol of the enum
    emit("eq-str: %r %r %r" % (Status.passed == "passed",
                               Status.passed == "failed",
                               Status.passed != "failed"))
    emit("eq-other: %r %r %r" % (Status.passed == 11, Status.passed == None,  # noqa
                                 Status.passed == Status.passed))
    emit("hashes: %s" % [hash(s) == hash(s.value) for s in ALL])
    emit("in-set: %s" % [s in set(ALL) for s in ALL])
    emit("from_name: %s" % [outcome(Status.from_name, s.name) for s in ALL])
    emit("from_name-bad: %s" % outcome(Status.from_name, "nope"))
    emit("members: %s" % ",".join(Status.__members__.keys()))
    emit("len: %d iter: %s" % (len(Status), ",".join(s.name for s in Status)))
    emit("dir-public: %s" % ",".join(n for n in sorted(vars(Status))
                                     if not n.startswith("_")))

    class SubStr(str):
        pass
    emit("eq-substr: %r" % (Status.failed == SubStr("failed")))
    # -- UNBOUND USE with non-members
    for name in ["is_passed", "is_error", "is_untested", "is_final",
                 "is_pending", "is_undefined", "is_failure"]:
        for operand in ["passed", 11, None]:
            emit("unbound %s(%r): %s" % (
                name, operand, outcome(getattr(Status, name), operand)))


# ---------------------------------------------------------------------------
# PART B
# ---------------------------------------------------------------------------
class Holder(object):
    def __init__(self, status):
        self.status = status


def part_b():
    emit("== PART B: conversions")
    for status in ALL:
        emit("%-20s outer=%-10s outer_elem=%-10s scenario=%s / %s" % (
            status.name,
            outcome(OuterStatus.from_inner_status, status),
            outcome(OuterStatus.from_inner_model_element, Holder(status)),
            outcome(ScenarioStatus.from_step_status, status),
            outcome(ScenarioStatus.from_step, Holder(status), dry_run=True)))
    for operand in ["passed", None, 11]:
        emit("outer(%r): %s" % (operand,
                                outcome(OuterStatus.from_inner_status, operand)))
        emit("scenario(%r): %s" % (operand,
                                   outcome(ScenarioStatus.from_step_status, operand)))


# ---------------------------------------------------------------------------
# ACCESS-COUNTING CHILD
# ---------------------------------------------------------------------------
class Child(object):
    """Model element stand-in whose status reads are logged."""
    log = None

    def __init__(self, index, status):
        self.index = index
        self._status = status

    @property
    def status(self):
        Child.log.append(self.index)
        return self._status

    def reset(self):
        Child.log.append("reset%d" % self.index)


def tuples_upto(n, values=ALL, min_len=0):
    for size in range(min_len, n + 1):
        for combo in itertools.product(values, repeat=size):
            yield combo


def make_steps(statuses, prefix=u"s"):
    steps = []
    for i, status in enumerate(statuses):
        step = Step(u"x.feature", i + 1, u"Given", "given", u"%s%d" % (prefix, i))
        step.status = status
        steps.append(step)
    return steps


# ---------------------------------------------------------------------------
# PART C
# ---------------------------------------------------------------------------
def part_c():
    emit("== PART C: Scenario.compute_status")
    lines = []
    for hook_failed in (False, True):
        for combo in tuples_upto(3):
            scenario = Scenario(u"x.feature", 1, u"Scenario", u"S",
                                steps=make_steps(combo))
            scenario.hook_failed = hook_failed
            first = outcome(scenario.compute_status)
            prop = outcome(lambda: scenario.status)
            again = outcome(lambda: scenario.status)
            cached = scenario._cached_status.name
            line = "hook=%d [%s] -> %s | status=%s %s cached=%s" % (
                hook_failed, ",".join(s.name for s in combo),
                first, prop, again, cached)
            lines.append(line)
            if len(combo) <= 1 or (len(combo) == 2 and not hook_failed):
                emit(line)
    emit("tuples=%d digest=%s" % (len(lines), digest(lines)))

    # -- WITH BACKGROUND: background steps come first.
    lines = []
    some = [Status.passed, Status.failed, Status.skipped, Status.untested,
            Status.undefined, Status.pending_warn, Status.hook_error,
            Status.untested_undefined, Status.executing]
    for bg_combo in tuples_upto(2, some):
        for combo in tuples_upto(2, some):
            background = Background(u"x.feature", 1, u"Background", u"B",
                                    steps=make_steps(bg_combo, u"b"))
            scenario = Scenario(u"x.feature", 1, u"Scenario", u"S",
                                steps=make_steps(combo),
                                background=background,
                                background_steps=make_steps(bg_combo, u"b"))
            lines.append("bg[%s] steps[%s] -> %s / %s" % (
                ",".join(s.name for s in bg_combo),
                ",".join(s.name for s in combo),
                outcome(scenario.compute_status),
                outcome(lambda: scenario.status)))
    for line in lines[::37]:
        emit(line)
    emit("bg-tuples=%d digest=%s" % (len(lines), digest(lines)))

    # -- STEP STATUS READS (counting steps)
    for combo in [(), (Status.passed,), (Status.passed, Status.failed, Status.passed),
                  (Status.pending_warn, Status.skipped, Status.error),
                  (Status.untested, Status.passed)]:
        scenario = Scenario(u"x.feature", 1, u"Scenario", u"S")
        scenario.steps = [Child(i, s) for i, s in enumerate(combo)]
        Child.log = []
        result = outcome(scenario.compute_status)
        emit("touched-steps [%s] -> %s steps=%s" % (
            ",".join(s.name for s in combo), result,
            sorted(set(Child.log))))


# ---------------------------------------------------------------------------
# PART D
# ---------------------------------------------------------------------------
def part_d():
    emit("== PART D: Feature/Rule.compute_status")
    for kind in (Feature, Rule):
        lines = []
        for hook_failed in (False, True):
            for combo in tuples_upto(3):
                keyword = u"Feature" if kind is Feature else u"Rule"
                container = kind(u"x.feature", 1, keyword, u"C")
                container.run_items = [Child(i, s) for i, s in enumerate(combo)]
                container.hook_failed = hook_failed
                Child.log = []
                first = outcome(container.compute_status)
                log1 = list(Child.log)
                Child.log = []
                prop = outcome(lambda: container.status)
                again = outcome(lambda: container.status)
                log2 = list(Child.log)
                line = "%s hook=%d [%s] -> %s reads=%s | status=%s %s reads=%s" % (
                    kind.__name__, hook_failed,
                    ",".join(s.name for s in combo), first, log1,
                    prop, again, log2)
                lines.append(line)
                if len(combo) <= 1 or (len(combo) == 2 and not hook_failed
                                       and kind is Feature):
                    emit(line)
        emit("%s tuples=%d digest=%s" % (kind.__name__, len(lines), digest(lines)))

    # -- LONGER SEQUENCES over the reachable statuses
    reachable = [Status.untested, Status.skipped, Status.passed, Status.failed,
                 Status.error, Status.hook_error]
    lines = []
    for combo in tuples_upto(5, reachable, min_len=4):
        feature = Feature(u"x.feature", 1, u"Feature", u"F")
        feature.run_items = [Child(i, s) for i, s in enumerate(combo)]
        Child.log = []
        lines.append("[%s] -> %s reads=%d" % (
            ",".join(s.name for s in combo),
            outcome(feature.compute_status), len(Child.log)))
    for line in lines[::397]:
        emit(line)
    emit("long tuples=%d digest=%s" % (len(lines), digest(lines)))

    # -- REAL NESTING: Feature > Rule > ScenarioOutline > Scenario > Step
    lines = []
    some = [Status.passed, Status.failed, Status.skipped, Status.untested,
            Status.undefined, Status.pending_warn, Status.hook_error,
            Status.pending, Status.error]
    for s1, s2, s3 in itertools.product(some, repeat=3):
        feature = Feature(u"x.feature", 1, u"Feature", u"F")
        rule = Rule(u"x.feature", 2, u"Rule", u"R", parent=feature)
        outline = ScenarioOutline(u"x.feature", 3, u"Scenario Outline", u"O")
        sc1 = Scenario(u"x.feature", 4, u"Scenario", u"O1", steps=make_steps([s1]))
        sc2 = Scenario(u"x.feature", 5, u"Scenario", u"O2", steps=make_steps([s2]))
        outline._scenarios = [sc1, sc2]
        plain = Scenario(u"x.feature", 6, u"Scenario", u"P",
                         steps=make_steps([Status.passed, s3]))
        rule.add_scenario(outline)
        feature.add_scenario(plain)
        feature.add_rule(rule)
        lines.append("steps(%s,%s,%s) -> O1=%s O2=%s O=%s R=%s P=%s F=%s" % (
            s1.name, s2.name, s3.name,
            outcome(lambda: sc1.status), outcome(lambda: sc2.status),
            outcome(lambda: outline.status), outcome(lambda: rule.status),
            outcome(lambda: plain.status), outcome(lambda: feature.status)))
    for line in lines[::23]:
        emit(line)
    emit("nested=%d digest=%s" % (len(lines), digest(lines)))


# ---------------------------------------------------------------------------
# PART E
# ---------------------------------------------------------------------------
def make_examples(row_counts):
    examples = []
    for i, count in enumerate(row_counts):
        table = None
        if count is not None:
            table = Table([u"a"], 0, [[u"%d" % k] for k in range(count)])
        examples.append(Examples(u"x.feature", 10 + i, u"Examples", u"E%d" % i,
                                 table=table))
    return examples


def part_e():
    emit("== PART E: ScenarioOutline.compute_status")
    lines = []
    for hook_failed in (False, True):
        for combo in tuples_upto(3):
            outline = ScenarioOutline(u"x.feature", 1, u"Scenario Outline", u"O",
                                      examples=make_examples([len(combo)]))
            outline._scenarios = [Child(i, s) for i, s in enumerate(combo)]
            outline.hook_failed = hook_failed
            Child.log = []
            first = outcome(outline.compute_status)
            log1 = list(Child.log)
            Child.log = []
            prop = outcome(lambda: outline.status)
            again = outcome(lambda: outline.status)
            line = "hook=%d [%s] -> %s reads=%s | status=%s %s reads=%s" % (
                hook_failed, ",".join(s.name for s in combo), first, log1,
                prop, again, Child.log)
            lines.append(line)
            if len(combo) <= 1 or (len(combo) == 2 and not hook_failed):
                emit(line)
    emit("tuples=%d digest=%s" % (len(lines), digest(lines)))

    # -- NOT BUILT / EMPTY variants
    for row_counts in [[], [0], [None], [0, None, 0], [2], [0, 3], [None, 1]]:
        outline = ScenarioOutline(u"x.feature", 1, u"Scenario Outline", u"O",
                                  examples=make_examples(row_counts))
        emit("unbuilt rows=%r -> compute=%s status=%s expected=%s" % (
            row_counts, outcome(outline.compute_status),
            outcome(lambda: outline.status),
            outcome(outline._expected_scenarios_count)))
        # -- FEWER scenarios than rows (run cut short / partially built)
        outline._scenarios = [Child(0, Status.skipped)]
        Child.log = []
        emit("  one-skipped rows=%r -> %s" % (row_counts,
                                             outcome(outline.compute_status)))
        outline._scenarios = [Child(0, Status.passed), Child(1, Status.skipped)]
        emit("  passed+skipped rows=%r -> %s" % (row_counts,
                                                outcome(outline.compute_status)))

    # -- LONGER SEQUENCES
    reachable = [Status.untested, Status.skipped, Status.passed, Status.failed,
                 Status.error, Status.hook_error, Status.xfailed]
    lines = []
    for combo in tuples_upto(5, reachable, min_len=4):
        outline = ScenarioOutline(u"x.feature", 1, u"Scenario Outline", u"O")
        outline._scenarios = [Child(i, s) for i, s in enumerate(combo)]
        Child.log = []
        lines.append("[%s] -> %s reads=%d" % (
            ",".join(s.name for s in combo),
            outcome(outline.compute_status), len(Child.log)))
    for line in lines[::997]:
        emit(line)
    emit("long tuples=%d digest=%s" % (len(lines), digest(lines)))

    # -- BUILT FROM EXAMPLES (real scenarios), statuses set on steps
    outline = ScenarioOutline(
        u"x.feature", 1, u"Scenario Outline", u"O <a>",
        steps=[Step(u"x.feature", 2, u"Given", "given", u"a step <a>")],
        examples=make_examples([2, 1]))
    emit("before build: %s duration=%r" % (outline.status.name, outline.duration))
    scenarios = outline.scenarios
    emit("built: %s" % [s.name for s in scenarios])
    emit("after build: %s" % outline.status.name)
    for combo in tuples_upto(3, [Status.passed, Status.skipped, Status.failed,
                                 Status.untested, Status.undefined], min_len=3):
        outline.reset()
        for scenario, status in zip(outline.scenarios, combo):
            for step in scenario.steps:
                step.status = status
        emit("built [%s] -> %s (%s)" % (
            ",".join(s.name for s in combo), outline.status.name,
            ",".join(s.status.name for s in outline.scenarios)))


# ---------------------------------------------------------------------------
# PART F
# ---------------------------------------------------------------------------
def part_f():
    emit("== PART F: status caching")

    class Scripted(model.TagAndStatusStatement):
        def __init__(self, script):
            super(Scripted, self).__init__(u"x.feature", 1, u"K", u"N", [])
            self.script = list(script)
            self.calls = 0

        def compute_status(self):
            self.calls += 1
            return self.script.pop(0)

    for status in ALL:
        elem = Scripted([status, Status.failed, Status.skipped])
        seen = [elem.status.name, elem.status.name, elem.status.name]
        emit("%-20s reads=%s calls=%d cached=%s" % (
            status.name, seen, elem.calls, elem._cached_status.name))
    elem = Scripted([Status.passed, Status.failed])
    emit("initial cached=%s skip=%r reason=%r" % (
        elem._cached_status.name, elem.should_skip, elem.skip_reason))
    emit("1st %s calls=%d" % (elem.status.name, elem.calls))
    elem.clear_status()
    emit("cleared cached=%s -> %s calls=%d" % (
        elem._cached_status.name, elem.status.name, elem.calls))
    elem.set_status("skipped")
    emit("set by name: %s calls=%d" % (elem.status.name, elem.calls))
    elem.set_status(Status.executing)
    emit("set non-final: cached=%s -> %s" % (
        elem._cached_status.name, outcome(lambda: elem.status)))
    emit("set bad name: %s" % outcome(elem.set_status, "nope"))
    elem.should_skip = True
    elem.skip_reason = "why"
    elem.set_status(Status.error)
    elem.reset()
    emit("reset: cached=%s skip=%r reason=%r" % (
        elem._cached_status.name, elem.should_skip, elem.skip_reason))
    base = model.TagAndStatusStatement(u"x.feature", 1, u"K", u"N", [])
    emit("abstract: %s" % outcome(lambda: base.status))

    # -- RE-RUN: status depends on latest step results only
    scenario = Scenario(u"x.feature", 1, u"Scenario", u"S",
                        steps=make_steps([Status.passed, Status.failed]))
    feature = Feature(u"x.feature", 1, u"Feature", u"F", scenarios=[scenario])
    emit("run1: %s %s" % (scenario.status.name, feature.status.name))
    scenario.steps[1].status = Status.passed
    emit("stale: %s %s" % (scenario.status.name, feature.status.name))
    scenario.clear_status()
    feature.clear_status()
    emit("run2: %s %s" % (scenario.status.name, feature.status.name))
    feature.hook_failed = True
    feature.reset()
    emit("reset: %s %s hook_failed=%r steps=%s" % (
        scenario.status.name, feature.status.name, feature.hook_failed,
        [s.status.name for s in scenario.steps]))
    feature.skip()
    emit("skip: %s %s steps=%s" % (
        scenario.status.name, feature.status.name,
        [s.status.name for s in scenario.steps]))


# ---------------------------------------------------------------------------
# PART G
# ---------------------------------------------------------------------------
def part_g():
    emit("== PART G: scenario_autoretry")
    from behave.contrib.scenario_autoretry import patch_scenario_with_autoretry
    from six import StringIO

    class FakeScenario(object):
        def __init__(self, name, script):
            self.name = name
            self.script = list(script)
            self.calls = []

        def run(self, *args, **kwargs):
            self.calls.append((args, sorted(kwargs.items())))
            return self.script.pop(0)

    def patched_run(target, runs, *args, **kwargs):
        saved = sys.stdout
        sys.stdout = StringIO()
        try:
            result = outcome(runs, *args, **kwargs)
            printed = sys.stdout.getvalue()
        finally:
            sys.stdout = saved
        return result, printed

    scripts = [
        [False], [True, False], [True, True, False], [True, True, True],
        [True, True, True, True], [0], [1, "", 1], [None], ["x", [], {}],
        [True, True],
    ]
    for max_attempts in [None, 3, 1, 2, 0, -1, 5, 2.0, "3"]:
        for script in scripts:
            fake = FakeScenario(u"S", script)
            try:
                if max_attempts is None:
                    patch_scenario_with_autoretry(fake)
                else:
                    patch_scenario_with_autoretry(fake, max_attempts=max_attempts)
            except Exception as e:  # pylint: disable=broad-except
                emit("patch max=%r RAISES %s(%s)" % (
                    max_attempts, e.__class__.__name__, e))
                continue
            result, printed = patched_run(fake, fake.run, "runner", key=1)
            emit("max=%r script=%r -> %s calls=%d args=%r left=%r run-type=%s" % (
                max_attempts, script, result, len(fake.calls),
                fake.calls[:1], fake.script, type(fake.run).__name__))
            for line in printed.splitlines():
                emit("    | " + line)
            # -- SECOND RUN of the same patched scenario (re-run)
            if fake.script:
                result, printed = patched_run(fake, fake.run)
                emit("    again -> %s calls=%d" % (result, len(fake.calls)))
                for line in printed.splitlines():
                    emit("    | " + line)

    # -- OUTLINE: every generated scenario is patched, the outline is not.
    outline = ScenarioOutline(
        u"x.feature", 1, u"Scenario Outline", u"O <a>",
        steps=[Step(u"x.feature", 2, u"Given", "given", u"a step <a>")],
        examples=make_examples([2, 1]))
    outline_run = outline.run
    patch_scenario_with_autoretry(outline, max_attempts=2)
    emit("outline.run patched: %r" % (outline.run != outline_run))
    emit("outline scenarios: %s" % [
        (s.name, type(s.run).__name__, len(getattr(s.run, "args", ())),
         getattr(s.run, "keywords", None))
        for s in outline.scenarios])
    emit("identity kept: %r" % (outline.scenarios is outline._scenarios))
    scenario = Scenario(u"x.feature", 1, u"Scenario", u"S")
    patch_scenario_with_autoretry(scenario)
    patch_scenario_with_autoretry(scenario, 2)      # -- PATCHED TWICE
    emit("scenario: %s nested=%s" % (
        type(scenario.run).__name__, type(scenario.run.args[0]).__name__))
    empty = ScenarioOutline(u"x.feature", 1, u"Scenario Outline", u"E")
    patch_scenario_with_autoretry(empty)
    emit("empty outline: %r" % ("run" in vars(empty)))


# ---------------------------------------------------------------------------
# PART H: REAL RUNS
# ---------------------------------------------------------------------------
DRIVER = r'''
from __future__ import print_function
import sys
sys.path.insert(0, "/tmp/wtU/C03")
from behave.configuration import Configuration
from behave.runner import Runner
from behave.reporter.base import Reporter
from behave.model import Rule, ScenarioOutline, Scenario

SEEN = []

def dump(element, indent=0):
    pad = "  " * indent
    line = "%s%s %r: %s" % (pad, element.__class__.__name__, element.name,
                            element.status.name)
    if hasattr(element, "hook_failed"):
        line += " hook_failed=%r" % element.hook_failed
    if hasattr(element, "should_skip"):
        line += " should_skip=%r" % element.should_skip
    yield line
    if isinstance(element, ScenarioOutline):
        for scenario in element._scenarios:
            for x in dump(scenario, indent + 1):
                yield x
    elif isinstance(element, Scenario):
        for step in element.all_steps:
            yield "%s  Step %r: %s" % (pad, step.name, step.status.name)
    else:
        for item in element.run_items:
            for x in dump(item, indent + 1):
                yield x

class TreeReporter(Reporter):
    def feature(self, feature):
        SEEN.append("REPORTER.feature %r: %s" % (feature.name, feature.status.name))
        SEEN.extend(dump(feature, 1))
    def end(self):
        SEEN.append("REPORTER.end")

config = Configuration(command_args=sys.argv[1:], load_config=False)
config.reporters.append(TreeReporter(config))
runner = Runner(config)
try:
    failed = runner.run()
except BaseException as e:
    failed = "RAISES %s(%s)" % (e.__class__.__name__, e)
sys.stdout.flush()
print("=" * 20, "FINAL")
print("failed=%r aborted=%r" % (failed, runner.aborted))
for line in SEEN:
    print(line)
print("-" * 20, "AFTER-RUN TREE")
for feature in runner.features:
    for line in dump(feature):
        print(line)
'''

STEPS = r'''
from __future__ import print_function
import os
from behave import given, when, then, step
from behave.api.pending_step import StepNotImplementedError

COUNTERS = {}

@step(u'a step passes')
def step_passes(ctx):
    pass

@step(u'another step passes')
def step_passes2(ctx):
    pass

@step(u'a step fails')
def step_fails(ctx):
    assert False, "XFAIL-STEP"

@step(u'a step raises')
def step_raises(ctx):
    raise RuntimeError("boom")

@step(u'a step is pending')
def step_pending(ctx):
    raise StepNotImplementedError("pending step")

@step(u'a step aborts')
def step_aborts(ctx):
    raise KeyboardInterrupt()

@step(u'a step skips the scenario')
def step_skips(ctx):
    ctx.scenario.skip("by step")

@step(u'a step with value "{value}"')
def step_value(ctx, value):
    assert value != "bad", "bad value"
    if value == "boom":
        raise ValueError("boom value")

@step(u'a flaky step "{name}" fails {count:d} times')
def step_flaky(ctx, name, count):
    COUNTERS[name] = COUNTERS.get(name, 0) + 1
    assert COUNTERS[name] > count, "flaky %s attempt %d" % (name, COUNTERS[name])
'''

ENVIRONMENT = r'''
from __future__ import print_function
import os
from behave.contrib.scenario_autoretry import patch_scenario_with_autoretry

BAD = os.environ.get("BAD_HOOK", "")
LOG = os.environ.get("LOG_HOOKS", "")

def maybe_fail(hook, name=None):
    if LOG:
        print("HOOK %s %s" % (hook, name))
    for spec in BAD.split(";"):
        if not spec:
            continue
        parts = spec.split(":", 1)
        if parts[0] == hook and (len(parts) == 1 or parts[1] == name):
            raise RuntimeError("bad %s" % spec)

def before_all(ctx):
    maybe_fail("before_all")

def before_feature(ctx, feature):
    for scenario in feature.walk_scenarios(with_outlines=True):
        if "autoretry" in scenario.effective_tags:
            patch_scenario_with_autoretry(scenario, max_attempts=3)
    maybe_fail("before_feature", feature.name)
    if "skip_in_hook" in feature.tags:
        feature.mark_skipped()

def after_feature(ctx, feature):
    if LOG:
        print("STATUS-IN-HOOK feature %s: %s" % (feature.name, feature.status.name))
    maybe_fail("after_feature", feature.name)

def before_rule(ctx, rule):
    maybe_fail("before_rule", rule.name)

def after_rule(ctx, rule):
    if LOG:
        print("STATUS-IN-HOOK rule %s: %s" % (rule.name, rule.status.name))
    maybe_fail("after_rule", rule.name)

def before_scenario(ctx, scenario):
    maybe_fail("before_scenario", scenario.name)
    if "skip_in_hook" in scenario.tags:
        scenario.mark_skipped()

def after_scenario(ctx, scenario):
    if LOG:
        print("STATUS-IN-HOOK scenario %s: %s" % (scenario.name, scenario.status.name))
    maybe_fail("after_scenario", scenario.name)

def before_step(ctx, step):
    maybe_fail("before_step", step.name)

def after_step(ctx, step):
    maybe_fail("after_step", step.name)

def before_tag(ctx, tag):
    maybe_fail("before_tag", tag)

def after_tag(ctx, tag):
    maybe_fail("after_tag", tag)
'''

FEATURES = {
    "a_mixed.feature": u'''
@fa
Feature: Mixed
  Background:
    Given a step passes

  Scenario: M1 passes
    When another step passes

  @wip
  Scenario: M2 pending in wip
    When a step is pending
    Then a step passes

  @slow
  Scenario: M3 fails
    When a step fails
    Then a step passes

  Scenario: M4 undefined
    When a step is not defined anywhere
    Then a step passes

  Scenario Outline: MO <v>
    When a step with value "<v>"
    Then another step passes

    Examples: first
      | v    |
      | good |
      | bad  |

    @slow
    Examples: second
      | v    |
      | fine |
      | boom |

  Rule: R1
    Background:
      Given another step passes

    Scenario: R1S1 passes
      When a step passes

    Scenario Outline: R1O <v>
      When a step with value "<v>"

      Examples:
        | v   |
        | ok  |
        | ok2 |

  @slow
  Rule: R2
    Scenario: R2S1 errors
      When a step raises

    Scenario: R2S2 pending
      When a step is pending
''',
    "b_passing.feature": u'''
@fb
Feature: Passing
  Scenario: P1
    Given a step passes
  @skip_in_hook
  Scenario: P2 skipped in hook
    Given a step fails
  Scenario: P3 skips itself
    Given a step passes
    When a step skips the scenario
    Then a step fails
  Rule: PR
    Scenario Outline: PO <v>
      Given a step with value "<v>"
      Examples:
        | v |
        | 1 |
        | 2 |
''',
    "c_abort.feature": u'''
@fc
Feature: Aborting
  Scenario: C1
    Given a step passes
  Scenario: C2 aborts
    Given a step passes
    When a step aborts
    Then a step passes
  Scenario: C3 never runs
    Given a step passes
  Scenario Outline: CO <v>
    Given a step with value "<v>"
    Examples:
      | v |
      | 1 |
''',
    "d_retry.feature": u'''
@fd
Feature: Retry
  @autoretry
  Scenario: D1 flaky once
    Given a flaky step "d1" fails 1 times
    Then a step passes
  @autoretry
  Scenario: D2 flaky always
    Given a step passes
    When a flaky step "d2" fails 9 times
    Then a step passes
  @autoretry
  Scenario Outline: DO <n>
    Given a flaky step "<n>" fails <k> times
    Examples:
      | n  | k |
      | o1 | 0 |
      | o2 | 2 |
      | o3 | 5 |
  Scenario: D3 plain
    Given a step passes
''',
    "e_skipped.feature": u'''
@fe @skip_in_hook
Feature: Skipped in hook
  Scenario: E1
    Given a step fails
  Scenario Outline: EO <v>
    Given a step with value "<v>"
    Examples:
      | v   |
      | bad |
''',
}

NO_ABORT = ["features/a_mixed.feature", "features/b_passing.feature",
            "features/d_retry.feature", "features/e_skipped.feature"]
RUNS = [
    ("default", [], {}),
    ("stop", ["--stop"], {}),
    ("dry-run", ["--dry-run"], {}),
    ("tags-none", ["--tags=@nothing"], {}),
    ("tags-none-show-skipped", ["--tags=@nothing", "--show-skipped"], {}),
    ("tags-not-slow", ["--tags=not @slow"], {}),
    ("tags-slow", ["--tags=@slow"], {}),
    ("wip", ["--wip"], {}),
    ("name-select", ["--name=R1|P1|D3|good"], {}),
    ("only-abort", ["features/c_abort.feature", "features/b_passing.feature"], {}),
    ("only-retry", ["features/d_retry.feature"], {"LOG_HOOKS": "1"}),
    ("retry-stop", ["--stop", "features/d_retry.feature"], {}),
    ("log-hooks", ["features/a_mixed.feature"], {"LOG_HOOKS": "1"}),
    ("bad-before-feature", [], {"BAD_HOOK": "before_feature:Passing"}),
    ("bad-after-feature", [], {"BAD_HOOK": "after_feature:Passing"}),
    ("bad-before-rule", [], {"BAD_HOOK": "before_rule:R1;after_rule:PR"}),
    ("bad-before-scenario", [], {"BAD_HOOK": "before_scenario:M1 passes;before_scenario:PO 1 -- @1.1 "}),
    ("bad-after-scenario", [], {"BAD_HOOK": "after_scenario:R1S1 passes;after_scenario:P1"}),
    ("bad-step-hooks", [], {"BAD_HOOK": "before_step:another step passes;after_step:a step with value \"1\""}),
    ("bad-tags", [], {"BAD_HOOK": "before_tag:fb;after_tag:slow"}),
    ("bad-before-all", [], {"BAD_HOOK": "before_all"}),
    ("bad-hook-stop", ["--stop"], {"BAD_HOOK": "after_scenario:M1 passes"}),
    ("dry-run-tags", ["--dry-run", "--tags=@slow"], {}),
    ("no-abort", NO_ABORT, {}),
    ("no-abort-stop", ["--stop"] + NO_ABORT, {}),
    ("no-abort-show-skipped", ["--show-skipped", "--tags=not @fb"] + NO_ABORT, {}),
    ("no-abort-bad-hooks", NO_ABORT,
     {"BAD_HOOK": "before_scenario:D1 flaky once;after_scenario:DO o1 -- @1.1 ;"
                  "before_feature:Skipped in hook;after_rule:R2;before_tag:wip"}),
    ("no-abort-bad-feature-hooks", NO_ABORT,
     {"BAD_HOOK": "after_feature:Mixed;before_feature:Retry;after_tag:fe"}),
    ("no-abort-dry-run", ["--dry-run"] + NO_ABORT, {}),
]


def sanitize(text, workdir):
    text = text.replace(workdir, "<WORKDIR>")
    text = re.sub(r"line \d+", "line N", text)
    text = re.sub(r"\d+\.\d+s\b", "T.TTTs", text)
    text = re.sub(r"\dm\d+\.\d+s", "MmT.TTTs", text)
    text = re.sub(r"0x[0-9a-fA-F]+", "0xADDR", text)
    # -- SOURCE LINES shown in tracebacks of behave itself are not behaviour.
    kept = []
    skip_next = False
    for line in text.splitlines():
        if skip_next:
            skip_next = False
            if not line.lstrip().startswith("File "):
                continue
        if line.lstrip().startswith('File "/tmp/wtU/C03/behave/'):
            skip_next = True
            kept.append(re.sub(r", in .*$", ", in <FUNC>", line.rstrip()))
            continue
        if line.strip() and set(line.strip()) <= set("^~ "):
            continue    # -- PY3.11+ traceback carets
        kept.append(line.rstrip())
    return "\n".join(kept)


def part_h():
    emit("== PART H: real runs")
    workdir = tempfile.mkdtemp(prefix="c03twin_")
    try:
        os.makedirs(os.path.join(workdir, "features", "steps"))
        for name, text in FEATURES.items():
            with open(os.path.join(workdir, "features", name), "wb") as f:
                f.write(text.encode("utf-8"))
        with open(os.path.join(workdir, "features", "steps", "steps.py"), "w") as f:
            f.write(STEPS)
        with open(os.path.join(workdir, "features", "environment.py"), "w") as f:
            f.write(ENVIRONMENT)
        with open(os.path.join(workdir, "driver.py"), "w") as f:
            f.write(DRIVER)
        for label, args, extra_env in RUNS:
            env = dict(os.environ)
            env.pop("BAD_HOOK", None)
            env.pop("LOG_HOOKS", None)
            env["PYTHONPATH"] = "/tmp/wtU/C03"
            env["PYTHONDONTWRITEBYTECODE"] = "1"
            env["PYTHONHASHSEED"] = "0"
            env["COLUMNS"] = "200"
            env.update(extra_env)
            command = [sys.executable, "driver.py", "-f", "plain",
                       "--no-timings", "--no-color"] + args
            proc = subprocess.Popen(command, cwd=workdir, env=env,
                                    stdout=subprocess.PIPE,
                                    stderr=subprocess.STDOUT)
            output = proc.communicate()[0].decode("utf-8", "replace")
            emit("-" * 70)
            emit("RUN %s: args=%r env=%r exit=%d" % (
                label, args, sorted(extra_env.items()), proc.returncode))
            emit(sanitize(output, workdir))
    finally:
        shutil.rmtree(workdir, ignore_errors=True)


def main():
    part_a()
    part_b()
    part_c()
    part_d()
    part_e()
    part_f()
    part_g()
    part_h()
    text = "\n".join(OUT) + "\n"
    if sys.version_info[0] == 2:
        text = text.encode("utf-8")
    sys.stdout.write(text)


if __name__ == "__main__":
    main()
