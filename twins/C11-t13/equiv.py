# -*- coding: UTF-8 -*-
"""
Equivalence transcript for property C11 (step matching and dispatch).
Prints a canonical transcript of everything observed; run once on the clean
tree and once on the patched tree -- the two outputs must be identical.
"""
from __future__ import print_function
import sys
sys.path.insert(0, "/tmp/wtW/C11")

import contextlib
import io
import os
import shutil
import subprocess
import tempfile

import parse
from behave import matchers
from behave.matchers import (
    Match, MatchWithError, NoMatch, ParseMatcher, CFParseMatcher,
    RegexMatcher, SimplifiedRegexMatcher, CucumberRegexMatcher, Matcher,
    StepParseError, get_step_matcher_factory,
)
from behave.model import Step
from behave.step_registry import StepRegistry, AmbiguousStep

assert matchers.__file__.startswith("/tmp/wtW/C11/"), matchers.__file__


def emit(*parts):
    print(" ".join(str(p) for p in parts))


def describe_args(arguments):
    if arguments is None:
        return "None"
    if not isinstance(arguments, (list, tuple)):
        return "NON-LIST %r" % (arguments,)
    return "[" + ", ".join(
        "(%r,%r,%r,%r:%s,%r)" % (a.start, a.end, a.original, a.value,
                                 type(a.value).__name__, a.name)
        for a in arguments) + "]"


def describe_match(result):
    if result is None:
        return "NO-MATCH(None)"
    if isinstance(result, MatchWithError):
        error = result.stored_error
        return "MatchWithError func=%s %s: %s" % (
            getattr(result.func, "__name__", result.func),
            error.__class__.__name__, error)
    if isinstance(result, Match):
        return "Match func=%s loc=%s args=%s" % (
            getattr(result.func, "__name__", result.func),
            os.path.basename(str(result.location)),
            describe_args(result.arguments))
    return "OTHER %r" % (result,)


def guarded(label, func, *args, **kwargs):
    try:
        value = func(*args, **kwargs)
    except BaseException as e:  # noqa
        emit(label, "RAISED", e.__class__.__name__ + ":", e)
        return None
    return value


# ---------------------------------------------------------------------------
# SECTION 1: matcher classes on pattern/text families
# ---------------------------------------------------------------------------
@parse.with_pattern(r"\d+")
def parse_number(text):
    return int(text)


@parse.with_pattern(r"[A-Za-z]+")
def parse_word(text):
    return text.upper()


@parse.with_pattern(r"\d+")
def parse_bad_number(text):
    raise ValueError("bad number: %s" % text)


@parse.with_pattern(r"\d+")
def parse_not_implemented(text):
    raise NotImplementedError("converter: %s" % text)


@parse.with_pattern(r"yes|no")
def parse_yesno(text):
    return text == "yes"


CUSTOM_TYPES = dict(Number=parse_number, Word=parse_word, Bad=parse_bad_number,
                    NotImpl=parse_not_implemented, YesNo=parse_yesno)


def func_one(context, *args, **kwargs):
    pass


PARSE_PATTERNS = [
    u"a plain step",
    u"I have {count:d} apples",
    u"I have {count:d} apples and {other:d} pears",
    u"{name} likes {thing}",
    u"value {:w} then {:d}",
    u"mixed {:w} and {name} and {:d} and {x:f}",
    u"{x:f} is float",
    u"custom {n:Number} and {w:Word}",
    u"custom anon {:Number} {:Word} {:YesNo}",
    u"broken {n:Bad} here",
    u"notimpl {n:NotImpl} here",
    u"nested {a[b]} field {:d}",
    u"dotted {a.b} field",
    u"same {x} and {x}",
    u"pad {n:>d} end",
    u"",
    u"{}",
    u"{} {}",
    u"unicode äö {name} €",
]

CFPARSE_PATTERNS = [
    u"numbers {values:Number+} end",
    u"numbers0 {values:Number*} end",
    u"maybe {value:Number?} end",
    u"words {ws:Word+} and {n:Number}",
    u"anon many {:Number+} and {:Word?}x",
]

REGEX_PATTERNS = [
    u"a plain step",
    u"I have (\\d+) apples",
    u"I have (?P<count>\\d+) apples and (?P<other>\\d+) pears",
    u"(?P<name>\\w+) likes (.+)",
    u"optional( group)? here",
    u"optional named(?P<opt> group)? and (\\d+)?",
    u"nested ((a)(b)?) (?P<n>x(?P<m>y))",
    u"(?i)Case Insensitive (\\w+)",
    u"alt (a|b|) end",
    u"",
    u"()",
    u"unicode äö (\\w+) €",
]

REGEX0_PATTERNS = [
    u"^anchored (\\d+)$",
    u"prefix only (\\w+)",
    u"^(?P<a>\\w+) (?P<b>\\w+)",
    u"(?P<a>x)|(?P<b>y)",
]

BAD_REGEX_PATTERNS = [u"unbalanced (", u"bad (?P<1x>a)", u"*star"]


def instances_for(pattern):
    """Derive step texts: exact-ish instances and mutations."""
    base = [
        u"a plain step", u"A PLAIN STEP", u"a plain step ", u" a plain step",
        u"I have 3 apples", u"I have 03 apples", u"i have 3 apples",
        u"I have 3 apples!", u"Then I have 3 apples", u"I have x apples",
        u"I have -3 apples", u"I have 3 apples and 4 pears",
        u"I have 3 apples and 4 pears and more",
        u"Alice likes Bob", u"Alice likes Bob and Carol", u"alice LIKES bob",
        u"value abc then 12", u"value abc then xy", u"VALUE abc then 12",
        u"mixed one and two words and 3 and 4.5",
        u"mixed one and two and 3 and 4",
        u"3.25 is float", u"-0.5 is float", u"x is float", u"3.25 IS float",
        u"custom 12 and abc", u"custom 12 and 34", u"custom anon 1 b yes",
        u"custom anon 1 b maybe",
        u"broken 12 here", u"broken x here", u"notimpl 12 here",
        u"notimpl x here",
        u"nested q field 3", u"dotted q field", u"same a and a",
        u"same a and b", u"pad    12 end", u"", u" ", u"x", u"x y", u"x y z",
        u"unicode äö name €", u"unicode äö näme €",
        u"UNICODE ÄÖ name €",
        u"numbers 1, 2, 3 end", u"numbers 1 end", u"numbers  end",
        u"numbers0 1, 2 end", u"numbers0  end", u"numbers0 end",
        u"maybe 1 end", u"maybe  end", u"maybe end",
        u"words a, b, c and 2", u"words a and x",
        u"anon many 1, 2 and ax", u"anon many 1 and x",
        u"optional group here", u"optional here", u"OPTIONAL here",
        u"optional named group and 12", u"optional named and ",
        u"optional named and 7", u"nested ab xy", u"nested a xy",
        u"case insensitive Foo", u"Case Insensitive bar", u"alt a end",
        u"alt  end", u"alt c end",
        u"anchored 12", u"anchored 12 suffix", u"prefix only word + suffix",
        u"PREFIX only word", u"one two three", u"one", u"x", u"y", u"z",
    ]
    return base


def run_matcher_family(label, matcher_class, patterns, custom_types=None):
    emit("=" * 20, label)
    for pattern in patterns:
        emit("-- PATTERN %r" % pattern)
        try:
            if custom_types is not None:
                matcher = matcher_class(func_one, pattern, "given",
                                        custom_types=custom_types)
            else:
                matcher = matcher_class(func_one, pattern, "given")
        except BaseException as e:  # noqa
            emit("   CONSTRUCT RAISED", e.__class__.__name__ + ":", e)
            continue
        emit("   repr=%r describe=%s regex_pattern=%r" % (
            matcher, guarded("describe", matcher.describe),
            guarded("regex_pattern", lambda: matcher.regex_pattern)))
        compiled = guarded("   compile", matcher.compile)
        emit("   compile ->", "self" if compiled is matcher else repr(compiled))
        seen = 0
        texts = instances_for(pattern)
        if compiled is not matcher:
            texts = texts[:3]
        for text in texts:
            check = "?"
            try:
                check = describe_args(matcher.check_match(text))
            except BaseException as e:  # noqa
                check = "RAISED %s: %s" % (e.__class__.__name__, e)
            try:
                result = describe_match(matcher.match(text))
            except BaseException as e:  # noqa
                result = "RAISED %s: %s" % (e.__class__.__name__, e)
            try:
                matches = repr(matcher.matches(text))
            except BaseException as e:  # noqa
                matches = "RAISED %s: %s" % (e.__class__.__name__, e)
            if check == "None" and result == "NO-MATCH(None)" and matches == "None":
                continue
            seen += 1
            emit("   TEXT %r" % text)
            emit("      check_match:", check)
            emit("      match:", result)
            emit("      matches:", matches)
        emit("   interesting texts:", seen)


def section_matchers():
    run_matcher_family("ParseMatcher", ParseMatcher, PARSE_PATTERNS, CUSTOM_TYPES)
    run_matcher_family("CFParseMatcher", CFParseMatcher,
                       PARSE_PATTERNS[:9] + CFPARSE_PATTERNS, CUSTOM_TYPES)
    run_matcher_family("SimplifiedRegexMatcher", SimplifiedRegexMatcher,
                       REGEX_PATTERNS + BAD_REGEX_PATTERNS + [u"^bad", u"bad$"])
    run_matcher_family("CucumberRegexMatcher", CucumberRegexMatcher,
                       REGEX_PATTERNS + REGEX0_PATTERNS + BAD_REGEX_PATTERNS)
    run_matcher_family("RegexMatcher", RegexMatcher, REGEX0_PATTERNS)

    # -- ABSTRACT BASE + custom subclasses of Matcher.
    emit("=" * 20, "Matcher base / custom subclasses")
    base = Matcher(func_one, u"abstract", None)
    emit("base.step_type", base.step_type)
    guarded("base.match", base.match, u"abstract")
    guarded("base.match other", base.match, u"other")
    emit("base.matches same", guarded("base.matches", base.matches, u"abstract"))
    guarded("base.matches other", base.matches, u"other")
    guarded("base.compile", base.compile)

    class WeirdMatcher(Matcher):
        RESULTS = {}

        def check_match(self, step_text):
            value = self.RESULTS[step_text]
            if isinstance(value, BaseException):
                raise value
            return value

    WeirdMatcher.RESULTS = {
        u"empty": [], u"none": None, u"zero": 0, u"tuple": (),
        u"kbd": KeyError("kbd"), u"nie": NotImplementedError("nie"),
        u"stop": StopIteration("stop"), u"val": ValueError("val"),
        u"type": TypeError("type"),
    }
    weird = WeirdMatcher(func_one, u"weird", "when")
    for text in [u"empty", u"none", u"zero", u"tuple", u"kbd", u"nie", u"stop",
                 u"val", u"type", u"missing", u"weird"]:
        result = guarded("weird.match %s" % text, weird.match, text)
        emit("weird.match", text, "->", describe_match(result))
        emit("weird.matches", text, "->",
             repr(guarded("weird.matches %s" % text, weird.matches, text)))

    class OverriddenMatch(Matcher):
        def match(self, step_text):
            return {u"a": 0, u"b": "", u"c": "text", u"d": NoMatch(),
                    u"e": MatchWithError(func_one, ValueError("e")),
                    u"f": False, u"g": [], u"h": Match(func_one, [])}.get(step_text)

    om = OverriddenMatch(func_one, u"om")
    for text in u"a b c d e f g h i om".split():
        emit("overridden.matches", text, "->", repr(om.matches(text)))


# ---------------------------------------------------------------------------
# SECTION 2: Match.run -- arguments received by step function
# ---------------------------------------------------------------------------
class FakeContext(object):
    def __init__(self, log):
        self.log = log

    @contextlib.contextmanager
    def use_with_user_mode(self):
        self.log.append("enter-user-mode")
        try:
            yield self
        finally:
            self.log.append("exit-user-mode")


def section_run():
    emit("=" * 20, "Match.run")
    log = []

    def recorder(context, *args, **kwargs):
        log.append(("call", args, sorted(kwargs.items())))

    def raiser(context, *args, **kwargs):
        log.append(("raiser", args, sorted(kwargs.items())))
        raise RuntimeError("step failed")

    def strict(context, count, other):
        log.append(("strict", count, other))

    cases = [
        (ParseMatcher, u"I have {count:d} apples and {other:d} pears",
         u"I have 3 apples and 4 pears"),
        (ParseMatcher, u"mixed {:w} and {name} and {:d} and {x:f}",
         u"mixed one and two words and 3 and 4.5"),
        (ParseMatcher, u"value {:w} then {:d}", u"value abc then 12"),
        (ParseMatcher, u"a plain step", u"a plain step"),
        (ParseMatcher, u"same {x} and {x}", u"same a and a"),
        (CFParseMatcher, u"words {ws:Word+} and {n:Number}", u"words a, b, c and 2"),
        (CFParseMatcher, u"anon many {:Number+} and {:Word?}x", u"anon many 1, 2 and ax"),
        (SimplifiedRegexMatcher, u"(?P<name>\\w+) likes (.+)", u"Alice likes Bob"),
        (SimplifiedRegexMatcher, u"optional named(?P<opt> group)? and (\\d+)?",
         u"optional named and 7"),
        (SimplifiedRegexMatcher, u"nested ((a)(b)?) (?P<n>x(?P<m>y))", u"nested a xy"),
        (CucumberRegexMatcher, u"(?P<a>x)|(?P<b>y)", u"y"),
    ]
    for func in (recorder, raiser, strict):
        for matcher_class, pattern, text in cases:
            del log[:]
            if issubclass(matcher_class, ParseMatcher):
                matcher = matcher_class(func, pattern, "step", custom_types=CUSTOM_TYPES)
            else:
                matcher = matcher_class(func, pattern, "step")
            match = matcher.match(text)
            emit("RUN", func.__name__, repr(pattern), repr(text))
            emit("   match:", describe_match(match))
            guarded("   run", match.run, FakeContext(log))
            emit("   log:", log)

    # -- SPECIAL: hand-made argument lists
    from behave.model_core import Argument
    del log[:]
    match = Match(recorder, [Argument(0, 1, "a", 1, "x"), Argument(2, 3, "b", 2),
                             Argument(4, 5, "c", 3, "x"), Argument(6, 7, "d", 4, "")])
    guarded("run dup-names", match.run, FakeContext(log))
    emit("   log:", log)
    del log[:]
    guarded("run arguments=None", Match(recorder).run, FakeContext(log))
    emit("   log:", log)
    del log[:]
    guarded("run NoMatch", NoMatch().run, FakeContext(log))
    emit("   log:", log)
    del log[:]
    mwe = MatchWithError(recorder, ValueError("conversion"))
    guarded("run MatchWithError", mwe.run, FakeContext(log))
    emit("   log:", log)
    copied = Match(recorder, []).with_arguments([Argument(0, 1, "z", "Z", "zed")])
    del log[:]
    guarded("run with_arguments", copied.run, FakeContext(log))
    emit("   log:", log, repr(copied) == repr(Match(recorder)), copied == Match(recorder))


# ---------------------------------------------------------------------------
# SECTION 3: registration histories and lookups
# ---------------------------------------------------------------------------
def make_func(name):
    def step_func(context, *args, **kwargs):
        pass
    step_func.__name__ = name
    return step_func


def lookup_all(registry, texts):
    for step_type in ("given", "when", "then", "step"):
        for text in texts:
            step = Step("x.feature", 1, step_type.title(), step_type, text)
            try:
                found = describe_match(registry.find_match(step))
            except BaseException as e:  # noqa
                found = "RAISED %s: %s" % (e.__class__.__name__, e)
            try:
                definition = registry.find_step_definition(step)
                definition = (None if definition is None else
                              definition.describe() + "/" + definition.func.__name__)
            except BaseException as e:  # noqa
                definition = "RAISED %s: %s" % (e.__class__.__name__, e)
            emit("   LOOKUP %-5s %r -> %s || %s" % (step_type, text, found, definition))


def dump_registry(registry):
    for step_type in ("given", "when", "then", "step"):
        emit("   STEPS[%s] = %s" % (step_type, [
            "%s:%s:%s" % (m.__class__.__name__, m.pattern, m.func.__name__)
            for m in registry.steps[step_type]]))


def section_registry():
    emit("=" * 20, "StepRegistry histories")
    factory = get_step_matcher_factory()
    factory.reset()
    factory.register_type(Number=parse_number, Word=parse_word, Bad=parse_bad_number,
                          NotImpl=parse_not_implemented)
    shared = make_func("shared")
    histories = {
        "H1-precedence": [
            ("step", u"I have {count:d} apples", make_func("generic_first")),
            ("given", u"I have {count:d} apples", make_func("given_typed")),
            ("given", u"I have many apples", make_func("given_literal")),
            ("given", u"I have {count} apples", make_func("given_untyped")),
            ("when", u"I have {count} apples", make_func("when_untyped")),
            ("when", u"I have {count:d} apples", make_func("when_typed_later")),
            ("Then", u"I HAVE {count:d} apples", make_func("then_upper")),
            ("STEP", u"I have {count:d} apples", make_func("generic_dup")),
            ("step", u"{anything}", make_func("generic_catchall")),
            ("then", u"{anything}", make_func("then_catchall")),
        ],
        "H2-matcher-switches": [
            ("use", "re"),
            ("given", u"I have (\\d+) apples", make_func("re_given")),
            ("given", u"I have (?P<n>\\d+) apples", make_func("re_given_named")),
            ("step", u"(?P<who>\\w+) likes (?P<what>.+)", make_func("re_generic")),
            ("use", "parse"),
            ("given", u"I have {n:d} apples", make_func("parse_given")),
            ("when", u"{who} likes {what}", make_func("parse_when")),
            ("use", "cfparse"),
            ("then", u"numbers {values:Number+} end", make_func("cf_then")),
            ("then", u"numbers 1, 2 end", make_func("cf_then_literal")),
            ("use", "re0"),
            ("when", u"prefix (\\w+)", make_func("re0_when")),
            ("when", u"prefix word and more", make_func("re0_when_amb")),
            ("use", "nosuch"),
            ("default", None),
            ("given", u"I have {n:d} apples", make_func("parse_given_again")),
            ("default", "re"),
            ("then", u"a (plain) step", make_func("re_default_then")),
            ("use", "parse"),
            ("default", None),
            ("then", u"a (plain) step", make_func("re_default_then2")),
            ("then", u"a plain step", make_func("re_default_then3")),
        ],
        "H3-same-and-bad": [
            ("given", u"shared {x:d} step", shared),
            ("given", u"shared {x:d} step", shared),
            ("when", u"shared {x:d} step", shared),
            ("given", u"shared {y:d} step", shared),
            ("given", u"shared 12 step", shared),
            ("given", u"broken {n:Bad} here", make_func("with_bad_converter")),
            ("given", u"broken 12 here", make_func("bad_literal")),
            ("given", u"notimpl {n:NotImpl} here", make_func("with_notimpl")),
            ("given", u"notimpl 12 here", make_func("notimpl_literal")),
            ("given", u"unknown {n:NoSuchType} type", make_func("unknown_type")),
            ("use", "re"),
            ("given", u"unbalanced (", make_func("bad_regex")),
            ("given", u"^anchored$", make_func("anchored_regex")),
            ("given", u"shared (\\d+) step", make_func("re_shared")),
            ("step", u"shared (\\d+) step", make_func("re_shared_generic")),
            ("step", b"bytes pattern (x)", make_func("bytes_pattern")),
            ("step", u"bytes pattern (x)", make_func("bytes_pattern_dup")),
        ],
    }
    texts = [
        u"I have 3 apples", u"I have many apples", u"I HAVE 3 apples",
        u"i have 3 apples", u"I have 3 apples ", u"Alice likes Bob",
        u"numbers 1, 2 end", u"prefix word and more", u"a plain step",
        u"shared 12 step", u"shared x step", u"broken 12 here",
        u"notimpl 12 here", u"bytes pattern x", u"", u"unmatched text",
    ]
    for name in sorted(histories):
        emit("-- HISTORY", name)
        registry = StepRegistry()
        errors = io.StringIO()
        registry.error_handler.file = errors
        factory.use_default_step_matcher("parse")
        for index, entry in enumerate(histories[name]):
            if entry[0] == "use":
                result = guarded("   [%d] use_step_matcher %s" % (index, entry[1]),
                                 factory.use_step_matcher, entry[1])
                emit("   [%d] use_step_matcher %s -> %s current=%s default=%s" % (
                    index, entry[1], getattr(result, "__name__", result),
                    factory.current_matcher.__name__, factory.default_matcher.__name__))
                continue
            if entry[0] == "default":
                result = guarded("   [%d] use_default %s" % (index, entry[1]),
                                 factory.use_default_step_matcher, entry[1])
                emit("   [%d] use_default_step_matcher %s -> %s current=%s default=%s/%s" % (
                    index, entry[1], getattr(result, "__name__", result),
                    factory.current_matcher.__name__, factory.default_matcher.__name__,
                    factory.default_matcher_name))
                continue
            keyword, pattern, func = entry
            try:
                registry.add_step_definition(keyword, pattern, func)
                outcome = "ok"
            except AmbiguousStep as e:
                outcome = "AmbiguousStep: %s" % e
            except BaseException as e:  # noqa
                outcome = "RAISED %s: %s" % (e.__class__.__name__, e)
            emit("   [%d] add %s %r %s -> %s" % (index, keyword, pattern,
                                                func.__name__, outcome))
        dump_registry(registry)
        emit("   ERROR-HANDLER OUTPUT:")
        for line in errors.getvalue().splitlines():
            emit("      |", line)
        emit("   BAD:", [m.pattern for m in registry.error_handler.bad_step_definitions])
        lookup_all(registry, texts)

        # -- DECORATORS
        given = registry.make_decorator("given")
        step_decorator = registry.make_decorator("step")
        factory.use_default_step_matcher("parse")
        func = make_func("decorated")
        emit("   decorator returns func:", given(u"decorated {x:d}")(func) is func)
        emit("   decorator again same func:", given(u"decorated {x:d}")(func) is func)
        guarded("   decorator ambiguous", given(u"decorated 12"), make_func("other"))
        guarded("   decorator generic ok", step_decorator(u"decorated 12"), make_func("other2"))
        dump_registry(registry)

        # -- RAISE_ERROR_ON_BAD_STEP_DEFINITION
        class StrictRegistry(StepRegistry):
            RAISE_ERROR_ON_BAD_STEP_DEFINITION = True
        strict = StrictRegistry()
        factory.use_step_matcher("re")
        stdout = sys.stdout
        sys.stdout = captured = io.StringIO()
        try:
            outcome = "ok"
            try:
                strict.add_step_definition("given", u"unbalanced (", make_func("bad_regex"))
            except BaseException as e:  # noqa
                outcome = "RAISED %s: %s" % (e.__class__.__name__, e)
        finally:
            sys.stdout = stdout
        emit("   strict add ->", outcome)
        for line in captured.getvalue().splitlines():
            emit("      |", line)
        registry.clear()
        dump_registry(registry)
    factory.reset()


# ---------------------------------------------------------------------------
# SECTION 4: end-to-end via "python -m behave" (load_step_modules, dispatch)
# ---------------------------------------------------------------------------
FEATURE = u"""\
Feature: Dispatch
  Scenario: S1
    Given I have 3 apples
    When I have 4 apples
    Then I have 5 apples
    And Alice likes Bob
    But alice LIKES bob
  Scenario: S2
    Given numbers 1, 2, 3 end
    When value abc then 12
    Then an undefined step
    And I have 9 apples
  Scenario: S4
    Given regex 12 opt and 7
    When regex 12 and 7
"""

FEATURE2 = u"""\
Feature: Conversion errors
  Scenario: S3
    Given broken 12 here
    Then I have 1 apples
  Scenario: S5
    Given I have 2 apples
    When broken 12 here
"""

STEPS_A = u"""\
from __future__ import print_function
from behave import given, when, then, step, register_type, use_step_matcher
import parse

@parse.with_pattern(r"\\d+")
def parse_number(text):
    return int(text)

@parse.with_pattern(r"\\d+")
def parse_bad(text):
    raise ValueError("bad number: %s" % text)

register_type(Number=parse_number, Bad=parse_bad)

@step(u'I have {count:d} apples')
def generic_apples(ctx, count):
    print("CALL generic_apples %r" % (count,))

@when(u'I have {count} apples')
def when_apples(ctx, count):
    print("CALL when_apples %r" % (count,))

@step(u'{who} likes {what}')
def likes(ctx, who, what):
    print("CALL likes %r %r" % (who, what))

@given(u'broken {n:Bad} here')
def broken(ctx, n):
    print("CALL broken %r" % (n,))

@when(u'value {:w} then {:d}')
def value_then(ctx, *args, **kwargs):
    print("CALL value_then %r %r" % (args, kwargs))

use_step_matcher("cfparse")

@given(u'numbers {values:Number+} end')
def numbers(ctx, values):
    print("CALL numbers %r" % (values,))

use_step_matcher("re")

@step(u'regex (?P<a>\\\\d+)( opt)? and (\\\\d+)')
def regex_step(ctx, *args, **kwargs):
    print("CALL regex_step %r %r" % (args, sorted(kwargs.items())))
"""

STEPS_B = u"""\
from __future__ import print_function
from behave import given, when, then, step
from behave.step_registry import AmbiguousStep

# -- MATCHER must be reset to default (parse) after steps_a.py
@then(u'I have {count:d} apples')
def then_apples(ctx, count):
    print("CALL then_apples %r" % (count,))

try:
    @then(u'I have 5 apples')
    def then_five(ctx):
        pass
except AmbiguousStep as e:
    print("AMBIGUOUS: %s" % e)
"""


def section_behave_subprocess():
    emit("=" * 20, "python -m behave")
    workdir = tempfile.mkdtemp(prefix="c11twin")
    try:
        os.makedirs(os.path.join(workdir, "features", "steps"))
        with io.open(os.path.join(workdir, "features", "d.feature"), "w",
                     encoding="utf-8") as f:
            f.write(FEATURE)
        with io.open(os.path.join(workdir, "features", "e.feature"), "w",
                     encoding="utf-8") as f:
            f.write(FEATURE2)
        with io.open(os.path.join(workdir, "features", "steps", "steps_a.py"),
                     "w", encoding="utf-8") as f:
            f.write(STEPS_A)
        with io.open(os.path.join(workdir, "features", "steps", "steps_b.py"),
                     "w", encoding="utf-8") as f:
            f.write(STEPS_B)
        env = dict(os.environ)
        env["PYTHONPATH"] = "/tmp/wtW/C11"
        env["PYTHONDONTWRITEBYTECODE"] = "1"
        common = ["--no-timings", "--no-color"]
        for args in (["-f", "plain", "--no-capture"] + common,
                     ["-f", "pretty", "--no-capture", "features/d.feature"] + common,
                     ["-f", "steps.usage", "--dry-run"] + common,
                     ["-f", "json", "features/d.feature"] + common,
                     ["-f", "progress3", "--no-capture", "features/d.feature"] + common):
            proc = subprocess.Popen([sys.executable, "-m", "behave"] + args,
                                    cwd=workdir, env=env, stdout=subprocess.PIPE,
                                    stderr=subprocess.STDOUT)
            output = proc.communicate()[0].decode("utf-8", "replace")
            emit("-- behave", " ".join(args), "exit:", proc.returncode)
            skipping = False
            for line in output.splitlines():
                if line.startswith("Took ") or '"duration"' in line:
                    continue
                if skipping and line.startswith("    "):
                    # -- TRACEBACK: source-text/caret lines of a frame.
                    continue
                skipping = False
                line = line.replace(workdir, "<WORKDIR>")
                if line.startswith("  File \"") and ", line " in line:
                    # -- TRACEBACK FRAME: keep file and function, drop line-no.
                    head, _, tail = line.partition(", line ")
                    _, sep, func_name = tail.partition(", in ")
                    line = head + sep + func_name
                    skipping = True
                emit("   |", line)
    finally:
        shutil.rmtree(workdir, ignore_errors=True)


if __name__ == "__main__":
    section_matchers()
    section_run()
    section_registry()
    section_behave_subprocess()
    emit("DONE")
