# -*- coding: UTF-8 -*-
"""
Equivalence transcript for the Gherkin parser (property C05).

Feeds a large deterministic corpus (hand-written sad/happy cases, random line
soups in several languages, all single-line mutations of valid documents)
through every public entry point of behave.parser and prints, for each input,
either a canonical dump of the returned model (plus final parser state where
reachable) or the exception type, message, .line, .filename, .line_text.
Logging output of the "behave" logger is part of the transcript, too.
"""
from __future__ import print_function, unicode_literals
import sys
sys.path.insert(0, "/tmp/wtW/C05")

import hashlib
import logging
import random

from behave import parser as P
from behave import model
from behave import i18n

assert P.__file__.startswith("/tmp/wtW/C05/"), P.__file__


# ---------------------------------------------------------------------------
# LOG CAPTURE
# ---------------------------------------------------------------------------
class ListHandler(logging.Handler):
    def __init__(self):
        logging.Handler.__init__(self)
        self.records = []

    def emit(self, record):
        self.records.append("%s:%s" % (record.levelname, record.getMessage()))


LOG = ListHandler()
_logger = logging.getLogger("behave")
_logger.addHandler(LOG)
_logger.setLevel(logging.DEBUG)
_logger.propagate = False


# ---------------------------------------------------------------------------
# CANONICAL DUMPS
# ---------------------------------------------------------------------------
def dump_table(table):
    if table is None:
        return None
    return {"line": table.line, "headings": list(table.headings),
            "rows": [(row.line, list(row.cells)) for row in table.rows]}


def dump_tags(tags):
    return [(type(t).__name__, "%s" % t, getattr(t, "line", None)) for t in tags]


def dump_step(step):
    text = step.text
    if text is not None:
        text = ("%s" % text, getattr(text, "content_type", None),
                getattr(text, "line", None))
    return {"kw": step.keyword, "type": step.step_type, "name": step.name,
            "line": step.line, "file": step.filename, "text": text,
            "table": dump_table(step.table)}


def dump_background(bg):
    if bg is None:
        return None
    return {"kw": bg.keyword, "name": bg.name, "line": bg.line,
            "desc": list(bg.description),
            "steps": [dump_step(s) for s in bg.steps],
            "inherited": [dump_step(s) for s in bg.inherited_steps]}


def dump_scenario(sc):
    if sc is None:
        return None
    data = {"class": type(sc).__name__, "kw": sc.keyword, "name": sc.name,
            "line": sc.line, "file": sc.filename, "tags": dump_tags(sc.tags),
            "desc": list(sc.description),
            "steps": [dump_step(s) for s in sc.steps]}
    if isinstance(sc, model.ScenarioOutline):
        data["examples"] = [
            {"kw": e.keyword, "name": e.name, "line": e.line,
             "tags": dump_tags(e.tags), "table": dump_table(e.table)}
            for e in sc.examples]
    return data


def dump_rule(rule):
    if rule is None:
        return None
    if not isinstance(rule, model.Rule):
        return ("NOT-A-RULE", dump_any(rule))
    return {"class": "Rule", "kw": rule.keyword, "name": rule.name,
            "line": rule.line, "tags": dump_tags(rule.tags),
            "desc": list(rule.description),
            "background": dump_background(rule.background),
            "scenarios": [dump_scenario(s) for s in rule.scenarios]}


def dump_feature(feature):
    if feature is None:
        return None
    return {"class": "Feature", "kw": feature.keyword, "name": feature.name,
            "line": feature.line, "file": feature.filename,
            "language": feature.language, "tags": dump_tags(feature.tags),
            "desc": list(feature.description),
            "background": dump_background(feature.background),
            "scenarios": [dump_scenario(s) for s in feature.scenarios],
            "rules": [dump_rule(r) for r in feature.rules],
            "run_items": [type(x).__name__ for x in feature.run_items]}


def dump_any(obj):
    if obj is None:
        return None
    if isinstance(obj, model.Feature):
        return dump_feature(obj)
    if isinstance(obj, model.Rule):
        return dump_rule(obj)
    if isinstance(obj, model.Background):
        return dump_background(obj)
    if isinstance(obj, (model.Scenario, model.ScenarioOutline)):
        return dump_scenario(obj)
    if isinstance(obj, model.Step):
        return dump_step(obj)
    if isinstance(obj, (list, tuple)):
        return [dump_any(x) for x in obj]
    if isinstance(obj, model.Tag):
        return dump_tags([obj])[0]
    return repr(obj)


def dump_parser_state(parser):
    return {"state": parser.state.name, "line": parser.line,
            "language": parser.language, "variant": parser.variant,
            "last_step_type": parser.last_step_type,
            "tags": dump_tags(parser.tags), "lines": list(parser.lines),
            "table": dump_table(parser.table),
            "examples": parser.examples is not None,
            "has_feature": parser.feature is not None,
            "has_rule": parser.rule is not None,
            "statement": type(parser.statement).__name__,
            "container": type(parser.scenario_container).__name__,
            "ml": (parser.multiline_start, parser.multiline_leading,
                   parser.multiline_terminator),
            "filename": parser.filename,
            "kw_is_lang": [k for k, v in sorted(i18n.languages.items())
                           if v is parser.keywords]}


def canon(obj):
    """Deterministic text form (dict keys sorted)."""
    if isinstance(obj, dict):
        return "{%s}" % ", ".join("%s: %s" % (k, canon(obj[k]))
                                  for k in sorted(obj))
    if isinstance(obj, (list, tuple)):
        return "[%s]" % ", ".join(canon(x) for x in obj)
    return repr(obj)


def dump_exception(e):
    data = {"type": type(e).__name__, "str": "%s" % e,
            "args": [repr(a) for a in e.args]}
    for name in ("line", "filename", "line_text"):
        if hasattr(e, name):
            data[name] = repr(getattr(e, name))
    return data


# ---------------------------------------------------------------------------
# ENTRY POINTS
# ---------------------------------------------------------------------------
def ep_feature(text, language, filename):
    feature = P.parse_feature(text, language, filename)
    result = {"model": dump_feature(feature)}
    if feature is not None:
        result["parser"] = dump_parser_state(feature.parser)
    return result


def ep_parser_parse(text, language, filename):
    parser = P.Parser(language)
    try:
        feature = parser.parse(text, filename)
    except Exception as e:    # noqa
        return {"raised": dump_exception(e), "parser": dump_parser_state(parser)}
    return {"model": dump_feature(feature), "parser": dump_parser_state(parser)}


def ep_rule(text, language, filename):
    return {"model": dump_rule(P.parse_rule(text, language, filename))}


def ep_scenario(text, language, filename):
    return {"model": dump_any(P.parse_scenario(text, language, filename))}


def ep_steps(text, language, filename):
    return {"model": dump_any(P.parse_steps(text, language, filename))}


def ep_step(text, language, filename):
    return {"model": dump_any(P.parse_step(text, language, filename))}


def ep_tags(text, language, filename):
    return {"model": dump_any(P.parse_tags(text))}


def ep_parser_methods(text, language, filename):
    """Parser object methods, with final parser state (also on failure)."""
    out = []
    for variant, meth in (("rule", "parse_rule"), ("scenario", "parse_scenario"),
                          ("steps", "parse_steps")):
        parser = P.Parser(language, variant=variant)
        try:
            res = {"model": dump_any(getattr(parser, meth)(text, filename))}
        except Exception as e:    # noqa
            res = {"raised": dump_exception(e)}
        res["parser"] = dump_parser_state(parser)
        out.append((meth, res))
    return {"model": out}


ENTRY_POINTS = [
    ("feature", ep_feature), ("Parser.parse", ep_parser_parse),
    ("rule", ep_rule), ("scenario", ep_scenario), ("steps", ep_steps),
    ("step", ep_step), ("tags", ep_tags), ("Parser.methods", ep_parser_methods),
]

TRANSCRIPT = []
COUNTS = {}


def emit(line):
    TRANSCRIPT.append(line)


def observe(label, text, language=None, filename=None, entry_points=None,
            verbose=True):
    for ep_name, ep in (entry_points or ENTRY_POINTS):
        del LOG.records[:]
        try:
            outcome = ep(text, language, filename)
        except Exception as e:    # noqa
            outcome = {"raised": dump_exception(e)}
            key = (ep_name, type(e).__name__)
        else:
            key = (ep_name, "ok")
        COUNTS[key] = COUNTS.get(key, 0) + 1
        outcome["log"] = list(LOG.records)
        rendered = canon(outcome)
        if not verbose:
            # -- COMPACT: outcome kind + digest (full text is hashed).
            kind = outcome.get("raised", {}).get("type", "ok")
            line = outcome.get("raised", {}).get("line", "-")
            rendered = "%s line=%s sha=%s" % (
                kind, line,
                hashlib.sha1(rendered.encode("utf-8")).hexdigest()[:16])
        emit("%s | %s | lang=%s file=%s | %s" %
             (label, ep_name, language, filename, rendered))


# ---------------------------------------------------------------------------
# CORPUS
# ---------------------------------------------------------------------------
VALID_EN = u"""\
# a comment
@f1 @f2   # trailing comment
@f3
Feature: Alpha
  Feature description line 1
  description line 2

  Background: Common
    Background description
    Given a base step
    And another base step

  @s1
  Scenario: First
    Scenario description
    Given a step
      | name | value |
      | a    | 1     |
      | b\\|c | 2     |
    When an action:
      \"\"\"
      some text
        indented text

      trailing
      \"\"\"
    Then a result
    But not that
    * generic

  @o1 @o2
  Scenario Outline: Second <x>
    Given a <x> step
    Then <y>

    @e1
    Examples: E1
      | x | y |
      | 1 | 2 |
      | 3 | 4 |

    Examples:
      | x | y |

  Rule: R1
    rule description

    Background: RB
      When rule base

    @rs
    Example: In rule
      And inherits type
      '''
      single quoted
      '''

    Scenario Template: T
      Given <a>
      Examples: Z
        | a |
        | q |

  @rt
  Rule: R2
    Scenario: Empty
"""

VALID_DE = u"""\
# language: de
@de
Funktionalität: Beispiel
  Beschreibung

  Grundlage:
    Angenommen ein Schritt

  Szenario: Eins
    Wenn etwas passiert
    Dann ein Ergebnis
    Und noch eins
      | a | b |
      | 1 | 2 |

  Szenariogrundriss: Zwei
    Gegeben sei <x>
    Beispiele:
      | x |
      | 1 |

  Regel: R
    Beispiel: Drei
      * generisch
"""

VALID_FR = u"""\
#language: fr
Fonctionnalité: Exemple
  Contexte:
    Soit un pas
  Scénario: Un
    Quand quelque chose
    Alors un résultat
    Et encore
    Mais pas ça
  Plan du scénario: Deux
    Etant donné <x>
    Exemples:
      | x |
      | 1 |
"""

VALID_JA = u"""\
# language: ja
フィーチャ: 例
  背景:
    前提何か
  シナリオ: 一
    もし何か
    ならば結果
    かつもう一つ
"""

VALID_RULE = u"""\
@r1
Rule: Only rule
  description
  Background:
    Given rb
  Scenario: S
    And x
  Scenario Outline: O
    Given <a>
    Examples:
      | a |
      | 1 |
"""

VALID_SCENARIO = u"""\
@t1 @t2
Scenario: Lonely
  description here
  Given one
  When two
    | h |
    | 1 |
  Then three
    \"\"\"
    doc
    \"\"\"
"""

VALID_OUTLINE = u"""\
Scenario Outline: Lonely outline
  Given <v>
  @ex
  Examples: first
    | v |
    | 1 |
"""

VALID_STEPS = u"""\
Given one
  | h1 | h2 |
  | 1  | 2  |
When two:
  \"\"\"
  text
  \"\"\"
Then three
And four
But five
* six
"""

VALID_TAGS = u"@a @b  @c.d=e # comment @x\n@f\n"

HAND_CASES = [
    ("empty", u""),
    ("blank", u"\n\n   \n"),
    ("comment-only", u"# only\n# language: en\n"),
    ("lang-unknown", u"# language: xx\nFeature: F\n"),
    ("lang-upper", u"#  LANGUAGE:  de \nFunktion: F\n"),
    ("lang-after-tag", u"@t\n# language: de\nFeature: F\n"),
    ("lang-late", u"Feature: F\n# language: de\n  Scenario: S\n"),
    ("lang-twice", u"# language: de\n# language: fr\nFonctionnalité: F\n"),
    ("lang-empty", u"# language:\nFeature: F\n"),
    ("no-feature", u"hello world\n"),
    ("two-features", u"Feature: A\nFeature: B\n"),
    ("two-features-2", u"Feature: A\n  Scenario: S\n    Given x\nFeature: B\n"),
    ("rule-first", u"Rule: R\n"),
    ("tag-rule-first", u"@x\nRule: R\n"),
    ("scenario-first", u"Scenario: S\n  Given x\n"),
    ("outline-first", u"Scenario Outline: S\n  Given x\n"),
    ("background-first", u"Background: B\n"),
    ("examples-first", u"Examples: E\n | a |\n"),
    ("step-first", u"Given x\n"),
    ("table-first", u"| a | b |\n"),
    ("docstring-first", u'"""\ntext\n"""\n'),
    ("tag-then-junk", u"@a\njunk\n"),
    ("tag-then-bg", u"Feature: F\n@a\nBackground: B\n"),
    ("tag-then-step", u"Feature: F\n Scenario: S\n  Given x\n  @a\n  Given y\n"),
    ("bad-tag", u"@a b @c\nFeature: F\n"),
    ("bad-tag-2", u"Feature: F\n  @a,@b x\n  Scenario: S\n"),
    ("bad-tag-3", u"Feature: F\n Scenario: S\n  Given x\n  @ok nope\n"),
    ("tag-comment", u"@a #b c\nFeature: F\n"),
    ("tag-only-at", u"@ @@ @#x\nFeature: F\n"),
    ("bg-tags", u"Feature: F\n@x @y\nBackground: B\n"),
    ("bg-second", u"Feature: F\n Background: A\n  Given x\n Background: B\n"),
    ("bg-second-nosteps", u"Feature: F\n Background: A\n Background: B\n  Given x\n Background: C\n"),
    ("bg-after-scenario", u"Feature: F\n Scenario: S\n  Given x\n Background: B\n"),
    ("bg-after-scenario-desc", u"Feature: F\n Scenario: S\n Background: B\n"),
    ("bg-tag-after-steps", u"Feature: F\n Scenario: S\n  Given x\n @t\n Background: B\n"),
    ("rule-bg-second", u"Feature: F\n Rule: R\n  Background: A\n   Given x\n  Background: B\n"),
    ("rule-inherit-bg", u"Feature: F\n Background: A\n  When x\n Rule: R\n  Scenario: S\n   And y\n"),
    ("rule-bg-empty-inherit", u"Feature: F\n Background: A\n  When x\n Rule: R\n  Background: RB\n  Scenario: S\n   And y\n"),
    ("and-first", u"Feature: F\n Scenario: S\n  And y\n"),
    ("but-first", u"Feature: F\n Scenario: S\n  But y\n"),
    ("star-first", u"Feature: F\n Scenario: S\n  * y\n  And z\n"),
    ("and-after-bg", u"Feature: F\n Background: B\n  Then b\n Scenario: S\n  And y\n  * z\n"),
    ("and-in-bg-first", u"Feature: F\n Background: B\n  And b\n"),
    ("and-second-scenario", u"Feature: F\n Scenario: S\n  Given x\n Scenario: T\n  And y\n"),
    ("lower-keywords", u"Feature: F\n Scenario: S\n  given x\n  WHEN y\n  tHen z\n  and w\n"),
    ("examples-in-scenario", u"Feature: F\n Scenario: S\n  Given x\n  Examples: E\n   | a |\n"),
    ("examples-in-feature", u"Feature: F\n Examples: E\n"),
    ("examples-in-bg", u"Feature: F\n Background: B\n  Given x\n  Examples: E\n"),
    ("examples-in-rule", u"Feature: F\n Rule: R\n  Examples: E\n"),
    ("examples-tagged-outside", u"Feature: F\n Scenario: S\n  Given x\n  @t\n  Examples: E\n"),
    ("examples-empty", u"Feature: F\n Scenario Outline: S\n  Given x\n  Examples: E\n"),
    ("examples-junk", u"Feature: F\n Scenario Outline: S\n  Given x\n  Examples: E\n  junk\n"),
    ("examples-then-scenario", u"Feature: F\n Scenario Outline: S\n  Given x\n  Examples: E\n Scenario: T\n"),
    ("table-wrong-cells", u"Feature: F\n Scenario: S\n  Given x\n   | a | b |\n   | 1 |\n"),
    ("table-wrong-cells-2", u"Feature: F\n Scenario: S\n  Given x\n   | a |\n   | 1 | 2 |\n   | 3 |\n"),
    ("table-malformed-row", u"Feature: F\n Scenario: S\n  Given x\n   | a | b\n   | 1 | 2 |\n"),
    ("table-malformed-row-2", u"Feature: F\n Scenario: S\n  Given x\n   | a | b |\n   | 1 | 2\n"),
    ("table-single-pipe", u"Feature: F\n Scenario: S\n  Given x\n   |\n   |\n"),
    ("table-escaped", u"Feature: F\n Scenario: S\n  Given x\n   | a\\|b | \\\\|c |\n   | \\| | x |\n"),
    ("table-before-step", u"Feature: F\n Scenario: S\n   | a |\n"),
    ("table-before-step-2", u"Feature: F\n Scenario Outline: S\n  Given x\n  Examples:\n   | a |\n  junk | x |\n   | b |\n"),
    ("table-after-examples-end", u"Feature: F\n Scenario Outline: S\n  Given x\n  Examples:\n   | a |\n  @t\n   | b |\n"),
    ("table-then-junk", u"Feature: F\n Scenario: S\n  Given x\n   | a |\n  junk\n"),
    ("table-then-docstring", u"Feature: F\n Scenario: S\n  Given x\n   | a |\n   \"\"\"\n   t\n   \"\"\"\n"),
    ("table-then-table-eof", u"Feature: F\n Scenario: S\n  Given x\n   | a |"),
    ("table-comment-inside", u"Feature: F\n Scenario: S\n  Given x\n   | a |\n   # c\n   | 1 |\n"),
    ("table-blank-inside", u"Feature: F\n Scenario: S\n  Given x\n   | a |\n\n   | 1 |\n  Then y\n"),
    ("docstring-before-step", u"Feature: F\n Scenario: S\n   \"\"\"\n   t\n   \"\"\"\n"),
    ("docstring-unterminated", u"Feature: F\n Scenario: S\n  Given x\n   \"\"\"\n   t\n"),
    ("docstring-mismatch", u"Feature: F\n Scenario: S\n  Given x\n   \"\"\"\n   t\n   '''\n   \"\"\"\n"),
    ("docstring-bad-indent", u"Feature: F\n Scenario: S\n  Given x\n      \"\"\"\n   bad\n      \"\"\"\n"),
    ("docstring-comment-inside", u"Feature: F\n Scenario: S\n  Given x\n   \"\"\"\n   # not a comment\n\n   @tag\n   | t |\n   \"\"\"\n  Then y\n"),
    ("docstring-twice", u"Feature: F\n Scenario: S\n  Given x\n   \"\"\"\n   a\n   \"\"\"\n   \"\"\"\n   b\n   \"\"\"\n"),
    ("docstring-crlf", u"Feature: F\r\n Scenario: S\r\n  Given x\r\n   \"\"\"\r\n   a  \r\n   \"\"\"\r\n"),
    ("docstring-lang", u"Feature: F\n Scenario: S\n  Given x\n   \"\"\"json\n   a\n   \"\"\"\n"),
    ("text-after-steps", u"Feature: F\n Scenario: S\n  Given x\n  some text\n"),
    ("text-after-steps-feature", u"Feature: F\n Scenario: S\n  Given x\n  Feature: G\n"),
    ("text-after-steps-bg", u"Feature: F\n Scenario: S\n  Given x\n  Background: G\n"),
    ("text-after-steps-rule", u"Feature: F\n Scenario: S\n  Given x\n Rule: G\n  Scenario: T\n   Given y\n Rule: H\n"),
    ("desc-keywords", u"Feature: F\n Feature: again in description?\n"),
    ("scenario-desc-feature", u"Feature: F\n Scenario: S\n  Feature: as description\n  Background: as description\n  Given x\n"),
    ("rule-desc", u"Feature: F\n Rule: R\n  Feature: desc\n  text\n  Rule: R2\n"),
    ("colon-keywords", u"Feature:\n Scenario:\n  Given\n  When:\n"),
    ("no-colon", u"Feature F\n"),
    ("unicode", u"Feature: \u00fcber\n Scenario: \u2603\n  Given \u65e5\u672c\u8a9e\n   | \u00e4 |\n   | \u00f6 |\n"),
    ("tabs", u"Feature: F\n\tScenario: S\n\t\tGiven x\n\t\t| a |\n\t\t| 1 |\n"),
    ("formfeed", u"Feature: F\x0c Scenario: S\n  Given x\x1c  Then y\n"),
    ("only-tags", u"@a @b\n@c\n"),
    ("tags-eof-in-feature", u"Feature: F\n@a\n"),
    ("step-trailing-colon", u"Feature: F\n Scenario: S\n  Given x:\n   | a |\n  When y:\n   \"\"\"\n   t\n   \"\"\"\n"),
]


def lang_pool(lang):
    kw = i18n.languages[lang]
    pool = [u"# language: %s" % lang]
    for name in ("feature", "rule", "background", "scenario",
                 "scenario_outline", "examples"):
        for alias in kw[name][:2]:
            pool.append(u"%s: %s title" % (alias, name))
    for name in ("given", "when", "then", "and", "but"):
        for alias in kw[name][:2]:
            pool.append(u"  %sa %s step" % (alias, name))
    return pool


COMMON_POOL = [
    u"@tag1 @tag2", u"@tag3 # comment", u"@bad tag", u"  @t", u"@",
    u"| a | b |", u"| 1 | 2 |", u"| 1 |", u"|", u"| x | y", u"  | a\\|b | c |",
    u'"""', u'  """', u"'''", u'    """', u"  some text", u"text",
    u"# comment", u"  # language: de", u"# language: fr", u"# language: zz",
    u"", u"   ", u"Feature: Plain", u"Rule: Plain", u"Background: Plain",
    u"Scenario: Plain", u"Scenario Outline: Plain", u"Examples: Plain",
    u"Example: Plain", u"  Given g", u"  When w", u"  Then t", u"  And a",
    u"  But b", u"  * s", u"Given:", u"  given lower",
]


def make_soups(rng, count):
    langs = ["en", "de", "fr", "ja", "ru", "en-pirate", "zh-CN", "ar"]
    langs = [l for l in langs if l in i18n.languages]
    pools = dict((l, lang_pool(l) + COMMON_POOL) for l in langs)
    for i in range(count):
        lang = langs[i % len(langs)]
        pool = pools[lang]
        n = rng.randint(1, 12)
        lines = [rng.choice(pool) for _ in range(n)]
        if rng.random() < 0.5:
            # -- BIAS: Start like a feature to reach deeper states.
            head = [u"# language: %s" % lang,
                    u"%s: soup" % i18n.languages[lang]["feature"][0]]
            if rng.random() < 0.6:
                head.append(u"%s: soup" % i18n.languages[lang]["scenario"][0])
            lines = head + lines
        yield "soup%04d" % i, lang, u"\n".join(lines) + u"\n"


def mutations(text):
    lines = text.splitlines()
    n = len(lines)
    for i in range(n):
        yield "del%d" % i, lines[:i] + lines[i + 1:]
        yield "dup%d" % i, lines[:i + 1] + lines[i:]
        if i + 1 < n:
            yield "swap%d" % i, lines[:i] + [lines[i + 1], lines[i]] + lines[i + 2:]
        yield "trunc%d" % i, lines[:i]
    injected = [u"Feature: Injected", u"Rule: Injected", u"Background: Injected",
                u"Examples: Injected", u"  And injected", u"  | 1 | 2 | 3 |",
                u"@ok bad", u"free text", u'  """', u"@tagline",
                u"Scenario Outline: Injected"]
    for i in range(n + 1):
        for j, extra in enumerate(injected):
            yield "ins%d.%d" % (i, j), lines[:i] + [extra] + lines[i:]


# ---------------------------------------------------------------------------
# EXTRA: DIRECT API PROBES
# ---------------------------------------------------------------------------
def direct_probes():
    emit("== direct probes")
    # -- ParserError rendering
    for args, kwargs in [
        ((u"msg", 3), {}), ((u"msg", 0), {}), ((u"msg", None), {}),
        ((u"msg", 3, "file.feature"), {}),
        ((u"msg", 3, None, u"  text  "), {}),
        ((u"msg", 3, "f", u"text", u"why"), {}),
        ((u"msg", 3), {"reason": u"why", "use_annotated_message": False}),
    ]:
        e = P.ParserError(*args, **kwargs)
        emit("ParserError%r%r -> %s" % (args, sorted(kwargs.items()),
                                        canon(dump_exception(e))))
    # -- Parser construction
    for language in (None, "en", "de", "xx"):
        for variant in (None, "feature", "rule", "scenario", "steps", "tags"):
            try:
                p = P.Parser(language, variant)
                emit("Parser(%r,%r) -> %s" % (language, variant,
                                              canon(dump_parser_state(p))))
            except Exception as e:    # noqa
                emit("Parser(%r,%r) -> raised %s" %
                     (language, variant, canon(dump_exception(e))))
    # -- Parser.parse_tags / parse_step / match_keyword on a fresh parser
    for line in (u"@a @b", u"@a #c @d", u"@a b", u"#x", u"", u"  @a  ", u"x",
                 u"@a\t@b\x0b@c", u"@a#b", u"@#", u"@ a"):
        p = P.Parser()
        p.line = 7
        p.filename = "tags.feature"
        try:
            emit("parse_tags(%r) -> %s" % (line, canon(dump_any(p.parse_tags(line)))))
        except Exception as e:    # noqa
            emit("parse_tags(%r) -> raised %s" % (line, canon(dump_exception(e))))
    for lang in ("en", "de", "ja", "fr"):
        for last in (None, "given", "then"):
            for line in (u"Given x", u"given x", u"GIVEN x", u"And y", u"but z",
                         u"* s", u"*s", u"Givenx", u"Und y", u"Angenommen q",
                         u"前提何か", u"かつ何か", u"Soit a", u"Et b", u"", u"x",
                         u"When", u"Then  spaced  "):
                p = P.Parser(lang)
                p.reset("steps.feature")
                p.line = 5
                p.last_step_type = last
                try:
                    step = p.parse_step(line)
                    emit("parse_step[%s,%s](%r) -> %s last=%r" % (
                        lang, last, line, canon(dump_any(step)), p.last_step_type))
                except Exception as e:    # noqa
                    emit("parse_step[%s,%s](%r) -> raised %s last=%r" % (
                        lang, last, line, canon(dump_exception(e)),
                        p.last_step_type))
    for lang in (None, "en", "de"):
        for kw in ("feature", "rule", "background", "scenario",
                   "scenario_outline", "examples"):
            for line in (u"Feature: x", u"Feature x", u"Funktion: y", u"Rule:",
                         u"Regel: r", u"Example: e", u"Examples: e",
                         u"Scenario Template: t", u"Beispiele: b", u""):
                p = P.Parser(lang)
                emit("match_keyword[%s](%s,%r) -> %r lang=%r" % (
                    lang, kw, line, p.match_keyword(kw, line), p.language))
    # -- Oracle
    for variant in ("feature", "rule", "scenario", "steps"):
        for setup in ("fresh", "feature", "scenario", "tags"):
            for line in (u"Feature: x", u"Rule: r", u"Background: b",
                         u"Scenario: s", u"Scenario Outline: o", u"Examples: e",
                         u"junk", u""):
                p = P.Parser(None, variant)
                p.reset()
                if setup in ("feature", "scenario"):
                    p._build_feature(u"Feature", u"Feature: F")
                if setup == "scenario":
                    p._build_scenario_statement(u"Scenario", u"Scenario: S")
                if setup == "tags":
                    p.tags = [model.Tag(u"t", 1)]
                emit("oracle[%s,%s](%r) -> %r" % (
                    variant, setup, line, p.ask_parse_failure_oracle(line)))
    # -- Parser.action / action_* called directly in each state
    for state in P.State:
        for line in (u"@t", u"@t x", u"Feature: f", u"Rule: r", u"Background: b",
                     u"Scenario: s", u"Scenario Outline: o", u"Examples: e",
                     u"Given g", u"And a", u"| a |", u'"""', u"text", u"# c",
                     u"# language: de", u"# language: qq"):
            for prepared in ("bare", "feature+scenario+step"):
                p = P.Parser()
                p.reset("act.feature")
                if prepared != "bare":
                    p._build_feature(u"Feature", u"Feature: F")
                    p._build_scenario_statement(u"Scenario", u"Scenario: S")
                    p.statement.steps.append(
                        model.Step("act.feature", 1, u"Given", "given", u"s"))
                    if state == P.State.MULTILINE_TEXT:
                        p.multiline_terminator = u'"""'
                        p.multiline_leading = 0
                        p.multiline_start = 1
                elif state == P.State.MULTILINE_TEXT:
                    continue
                p.line = 9
                p.state = state
                try:
                    res = p.action(line)
                    emit("action[%s,%s](%r) -> %r %s" % (
                        state.name, prepared, line, res,
                        canon(dump_parser_state(p))))
                except Exception as e:    # noqa
                    emit("action[%s,%s](%r) -> raised %s %s" % (
                        state.name, prepared, line, canon(dump_exception(e)),
                        canon(dump_parser_state(p))))


# -- EXTRA (C05-t16): Parser.parse_step over all languages and keyword aliases
def step_probes():
    emit("== step probes")

    def run(parser, label, line):
        before = parser.last_step_type
        try:
            step = parser.parse_step(line)
            out = canon(dump_any(step))
        except BaseException as e:    # noqa
            out = "raised " + canon(dump_exception(e))
        emit("%s %r last=%r -> %s last=%r" % (label, line, before, out,
                                              parser.last_step_type))

    for lang in sorted(i18n.languages):
        keywords = i18n.languages[lang]
        for step_type in ("given", "when", "then", "and", "but"):
            for kw in keywords[step_type]:
                variants = [kw + u"x y", kw.lower() + u"x", kw.upper() + u"x",
                            kw.rstrip() + u"x", kw, kw.strip(), u" " + kw + u"x",
                            kw.swapcase() + u"x:"]
                for last in (None, "when"):
                    for line in variants:
                        parser = P.Parser(lang)
                        parser.reset("p.feature")
                        parser.line = 11
                        parser.last_step_type = last
                        run(parser, "step[%s,%s,%r]" % (lang, step_type, kw), line)

    # -- AND/BUT: type taken from the background of the scenario container.
    for container_kind in ("none", "feature", "feature+bg", "feature+bg+steps",
                           "rule", "rule+bg", "rule+inherited"):
        for line in (u"And a", u"But b", u"* c", u"Then d", u"and e"):
            parser = P.Parser()
            parser.reset("bg.feature")
            parser.line = 20
            if container_kind != "none":
                parser._build_feature(u"Feature", u"Feature: F")
            if container_kind in ("feature+bg", "feature+bg+steps", "rule+inherited"):
                parser._build_background_statement(u"Background", u"Background: B")
            if container_kind in ("feature+bg+steps", "rule+inherited"):
                parser.statement.steps.append(
                    model.Step("bg.feature", 3, u"Then", "then", u"bg step"))
            if container_kind.startswith("rule"):
                parser._build_rule_statement(u"Rule", u"Rule: R")
            if container_kind == "rule+bg":
                parser._build_background_statement(u"Background", u"Background: RB")
            run(parser, "bgstep[%s]" % container_kind, line)
            run(parser, "bgstep[%s]again" % container_kind, line)

    # -- UNUSUAL: parser without keywords, non-text lines, broken keyword table
    for line in (u"Given x", u"zzz", u"", None, 42, b"Given x"):
        parser = P.Parser()     # -- keywords is None (no language, no reset)
        run(parser, "nokeywords", line)
        parser = P.Parser("en")
        run(parser, "en-noreset", line)
    broken = {"given": [u"Given "], "when": [u"When "]}
    for line in (u"Given x", u"When y", u"Then z", u"And q"):
        parser = P.Parser("en")
        parser.reset()
        parser.keywords = broken
        run(parser, "broken-keywords", line)


# ---------------------------------------------------------------------------
# MAIN
# ---------------------------------------------------------------------------
def main():
    rng = random.Random(20240505)
    emit("== hand cases")
    for label, text in HAND_CASES:
        observe("hand:" + label, text)
        observe("hand:" + label + "+file", text, None, "some/dir/x.feature",
                entry_points=ENTRY_POINTS[:1] + ENTRY_POINTS[2:5])
        observe("hand:" + label + "+de", text, "de", None,
                entry_points=ENTRY_POINTS[:5])

    emit("== valid documents")
    valid = [("en", None, VALID_EN), ("de", None, VALID_DE), ("fr", None, VALID_FR),
             ("ja", None, VALID_JA), ("rule", None, VALID_RULE),
             ("scenario", None, VALID_SCENARIO), ("outline", None, VALID_OUTLINE),
             ("steps", None, VALID_STEPS), ("tags", None, VALID_TAGS),
             ("de-explicit", "de", VALID_DE.split(u"\n", 1)[1])]
    for label, language, text in valid:
        observe("valid:" + label, text, language, label + ".feature")
        observe("valid:" + label + ":crlf", text.replace(u"\n", u"\r\n"), language)
        observe("valid:" + label + ":noeol", text.rstrip(u"\n"), language)

    emit("== step entry points per step line")
    for line in VALID_STEPS.splitlines() + [u"And lonely", u"Given a\nWhen b", u""]:
        observe("step1:%r" % line, line, None, None, entry_points=ENTRY_POINTS[4:6])

    emit("== mutations")
    mutated_docs = [("en", None, VALID_EN, ENTRY_POINTS[:2]),
                    ("de", None, VALID_DE, ENTRY_POINTS[:1]),
                    ("rule", None, VALID_RULE, ENTRY_POINTS[2:3] + ENTRY_POINTS[7:]),
                    ("scenario", None, VALID_SCENARIO, ENTRY_POINTS[3:4] + ENTRY_POINTS[7:]),
                    ("outline", None, VALID_OUTLINE, ENTRY_POINTS[3:4]),
                    ("steps", None, VALID_STEPS, ENTRY_POINTS[4:5] + ENTRY_POINTS[7:]),
                    ("tags", None, VALID_TAGS, ENTRY_POINTS[6:7])]
    for label, language, text, eps in mutated_docs:
        for mlabel, lines in mutations(text):
            observe("mut:%s:%s" % (label, mlabel), u"\n".join(lines) + u"\n",
                    language, "m.feature", entry_points=eps, verbose=False)

    emit("== soups")
    for label, lang, text in make_soups(rng, 1600):
        observe(label, text, None, None, verbose=False)
        if lang != "en":
            observe(label + "+lang", text, lang, "soup.feature",
                    entry_points=ENTRY_POINTS[:5], verbose=False)

    direct_probes()

    step_probes()

    emit("== counts")
    for key in sorted(COUNTS):
        emit("%s/%s: %d" % (key[0], key[1], COUNTS[key]))

    out = u"\n".join(TRANSCRIPT) + u"\n"
    if sys.version_info[0] < 3:
        out = out.encode("utf-8")
        sys.stdout.write(out)
    else:
        sys.stdout.buffer.write(out.encode("utf-8"))


if __name__ == "__main__":
    main()
