# -*- coding: utf-8 -*-
"""
Equivalence transcript for C15 twins.

PART A: real behave runs (subprocess, PYTHONPATH=/tmp/wtU/C15) over a feature
        tree with feature/rule backgrounds, outlines, skipped, failing,
        undefined, pending and erroneous steps, tables, doc-strings, typed
        arguments and unicode; with several formatter subsets/orders and
        option settings. All reports (and a recording formatter's event log)
        are printed after normalisation of durations.
PART B: every JSON report is read back with behave.json_parser and the
        resulting model is dumped.
PART C: direct calls of the refactored code on boundary inputs.
"""
from __future__ import absolute_import, print_function, unicode_literals
import sys
sys.path.insert(0, "/tmp/wtU/C15")

import io
import json
import os
import re
import shutil
import subprocess
import tempfile
import traceback

WORKTREE = "/tmp/wtU/C15"
PYTHON = "/venv/bin/python"

FEATURE_A = u'''@feat @top
Feature: Basic Ünïcode feature
  Description line 1
  Description line 2

  Background: Common
    Given a passing step
    And a step with table
      | name | value |
      | Ä    | 1     |
      | b\\|c | 2     |

  @one
  Scenario: Passing
    When I add 2 and 3
    Then the result is 5

  @skip_me
  Scenario: Skipped by tag
    Given a passing step
    Then a failing step with "never"

  Scenario: Failing
    Scenario description.
    Given a passing step
    When a failing step with "ümlaut"
    Then a passing step

  Scenario: Undefined
    Given an undefined step
    Then a passing step

  Scenario: Error
    When a step raises an error
    Then a passing step

  Scenario: Pending
    When a pending step
    Then a passing step

  Scenario: Docstring and typed
    Given a step with text
      """
      line one
        line twö
      """
    And a single line text
      """
      only one
      """
    When the colour is red
    And the point is 3,4
    And the word is hello and ratio 1.5 here
    Then the scenario skips itself
    And a passing step

  Scenario:
    Given a passing step

  Scenario: Without steps

  @outline
  Scenario Outline: Outline <n>
    Given a passing step
    When I add <a> and <b>
    Then the result is <n>

    @ex1
    Examples: First
      | a | b | n |
      | 1 | 2 | 3 |
      | 2 | 2 | 5 |

    Examples: Second
      | a | b | n |
      | 0 | 0 | 0 |
'''

FEATURE_B = u'''Feature: Rules
  Background: Feature bg
    Given a passing step

  Scenario: Before rule
    Then a passing step

  Rule: First rule
    Background: Rule bg
      Given a passing step
      And a step with table
        | x |
        | 1 |

    Scenario: In rule 1
      When a failing step with "x"
      Then a passing step

    @skip_me
    Scenario: In rule 1 skipped
      Then a passing step

    Scenario: In rule 1 third
      Then a passing step

  Rule: Second rule
    Scenario: In rule 2
      Given a step with text
        """
        single
        """
    Scenario Outline: Rule outline <v>
      When I add <v> and <v>
      Examples:
        | v |
        | 1 |
        | 7 |
'''

FEATURE_C = u'''Feature: Empty one
'''

FEATURE_D = u'''@skip_me
Feature: All skipped
  Background:
    Given a passing step
  Scenario: S1
    Then a passing step
  Scenario: S2
    Then an undefined step
'''

STEPS = u'''# -*- coding: utf-8 -*-
from __future__ import unicode_literals
from behave import given, when, then, step, register_type
from behave.api.pending_step import StepNotImplementedError


class Point(object):
    def __init__(self, x, y):
        self.x = x
        self.y = y


def parse_point(text):
    x, y = text.split(",")
    return Point(int(x), int(y))
parse_point.pattern = r"\\d+,\\d+"


def parse_colour(text):
    return text.upper()
parse_colour.pattern = r"red|green"

register_type(Point=parse_point, Colour=parse_colour)


@step("a passing step")
def step_passing(context):
    pass

@step("a step with table")
def step_with_table(context):
    assert context.table is not None

@step("a step with text")
def step_with_text(context):
    assert context.text is not None

@step("a single line text")
def step_single_line_text(context):
    assert context.text is not None

@when("I add {a:d} and {b:d}")
def step_add(context, a, b):
    context.result = a + b

@then("the result is {n:d}")
def step_result(context, n):
    assert context.result == n, "expected %d, got %d" % (n, context.result)

@step('a failing step with "{word}"')
def step_failing(context, word):
    print("captured output: %s" % word)
    assert False, "failing with %s" % word

@when("a step raises an error")
def step_error(context):
    raise RuntimeError("boom ä")

@when("a pending step")
def step_pending(context):
    raise StepNotImplementedError("not yet")

@when("the colour is {colour:Colour}")
def step_colour(context, colour):
    assert colour == "RED"

@when("the point is {point:Point}")
def step_point(context, point):
    assert point.x == 3

@when("the word is {word:w} and ratio {ratio:f} here")
def step_optional(context, word, ratio):
    pass

@then("the scenario skips itself")
def step_skip(context):
    context.scenario.skip("on demand")
'''

RECORDER = u'''# -*- coding: utf-8 -*-
from __future__ import unicode_literals
from behave.formatter.base import Formatter


class Recorder(Formatter):
    name = "recorder"
    description = "records the formatter event stream"

    def __init__(self, stream_opener, config):
        super(Recorder, self).__init__(stream_opener, config)
        self.stream = self.open()

    def log(self, text):
        self.stream.write(text + "\\n")

    def uri(self, uri):
        self.log("uri %s" % uri)

    def feature(self, feature):
        self.log("feature %s|%s" % (feature.name, feature.status.name))

    def rule(self, rule):
        self.log("rule %s" % rule.name)

    def background(self, background):
        self.log("background %s|%d" % (background.name, len(background.steps)))

    def scenario(self, scenario):
        self.log("scenario %s|%s" % (scenario.name, scenario.location))

    def step(self, step):
        self.log("step %s %s|%s" % (step.keyword, step.name, step.status.name))

    def match(self, match):
        args = ["%s=%r/%s" % (a.name, getattr(a, "original", None),
                              type(a.value).__name__)
                for a in (match.arguments or [])]
        self.log("match %s loc=%s args=%s" % (
            match.__class__.__name__, bool(match.location), ",".join(args)))

    def result(self, step):
        self.log("result %s|%s|err=%s" % (step.name, step.status.name,
                                           bool(step.error_message)))

    def eof(self):
        self.log("eof")

    def close(self):
        self.log("close")
        self.close_stream()
'''

ENVIRONMENT_FILE = u'''# -*- coding: utf-8 -*-
'''


def write_file(path, text):
    dirname = os.path.dirname(path)
    if not os.path.isdir(dirname):
        os.makedirs(dirname)
    with io.open(path, "w", encoding="utf-8") as f:
        f.write(text)


def make_tree(workdir):
    write_file(os.path.join(workdir, "features", "a_basic.feature"), FEATURE_A)
    write_file(os.path.join(workdir, "features", "b_rules.feature"), FEATURE_B)
    write_file(os.path.join(workdir, "features", "c_empty.feature"), FEATURE_C)
    write_file(os.path.join(workdir, "features", "d_skipped.feature"), FEATURE_D)
    write_file(os.path.join(workdir, "features", "steps", "steps.py"), STEPS)
    write_file(os.path.join(workdir, "features", "environment.py"),
               ENVIRONMENT_FILE)
    write_file(os.path.join(workdir, "recorder.py"), RECORDER)


_DURATION_TEXT = re.compile(r"\b\d+\.\d{3}s\b")
_DURATION_MIN = re.compile(r"\b\d+m\d+\.\d{3}s\b")
_TRACE_LINE = re.compile(r'File "([^"]*)", line \d+, in')
_JSON_DURATION = re.compile(r'("duration": )[-+0-9.e]+')
_HEX_ADDR = re.compile(r"0x[0-9a-fA-F]+")


def normalize(text, workdir):
    text = text.replace(workdir, "<WORKDIR>")
    text = _DURATION_MIN.sub("<T>", text)
    text = _DURATION_TEXT.sub("<T>s", text)
    text = _TRACE_LINE.sub(lambda m: 'File "%s", line N, in' % m.group(1), text)
    text = _JSON_DURATION.sub(r"\g<1>0", text)
    text = _HEX_ADDR.sub("0xADDR", text)
    return text


def emit(text):
    if not isinstance(text, type(u"")):
        text = text.decode("utf-8", "replace")
    sys.stdout.write(text if sys.version_info[0] >= 3 else text.encode("utf-8"))
    if not text.endswith(u"\n"):
        sys.stdout.write("\n")


def run_behave(workdir, title, formats, options, paths=("features",)):
    """formats: list of (formatter-name, output-file or None)."""
    emit(u"=" * 78)
    emit(u"RUN %s: formats=%s options=%s paths=%s" % (
        title, ",".join(f for f, _ in formats), " ".join(options),
        " ".join(paths)))
    outdir = os.path.join(workdir, "out")
    if os.path.isdir(outdir):
        shutil.rmtree(outdir)
    os.makedirs(outdir)
    cmd = [PYTHON, "-m", "behave", "--no-color"]
    outfiles = []
    for fmt, outfile in formats:
        cmd += ["-f", fmt]
        if outfile:
            cmd += ["-o", os.path.join("out", outfile)]
            outfiles.append(outfile)
    cmd += list(options) + list(paths)
    env = dict(os.environ)
    env["PYTHONPATH"] = os.pathsep.join([WORKTREE, workdir])
    env["PYTHONIOENCODING"] = "utf-8"
    env["PYTHONHASHSEED"] = "0"
    env.pop("BEHAVE_ARGS", None)
    proc = subprocess.Popen(cmd, cwd=workdir, env=env, stdout=subprocess.PIPE,
                            stderr=subprocess.PIPE)
    out, err = proc.communicate()
    emit(u"returncode: %s" % proc.returncode)
    emit(u"--- stdout")
    emit(normalize(out.decode("utf-8", "replace"), workdir))
    emit(u"--- stderr")
    emit(normalize(err.decode("utf-8", "replace"), workdir))
    json_files = []
    for outfile in outfiles:
        path = os.path.join(outdir, outfile)
        emit(u"--- file %s" % outfile)
        if not os.path.exists(path):
            emit(u"<MISSING>")
            continue
        with io.open(path, "r", encoding="utf-8") as f:
            contents = f.read()
        emit(normalize(contents, workdir))
        if outfile.endswith(".json"):
            json_files.append(path)
            try:
                data = json.loads(contents)
                emit(u"--- valid JSON: %d features" % len(data))
                emit(describe_json(data))
            except ValueError as e:
                emit(u"--- INVALID JSON: %s" % e)
    for path in json_files:
        emit(u"--- json_parser readback %s" % os.path.basename(path))
        emit(normalize(readback(path), workdir))


def describe_json(data):
    """Compact structural summary of a JSON report (status per element)."""
    lines = []
    for feature in data:
        lines.append(u"F %s|%s|%s|tags=%s|%s" % (
            feature.get("keyword"), feature.get("name"), feature.get("status"),
            feature.get("tags"), feature.get("location")))
        for element in feature.get("elements", []):
            lines.append(u"  E %s|%s|%s|%s|tags=%s|%s" % (
                element.get("type"), element.get("keyword"),
                element.get("name"), element.get("status", "<none>"),
                element.get("tags", "<none>"), element.get("location")))
            for step in element.get("steps", []):
                result = step.get("result")
                match = step.get("match")
                lines.append(u"    S %s %s|%s|result=%s|match=%s|text=%r|table=%r" % (
                    step.get("keyword"), step.get("name"),
                    step.get("step_type"),
                    None if result is None else
                    (result.get("status"), "error_message" in result),
                    None if match is None else
                    (bool(match.get("location")), match.get("arguments")),
                    step.get("text"), step.get("table")))
    return u"\n".join(lines)


def readback(path):
    from behave import json_parser
    lines = []
    try:
        features = json_parser.parse(path)
    except Exception as e:      # pylint: disable=broad-except
        return u"EXCEPTION %s: %s" % (e.__class__.__name__, e)
    for feature in features:
        lines.append(u"F %s|%s|%s|%s:%s|tags=%s|descr=%r" % (
            feature.keyword, feature.name, feature.status.name,
            feature.filename, feature.line, list(feature.tags),
            feature.description))
        background = feature.background
        if background is not None:
            lines.append(u"  B %s|%s|%s:%s" % (
                background.keyword, background.name, background.filename,
                background.line))
            for step in background.steps:
                lines.append(describe_step(step))
        for scenario in feature.scenarios:
            lines.append(u"  %s %s|%s|%s|%s:%s|tags=%s|descr=%r" % (
                scenario.__class__.__name__, scenario.keyword, scenario.name,
                scenario.status.name, scenario.filename, scenario.line,
                list(scenario.tags), scenario.description))
            for step in scenario.steps:
                lines.append(describe_step(step))
    return u"\n".join(lines)


def describe_step(step):
    table = None
    if step.table is not None:
        table = (list(step.table.headings),
                 [list(row) for row in step.table.rows])
    return u"    S %s %s|%s|%s|%s:%s|dur=%s|text=%r|table=%r|err=%r" % (
        step.keyword, step.name, step.step_type, step.status.name,
        step.filename, step.line, type(step.duration).__name__,
        step.text, table, step.error_message)


ALL_FORMATS = [
    ("recorder:Recorder", "rec.txt"),
    ("json", "report.json"),
    ("plain", "plain.txt"),
    ("progress", "progress.txt"),
    ("progress2", "progress2.txt"),
    ("progress3", "progress3.txt"),
    ("pretty", "pretty.txt"),
    ("json.pretty", "pretty.json"),
]


def part_a_and_b(workdir):
    run_behave(workdir, "all-default", ALL_FORMATS, [])
    run_behave(workdir, "all-reversed-no-skipped", list(reversed(ALL_FORMATS)),
               ["--no-skipped", "--tags=~@skip_me"])
    run_behave(workdir, "show-skipped-tags", ALL_FORMATS,
               ["--show-skipped", "--tags=~@skip_me"])
    run_behave(workdir, "no-multiline-show-timings", ALL_FORMATS,
               ["--no-multiline", "--show-timings"])
    run_behave(workdir, "no-timings", ALL_FORMATS, ["--no-timings"])
    run_behave(workdir, "dry-run", ALL_FORMATS, ["--dry-run"])
    run_behave(workdir, "dry-run-tags", ALL_FORMATS,
               ["--dry-run", "--tags=@outline,@one", "--no-skipped"])
    run_behave(workdir, "stop", ALL_FORMATS, ["--stop"])
    run_behave(workdir, "name-select", ALL_FORMATS, ["-n", "In rule"])
    run_behave(workdir, "subset-stdout-plain",
               [("plain", None), ("json", "report.json")], ["--no-capture"])
    run_behave(workdir, "subset-json-stdout",
               [("json", None)], ["features/b_rules.feature"], paths=())
    run_behave(workdir, "subset-progress3-plain0",
               [("progress3", None), ("behave.formatter.plain:Plain0Formatter", "plain0.txt"),
                ("recorder:Recorder", "rec.txt")], ["--tags=@feat,@skip_me"])
    run_behave(workdir, "only-empty", ALL_FORMATS,
               [], paths=("features/c_empty.feature",))
    run_behave(workdir, "no-features-selected", ALL_FORMATS,
               ["-i", "nothing_matches"])


def call(label, func, *args, **kwargs):
    try:
        result = func(*args, **kwargs)
        emit(_HEX_ADDR.sub("0xADDR", u"%s -> %r" % (label, result)))
        return result
    except BaseException as e:   # pylint: disable=broad-except
        emit(_HEX_ADDR.sub("0xADDR", u"%s -> EXCEPTION %s: %s" % (
            label, e.__class__.__name__, e)))
        return None


# -----------------------------------------------------------------------------
# PART C: direct (scripted) use of behave.formatter.plain.PlainFormatter
# -----------------------------------------------------------------------------
class FakeStream(object):
    """Text stream that logs writes; may refuse non-ASCII text."""
    encoding = "ascii"

    def __init__(self, ascii_only=False, fail_marker=None):
        self.ascii_only = ascii_only
        self.fail_marker = fail_marker
        self.writes = []

    def write(self, text):
        if self.ascii_only:
            text.encode("ascii")        # -- MAY RAISE: UnicodeEncodeError
        if self.fail_marker and self.fail_marker in text:
            raise IOError("write refused: %r" % text)
        self.writes.append(text)

    def flush(self):
        self.writes.append(u"<flush>")

    def getvalue(self):
        return u"".join(self.writes)


class FakeOpener(object):
    name = "fake.txt"

    def __init__(self, stream):
        self.stream = stream

    def open(self):
        return self.stream

    def close(self):
        pass


class Obj(object):
    def __init__(self, **kwargs):
        self.__dict__.update(kwargs)


def part_c():
    from behave.formatter.plain import PlainFormatter, Plain0Formatter
    from behave.model_core import Status
    from behave.parser import parse_feature

    emit(u"=" * 78)
    emit(u"PART C: scripted PlainFormatter event streams")

    class AlignedFormatter(PlainFormatter):
        SHOW_ALIGNED_KEYWORDS = True
        SHOW_TAGS = True

    class QuietFormatter(PlainFormatter):
        SHOW_BACKGROUNDS = False
        RAISE_OUTPUT_ERRORS = False
        DEFAULT_INDENT_SIZE = 4

    feature_text = u'''
@f1 @f2
Feature: Direct
  Background: BG
    Given bg step

  @s1
  Scenario: One
    Given first step
      """
      multi
        line ü
      """
    When second step
      | a | b |
      | 1 | ä |
    Then third step
      """
      both
      """
      | x |
      | y |

  Rule: R1
    Background: Rule BG
      Given rule bg step

    @s2 @s3
    Scenario: Two
      Given other step
        """
        text
        """
      And a very long keyword step
        | k |
        | v |
'''
    def script(formatter_class, show_timings, show_multiline, stream,
               statuses):
        feature = parse_feature(feature_text, filename="direct.feature")
        config = Obj(show_timings=show_timings, show_multiline=show_multiline)
        formatter = formatter_class(FakeOpener(stream), config)
        emit(u"  multiline_indentation(before)=%r" %
             formatter.multiline_indentation)
        status_iter = iter(statuses)

        def finish(step):
            status, error_message = next(status_iter)
            step.status = status
            step.duration = 0.12345
            step.error_message = error_message
            return step

        call(u"result-on-empty-queue", formatter.result, None)
        call(u"uri", formatter.uri, "direct.feature")
        call(u"feature", formatter.feature, feature)
        call(u"background", formatter.background, feature.background)
        for run_item in feature.run_items:
            if hasattr(run_item, "run_items"):
                rule = run_item
                call(u"rule", formatter.rule, rule)
                emit(u"  multiline_indentation(rule)=%r _indent_state=%r" % (
                    formatter.multiline_indentation,
                    bool(formatter.current_rule)))
                if rule.background:
                    call(u"background", formatter.background, rule.background)
                scenarios = rule.run_items
            else:
                scenarios = [run_item]
            for scenario in scenarios:
                call(u"scenario %s" % scenario.name, formatter.scenario,
                     scenario)
                for step in scenario.all_steps:
                    call(u"step %s" % step.name, formatter.step, step)
                emit(u"  queue=%s" % [s.name for s in formatter.steps])
                for step in scenario.all_steps:
                    call(u"match", formatter.match, None)
                    # -- NOTE: result() reports the queued step, not its arg.
                    finish(step)
                    call(u"result %s" % step.name, formatter.result, None)
                emit(u"  queue=%s" % [s.name for s in formatter.steps])
        call(u"result-on-empty-queue", formatter.result, None)
        call(u"eof", formatter.eof)
        call(u"close", formatter.close)
        emit(u"  writes=%r" % stream.writes)
        emit(u"  output:\n%s" % stream.getvalue())

    ok = (Status.passed, None)
    many = [ok, (Status.failed, u"Assertion Failed: bäd\nmore"),
            (Status.skipped, None), (Status.undefined, u""),
            (Status.error, u"Traceback...\n  boom"), ok,
            (Status.untested, None), (Status.pending, u"pending: later"),
            ok, ok, ok, ok]
    index = 0
    for formatter_class in (PlainFormatter, Plain0Formatter, AlignedFormatter,
                            QuietFormatter):
        for show_timings in (False, True):
            for show_multiline in (True, False):
                index += 1
                emit(u"-- script %d: %s timings=%s multiline=%s" % (
                    index, formatter_class.__name__, show_timings,
                    show_multiline))
                script(formatter_class, show_timings, show_multiline,
                       FakeStream(), many)

    # -- OUTPUT ERRORS: stream refuses non-ASCII text (UnicodeEncodeError).
    for formatter_class in (PlainFormatter, AlignedFormatter, QuietFormatter):
        for show_multiline in (True, False):
            index += 1
            emit(u"-- script %d: %s ascii-only stream, multiline=%s" % (
                index, formatter_class.__name__, show_multiline))
            script(formatter_class, True, show_multiline,
                   FakeStream(ascii_only=True), many)
            index += 1
            emit(u"-- script %d: %s ascii-only stream, clean messages" % index
                 if False else
                 u"-- script %d: %s ascii-only, ascii error messages, multiline=%s"
                 % (index, formatter_class.__name__, show_multiline))
            script(formatter_class, False, show_multiline,
                   FakeStream(ascii_only=True), [ok] * 12)

    # -- OTHER WRITE ERRORS (not UnicodeError): propagate unchanged.
    for marker in (u"first step", u"passed", u"Scenario: Two", u"| 1 |",
                   u"Rule BG"):
        index += 1
        emit(u"-- script %d: PlainFormatter, write refuses %r" % (index, marker))
        script(PlainFormatter, False, True, FakeStream(fail_marker=marker),
               [ok] * 12)


def main():
    workdir = tempfile.mkdtemp(prefix="c15twin_")
    workdir = os.path.realpath(workdir)
    try:
        make_tree(workdir)
        part_a_and_b(workdir)
    finally:
        shutil.rmtree(workdir, ignore_errors=True)
    try:
        part_c()
    except Exception:       # pylint: disable=broad-except
        emit(u"PART C CRASHED:\n%s" % normalize(traceback.format_exc(), "-"))


if __name__ == "__main__":
    main()
