# -*- coding: UTF-8 -*-
"""Equivalence transcript for C09 twins.

Runs feature trees with tags on every level through the behave model runner
for many tag expressions (both dialects), show_skipped on/off, dry-run on/off
and prints: effective tags, should_run answers, the call log of hooks / steps /
formatter / reporter callbacks and the final status of every element.
"""
from __future__ import absolute_import, print_function
import sys
sys.path.insert(0, "/tmp/wtX/C09")
import os
import io
import contextlib

os.chdir("/tmp/wtX/C09")

from behave.configuration import Configuration
from behave.parser import parse_feature
from behave.runner import ModelRunner
from behave.step_registry import StepRegistry
from behave.formatter.base import Formatter, StreamOpener
from behave.model import ScenarioOutline, Scenario, Rule, ScenarioOutlineBuilder
from behave.model_core import Status
from behave import matchers

FOCUS = "C09-t24 Scenario.run not-executed step branch"

FEATURE_1 = u"""
@f1 @common
Feature: Alpha

  Background:
    Given a background step

  @s1 @fast
  Scenario: A1
    Given a passing step
    Then another passing step

  @s2 @slow
  Scenario: A2
    Given a failing step
    Then another passing step

  Scenario: A3 untagged
    Given a passing step

  @o1 @param.<kind>
  Scenario Outline: AO <kind>
    Given a step with <kind>
    Then another passing step

    @e1
    Examples: first
      | kind |
      | red  |
      | blue |

    @e2 @slow
    Examples: second
      | kind  |
      | green |

    Examples: untagged examples
      | kind  |
      | black |

  @r1
  Rule: R one

    @s3
    Scenario: R1-S1
      Given a passing step

    @s4 @slow
    Scenario: R1-S2
      Given an undefined step
      Then another passing step

    @o2 @unknown.<nix>
    Scenario Outline: R1-O <kind>
      Given a step with <kind>

      @e3
      Examples:
        | kind |
        | pink |

  @r2 @slow
  Rule: R two

    Scenario: R2-S1
      Given a passing step

  Rule: R three empty
"""

FEATURE_2 = u"""
@f2
Feature: Beta

  @s5
  Scenario: B1
    Given a passing step

  @s6 @wip
  Scenario: B2 no steps

  @s7 @slow
  Scenario: B3 failure before undefined step
    Given a failing step
    Then an undefined step
    And another passing step
    But another undefined step
"""

FEATURE_3 = u"""
Feature: Gamma untagged and empty
"""

FEATURE_4 = u"""
@f4 @slow
Feature: Delta

  Scenario: D1
    Given a passing step

  @fast
  Scenario Outline: DO <kind>
    Given a step with <kind>

    Examples: no rows
      | kind |
"""

FEATURES = [("alpha.feature", FEATURE_1), ("beta.feature", FEATURE_2),
            ("gamma.feature", FEATURE_3), ("delta.feature", FEATURE_4)]

TAG_ARGS = [
    [],
    ["--tags=@f1"],
    ["--tags=not @f1"],
    ["--tags=@s1"],
    ["--tags=@s1 or @s5"],
    ["--tags=not @slow"],
    ["--tags=@slow"],
    ["--tags=@e1"],
    ["--tags=not @e1"],
    ["--tags=@e2 and @o1"],
    ["--tags=@o1 and not @slow"],
    ["--tags=@param.red"],
    ["--tags=@param.*"],
    ["--tags=not @param.*"],
    ["--tags=@param.<kind>"],
    ["--tags=@unknown.<nix>"],
    ["--tags=@r1"],
    ["--tags=@r1 and not @s4"],
    ["--tags=not @r1 and not @r2"],
    ["--tags=@r2"],
    ["--tags=@e3"],
    ["--tags=@o2"],
    ["--tags=@nosuchtag"],
    ["--tags=not @nosuchtag"],
    ["--tags=(@f1 or @f2) and not (@slow or @e1)"],
    ["--tags=@f4 and @fast"],
    ["--tags=@s*"],
    ["--tags=@*1"],
    ["--tags=@common", "--tags=@fast"],
    # -- v1 dialect
    ["--tags=~@slow"],
    ["--tags=-@f1"],
    ["--tags=@s1,@s5"],
    ["--tags=@f1", "--tags=~@e1"],
    ["--tags=@r1,@r2", "--tags=-@s4"],
    ["--tags=~@f1", "--tags=~@f2"],
    ["--tags=@wip"],
    ["--wip"],
    ["--tags=@f1", "--name=R1"],
    ["--name=A1"],
    ["--tags=@e1", "--stop"],
    ["--tags=@s7"],
    ["--tags=@f2 and not @s7"],
]

MODES = [
    [],
    ["--no-skipped"],
    ["--show-skipped"],
    ["--dry-run"],
    ["--dry-run", "--no-skipped"],
]


class Recorder(object):
    def __init__(self):
        self.lines = []

    def add(self, text):
        self.lines.append(text)


class RecordingFormatter(Formatter):
    name = "recording"

    def __init__(self, stream_opener, config, log):
        super(RecordingFormatter, self).__init__(stream_opener, config)
        self.log = log

    def uri(self, uri):
        self.log.add("fmt.uri %s" % uri)

    def feature(self, feature):
        self.log.add("fmt.feature %s" % feature.name)

    def rule(self, rule):
        self.log.add("fmt.rule %s" % rule.name)

    def background(self, background):
        self.log.add("fmt.background %s" % background.name)

    def scenario(self, scenario):
        self.log.add("fmt.scenario %s" % scenario.name)

    def step(self, step):
        self.log.add("fmt.step %s %s" % (step.keyword, step.name))

    def match(self, match):
        self.log.add("fmt.match %s" % type(match).__name__)

    def result(self, step):
        self.log.add("fmt.result %s -> %s" % (step.name, step.status.name))

    def eof(self):
        self.log.add("fmt.eof")

    def rule_finished(self):
        self.log.add("fmt.rule_finished")

    def close(self):
        self.log.add("fmt.close")


class RecordingReporter(object):
    def __init__(self, log):
        self.log = log

    def feature(self, feature):
        self.log.add("reporter.feature %s -> %s" % (feature.name, feature.status.name))

    def end(self):
        self.log.add("reporter.end")


def make_registry(log):
    registry = StepRegistry()

    def step_pass(context):
        log.add("step.call passing tags=%s" % sorted(context.tags))

    def step_other(context):
        log.add("step.call another")

    def step_bg(context):
        log.add("step.call background")

    def step_fail(context):
        log.add("step.call failing")
        assert False, "XFAIL"

    def step_kind(context, kind):
        row = context.active_outline
        log.add("step.call kind=%s row=%s tags=%s" % (
            kind, row and row.id, sorted(context.tags)))

    matchers.use_step_matcher("parse")
    registry.add_step_definition("given", u"a passing step", step_pass)
    registry.add_step_definition("then", u"another passing step", step_other)
    registry.add_step_definition("given", u"a background step", step_bg)
    registry.add_step_definition("given", u"a failing step", step_fail)
    registry.add_step_definition("given", u"a step with {kind}", step_kind)
    return registry


def make_hooks(log, variant):
    def describe(entity):
        return "%s[%s]" % (entity.name, ",".join(entity.tags))

    hooks = {}
    for name in ("before_feature", "after_feature", "before_rule", "after_rule",
                 "before_scenario", "after_scenario"):
        def hook(context, entity, name=name):
            log.add("hook.%s %s ctx.tags=%s" % (name, describe(entity),
                                                sorted(context.tags)))
            if variant == "skip-in-hook" and name == "before_scenario" \
                    and "s3" in entity.tags:
                entity.skip("skipped by hook")
            if variant == "skip-in-hook" and name == "before_rule" \
                    and "r2" in entity.tags:
                entity.mark_skipped()
        hooks[name] = hook
    for name in ("before_tag", "after_tag"):
        def tag_hook(context, tag, name=name):
            log.add("hook.%s %s" % (name, tag))
        hooks[name] = tag_hook
    for name in ("before_step", "after_step"):
        def step_hook(context, step, name=name):
            log.add("hook.%s %s" % (name, step.name))
        hooks[name] = step_hook
    for name in ("before_all", "after_all"):
        def all_hook(context, name=name):
            log.add("hook.%s" % name)
        hooks[name] = all_hook
    return hooks


def dump_tree(out, features, config):
    def show(indent, entity, extra=""):
        out("%s%s %r tags=%s eff=%s should_skip=%s reason=%r status=%s%s" % (
            "  " * indent, type(entity).__name__, entity.name,
            list(entity.tags), sorted(entity.effective_tags),
            entity.should_skip, entity.skip_reason, entity.status.name, extra))

    def show_steps(indent, scenario):
        for step in scenario.all_steps:
            out("%s- %s %s: %s" % ("  " * indent, step.keyword, step.name,
                                   step.status.name))

    def walk(indent, container):
        for item in container.run_items:
            if isinstance(item, Rule):
                show(indent, item)
                walk(indent + 1, item)
            elif isinstance(item, ScenarioOutline):
                show(indent, item)
                for scenario in item.scenarios:
                    show(indent + 1, scenario,
                         " parent=%s line=%s was_dry_run=%r" % (
                             type(scenario.parent).__name__, scenario.line,
                             getattr(scenario, "was_dry_run", None)))
                    show_steps(indent + 2, scenario)
            else:
                show(indent, item, " was_dry_run=%r" % (
                    getattr(item, "was_dry_run", None),))
                show_steps(indent + 1, item)

    for feature in features:
        show(0, feature)
        walk(1, feature)


def dump_decisions(out, features, config):
    """Answers of the should_run family before the run."""
    for feature in features:
        out("decide Feature %r: should_run=%r with_tags=%r no-config=%r" % (
            feature.name, bool(feature.should_run(config)),
            feature.should_run_with_tags(config.tag_expression),
            feature.should_run()))
        for item in feature.walk_scenarios(with_outlines=True, with_rules=True):
            answer = item.should_run(config)
            out("decide %s %r: should_run=%s/%r with_tags=%r no-config=%r" % (
                type(item).__name__, item.name, type(answer).__name__,
                bool(answer),
                item.should_run_with_tags(config.tag_expression),
                item.should_run()))


def run_once(out, tag_args, mode_args, variant="plain"):
    out("=" * 70)
    out("RUN tags=%r mode=%r variant=%s" % (tag_args, mode_args, variant))
    log = Recorder()
    try:
        config = Configuration(command_args=list(tag_args) + list(mode_args),
                               load_config=False)
    except BaseException as e:     # pylint: disable=broad-except
        out("CONFIG-ERROR %s: %s" % (type(e).__name__, e))
        return
    config.reporters = [RecordingReporter(log)]
    out("config.tags=%r expr=%s show_skipped=%r dry_run=%r" % (
        config.tags, config.tag_expression, config.show_skipped, config.dry_run))
    features = [parse_feature(text, filename=name) for name, text in FEATURES]
    dump_decisions(out, features, config)
    runner = ModelRunner(config, features=features,
                         step_registry=make_registry(log))
    runner.hooks = make_hooks(log, variant)
    runner.formatters = [RecordingFormatter(StreamOpener(stream=io.StringIO()), config, log)]
    captured = io.StringIO()
    try:
        with contextlib.redirect_stdout(captured):
            failed = runner.run()
        out("runner.run() -> %r" % failed)
    except BaseException as e:     # pylint: disable=broad-except
        out("RUN-ERROR %s: %s" % (type(e).__name__, e))
    for line in captured.getvalue().splitlines():
        out("stdout| " + line)
    for line in log.lines:
        out("  " + line)
    out("undefined=%r" % [s.name for s in runner.undefined_steps])
    dump_tree(out, features, config)


def extra_checks(out):
    """Direct calls of the anchored helpers on boundary inputs."""
    out("=" * 70)
    out("EXTRA: ScenarioOutlineBuilder.make_row_tags / render_template")
    from behave.model import Row
    row = Row([u"kind", u"n"], [u"red", u"1"], line=7)
    row.id = "1.1"
    row.index = 1
    cases = [
        None, [], (),
        [u"plain"], [u"a.<kind>", u"b.<n>.<kind>", u"<kind>"],
        [u"x.<nix>", u"y.<kind>.<nix>", u"keep"],
        [u"lt<only", u"gt>only", u"odd>x<"],
        [u"with\\_space.<kind>", u"p.<row.id>", u"q.<examples.name>"],
    ]
    for params in (None, {}, {"row.id": "1.1", "examples.name": "E x"}):
        for tags in cases:
            try:
                result = ScenarioOutlineBuilder.make_row_tags(tags, row, params)
                out("make_row_tags(%r, params=%r) -> %s %r" % (
                    tags, params, type(result).__name__, result))
            except Exception as e:  # pylint: disable=broad-except
                out("make_row_tags(%r, params=%r) !! %s: %s" % (
                    tags, params, type(e).__name__, e))

    out("EXTRA: effective_tags of hand-made elements")
    from behave.model import Feature
    feature = Feature(u"x.feature", 1, u"Feature", u"F", tags=[u"a", u"b"])
    rule = Rule(u"x.feature", 2, u"Rule", u"R", tags=[u"b", u"c"], parent=feature)
    outline = ScenarioOutline(u"x.feature", 3, u"Scenario Outline", u"O",
                              tags=[u"d", u"p.<x>", u"<only", u"only>"])
    outline.parent = rule
    scenario = Scenario(u"x.feature", 4, u"Scenario", u"S", tags=[u"e", u"a"],
                        parent=outline)
    orphan = Scenario(u"x.feature", 5, u"Scenario", u"Orphan", tags=[])
    for entity in (feature, rule, outline, scenario, orphan):
        tags = entity.effective_tags
        out("%s %s eff=%s %s own=%r fresh=%r" % (
            type(entity).__name__, entity.name, type(tags).__name__,
            sorted(tags), entity.tags, tags is not entity.effective_tags))

    class LoggingExpression(object):
        def __init__(self, wanted):
            self.wanted = wanted
            self.calls = []

        def check(self, tags):
            self.calls.append(sorted(tags))
            return self.wanted in tags

    out("EXTRA: should_run_with_tags evaluation order")
    for wanted in (u"a", u"c", u"d", u"e", u"zzz", u"p.<x>"):
        for entity in (feature, rule, outline, scenario, orphan):
            expression = LoggingExpression(wanted)
            answer = entity.should_run_with_tags(expression)
            out("%s.should_run_with_tags(%s) -> %r calls=%r" % (
                entity.name, wanted, answer, expression.calls))
    feature.add_rule(rule)
    rule.add_scenario(outline)
    rule.add_scenario(orphan)
    for wanted in (u"a", u"c", u"d", u"e", u"zzz"):
        for entity in (feature, rule, outline):
            expression = LoggingExpression(wanted)
            answer = entity.should_run_with_tags(expression)
            out("linked %s.should_run_with_tags(%s) -> %r calls=%r" % (
                entity.name, wanted, answer, expression.calls))

    out("EXTRA: should_run with should_skip and falsy/truthy configs")

    class FakeConfig(object):
        def __init__(self, wanted, name=None):
            import re
            self.tag_expression = LoggingExpression(wanted)
            self.name = name
            self.name_re = name and re.compile("|".join(name))

    for skip_value in (False, True, 0, 1, None, "yes"):
        for entity in (feature, rule, outline, orphan):
            entity.should_skip = skip_value
            for config in (None, FakeConfig(u"a"), FakeConfig(u"zzz"),
                           FakeConfig(u"a", ["Orph"]), FakeConfig(u"a", ["nix"])):
                answer = entity.should_run(config)
                out("%s should_skip=%r config=%s -> %s %r" % (
                    entity.name, skip_value,
                    config and (config.tag_expression.wanted, config.name),
                    type(answer).__name__, bool(answer)))
            entity.should_skip = False


def main():
    lines = []
    out = lines.append
    out("FOCUS %s" % FOCUS)
    for tag_args in TAG_ARGS:
        for mode_args in MODES:
            run_once(out, tag_args, mode_args)
    for tag_args in (["--tags=@r1"], ["--tags=not @slow"], [], ["--tags=@r2"]):
        for mode_args in ([], ["--no-skipped"], ["--dry-run"]):
            run_once(out, tag_args, mode_args, variant="skip-in-hook")
    extra_checks(out)
    text = u"\n".join(lines) + u"\n"
    sys.stdout.write(text)


if __name__ == "__main__":
    main()
